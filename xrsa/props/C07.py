"""C07 - chunked proximity equals whole-raster proximity.

Decided on the dask path of proximity/allocation/direction (one shared implementation): the map_overlap site runs the
numpy path's own closure kernel over (data, x-grid, y-grid) in the kernel's parameter order, NaN boundary; each halo
pad is int(max_distance / cellsize_of_its_own_axis + c), c >= 0 (>= floor(max_distance / cellsize), what integer cell
offsets need) and sits in its axis' slot of `depth`; the single-block fallback is taken when max_distance >= the
corner-to-corner distance under the chosen metric and rechunks data and both grids to the full shape with depth 0;
the coordinate grids are built from the raster's own coordinates and chunked like the data.
"""
import ast

from ..astutil import calls, const, kw, parent_map, short
from ..dasksites import NAN_TEXTS, sites_in
from ..kutil import Spec
from ..program import AnalysisIncomplete, Func, Partial, norm
from ..sym import App, Rat


def distance_param_roles(prog, dist):
    """{'x1'|'x2'|'y1'|'y2'|'metric': parameter of the metric dispatcher}, read off the public great_circle_distance(x1, x2,
    y1, y2) call it reaches; None when that cannot be read"""
    from ..kai import interpret
    from ..sym import Rat, Sym
    try:
        k = interpret(prog, dist, strict=False)
    except AnalysisIncomplete:
        return None
    for r in getattr(k, 'inlined', []):
        if r[0].name == 'great_circle_distance':
            bound = dict(zip(r[0].params, r[1]))
            bound.update(r[2] or {})
            out = {}
            for role in ('x1', 'x2', 'y1', 'y2'):
                v = bound.get(role)
                nm = None
                if isinstance(v, tuple) and len(v) == 2 and v[0] == 'param':
                    nm = v[1]
                elif isinstance(v, Rat):
                    ats = list(v.atoms())
                    if len(ats) == 1 and isinstance(ats[0], Sym) and v == Rat.atom(ats[0]):
                        nm = ats[0].name
                if nm not in dist.params:
                    return None
                out[role] = nm
            rest = [p_ for p_ in dist.params if p_ not in out.values()]
            if len(set(out.values())) == 4 and len(rest) == 1:
                out['metric'] = rest[0]
                return out
    return None


def find_impl(prog):
    m = prog.module('proximity')
    impls = set()
    for name in ('proximity', 'allocation', 'direction'):
        pub = m.funcs.get(name)
        if pub is None:
            raise AnalysisIncomplete('proximity.%s not found' % name)
        found = None
        for n in pub.own_nodes():
            if isinstance(n, ast.Call):
                t = prog.resolve_callable(pub, m, n.func)
                if isinstance(t, Func) and t.module is m and any(sites_in(prog, g) for g in [t] + list(t.children.values())):
                    found = t
        if found is None:
            raise AnalysisIncomplete('%s: shared implementation with a map_overlap site not found' % name)
        impls.add(found)
    if len(impls) != 1:
        raise AnalysisIncomplete('proximity/allocation/direction do not share one implementation')
    return impls.pop()


def check(prog, rep):
    impl = find_impl(prog)
    entry = 'proximity[dask]'
    sites = []
    for g in [impl] + list(impl.children.values()):
        for s in sites_in(prog, g):
            sites.append(s)
    rep.add('P7-site', impl, entry, '%d map_overlap/map_blocks site(s)' % len(sites), impl.node.lineno,
            len(sites) == 1 and sites[0].kind == 'map_overlap', 'expected exactly one map_overlap site')
    if len(sites) != 1:
        return
    site = sites[0]
    dfun = site.scope
    kern = site.kernel()
    # ---- H0: same closure as the numpy branch
    np_calls = []
    for n in impl.own_nodes():
        if isinstance(n, ast.If) and 'np.ndarray' in norm(n.test):
            for c in ast.walk(n):
                if isinstance(c, ast.Call):
                    t = prog.resolve_callable(impl, impl.module, c.func)
                    if isinstance(t, Func):
                        np_calls.append((c, t))
    ok = kern is not None and any(t is kern for c, t in np_calls)
    rep.add('H0', dfun, entry, 'block function %s' % (kern.qualname if kern else None), site.call.lineno, ok,
            'the function mapped over blocks must be the kernel the numpy branch calls')
    # ---- arrays in kernel parameter order, as wrapper terms (wterm.py): local names, helpers and where the grids are
    # wrapped into dask arrays do not matter
    from ..wterm import WT, key as tkey, show as tshow, unwrap_dask
    wt = WT(prog, keep=[kern] if kern is not None else [])
    wt.run(impl)
    npc = [x for x in wt.calls if x.callee is kern]
    dac = [x for x in wt.calls if x.name.endswith('map_overlap') and x.args and x.args[0][0] == 'localfunc' and x.args[0][2] is kern]
    if not dac:
        dac = [x for x in wt.calls if x.name.endswith('map_overlap')]
    np_terms = da_terms = None
    if len(npc) == 1 and len(dac) == 1:
        np_terms = list(npc[0].args)
        da_terms = [unwrap_dask(a) for a in dac[0].args[1:]]
        ok = len(np_terms) == len(da_terms) and all(tkey(a) == tkey(b_) for a, b_ in zip(np_terms, da_terms))
        rep.add('P7-args', dfun, entry, 'map_overlap arrays vs numpy call: %d / %d arguments' % (len(da_terms), len(np_terms)),
                site.call.lineno, ok, 'the data and the two coordinate grids must be passed in the same order on both paths: %s' %
                [(tshow(a, 60), tshow(b_, 60)) for a, b_ in zip(np_terms, da_terms) if tkey(a) != tkey(b_)][:2])
    else:
        rep.add('P7-args', dfun, entry, 'map_overlap arrays vs numpy call', site.call.lineno, None,
                '%d numpy-path calls and %d map_overlap calls of the kernel found' % (len(npc), len(dac)))
    # ---- H2
    b = site.kwargs.get('boundary')
    bt = norm(b) if b is not None else None
    rep.add('H2', dfun, entry, 'boundary=%s' % bt, site.call.lineno, bt in NAN_TEXTS,
            'halo cells outside the raster must be NaN (NaN is never a target); reflect/periodic/nearest would invent targets')
    # ---- depth and fallback: read on the function with its small helpers inlined, one environment per branch
    from ..astutil import inline, straightline_env
    from ..inline import inline_view
    dv = inline_view(prog, dfun)
    d = site.kwargs.get('depth')
    if d is None:
        rep.add('P7a', dfun, entry, 'depth', site.call.lineno, False, 'map_overlap without a depth has no halo')
        return
    # resolution unpacking (anywhere in the function, helpers included)
    res = {}
    for n in dv.own_nodes():
        if isinstance(n, ast.Assign) and isinstance(n.value, ast.Call):
            t = prog.resolve_callable(dfun, dfun.module, n.value.func)
            if isinstance(t, Func) and t.name == 'get_dataarray_resolution' and isinstance(n.targets[0], ast.Tuple) \
                    and len(n.targets[0].elts) == 2:
                res[n.targets[0].elts[0].id] = 'x'
                res[n.targets[0].elts[1].id] = 'y'
    if len(res) != 2:
        rep.add('P7a', dfun, entry, 'cell size unpacking', dfun.node.lineno, None,
                '`cx, cy = get_dataarray_resolution(raster)` not found')
        return
    # the fallback `if`
    fb = None
    for n in dv.node.body:
        if isinstance(n, ast.If) and isinstance(n.test, ast.Compare) and len(n.test.ops) == 1 and 'max_distance' in norm(n.test):
            fb = n
    if fb is None:
        rep.add('P7b', dfun, entry, 'single-block fallback', dfun.node.lineno, False,
                'the documented fallback `if max_distance >= <raster extent>` is missing')
        return
    t = fb.test
    l, r = norm(t.left), norm(t.comparators[0])
    opn = type(t.ops[0]).__name__
    whole_when_true = (l == 'max_distance' and opn in ('GtE', 'Gt')) or (r == 'max_distance' and opn in ('LtE', 'Lt'))
    whole_branch, halo_branch = (fb.body, fb.orelse) if whole_when_true else (fb.orelse, fb.body)
    other = r if l == 'max_distance' else l
    # max possible distance = _distance(corner, opposite corner, metric)
    mp = [v for v in impl.local_assigns().get(other, []) if isinstance(v, ast.AST)]
    okmp = False
    mptxt = None
    if len(mp) == 1 and isinstance(mp[0], ast.Call):
        mptxt = norm(mp[0])
        tt = prog.resolve_callable(impl, impl.module, mp[0].func)
        if isinstance(tt, Func):
            # the dispatcher's parameters by what they reach (great_circle_distance(x1, x2, y1, y2): public names), not by position
            dr = distance_param_roles(prog, tt)
            b_ = dict(zip(tt.params, [norm(a).replace(' ', '') for a in mp[0].args]))
            b_.update({k_.arg: norm(k_.value).replace(' ', '') for k_ in mp[0].keywords if k_.arg})
            if dr is not None and set(b_) == set(tt.params):
                corner = {'xs[0][0]': ('x', 0), 'xs[0,0]': ('x', 0), 'xs[-1][-1]': ('x', 1), 'xs[-1,-1]': ('x', 1),
                          'ys[0][0]': ('y', 0), 'ys[0,0]': ('y', 0), 'ys[-1][-1]': ('y', 1), 'ys[-1,-1]': ('y', 1)}
                c_ = {r_: corner.get(b_[dr[r_]]) for r_ in ('x1', 'x2', 'y1', 'y2')}
                okmp = all(v_ is not None for v_ in c_.values()) and c_['x1'][0] == c_['x2'][0] == 'x' and c_['y1'][0] == c_['y2'][0] == 'y' and \
                    c_['x1'][1] == c_['y1'][1] and c_['x2'][1] == c_['y2'][1] and c_['x1'][1] != c_['x2'][1] and b_[dr['metric']] == 'distance_metric'
    rep.add('P7b', impl, entry, '%s = %s' % (other, mptxt), impl.node.lineno, okmp,
            'the fallback threshold must be the corner-to-corner distance of the raster under the chosen metric')
    rep.add('P7b', dfun, entry, 'if %s' % norm(t), fb.lineno,
            (l == 'max_distance' and opn in ('GtE', 'Gt', 'Lt', 'LtE')) or (r == 'max_distance' and opn in ('GtE', 'Gt', 'Lt', 'LtE')),
            'fallback comparison must relate max_distance to the raster extent')
    body = dv.node.body
    before, after = body[:body.index(fb)], body[body.index(fb) + 1:]

    def depth_in(branch):
        """the two depth expressions (rows, columns) as seen after this branch, locals inlined"""
        env = straightline_env(before + list(branch) + after)
        e = inline(d, env)
        if isinstance(e, ast.Tuple) and len(e.elts) == 2:
            return list(e.elts), env
        if isinstance(e, ast.Dict) and len(e.keys) == 2 and sorted(const(k) for k in e.keys) == [0, 1]:
            byk = {const(k): v for k, v in zip(e.keys, e.values)}
            return [byk[0], byk[1]], env
        return None, env
    # whole branch: rechunk data, xs, ys to full shape; depth 0
    wd, wenv = depth_in(whole_branch)
    rech = {}
    for s_ in whole_branch:
        for n in ast.walk(s_):
            if isinstance(n, ast.Assign) and isinstance(n.value, ast.Call) and short(n.value) == 'rechunk':
                tgt = norm(n.targets[0])
                src = norm(n.value.func.value)
                a0 = n.value.args[0] if n.value.args else None
                if isinstance(a0, ast.Name):
                    loc = [x.value for x in whole_branch if isinstance(x, ast.Assign) and norm(x.targets[0]) == a0.id]
                    a0 = loc[0] if len(loc) == 1 else a0
                rech[tgt] = (src, norm(a0).replace(' ', '') if a0 is not None else '')
    hw = None
    for s_ in whole_branch:
        if isinstance(s_, ast.Assign) and isinstance(s_.targets[0], ast.Tuple) and norm(s_.value).endswith('.shape'):
            hw = [e.id for e in s_.targets[0].elts]
    want_arg = ('{0:%s,1:%s}' % (hw[0], hw[1])) if hw else None
    alt_arg = ('(%s,%s)' % (hw[0], hw[1])) if hw else None
    need = {site_root(a) for a in site.arrays}
    okr = hw is not None and all(k in rech and rech[k][0] == k and rech[k][1] in (want_arg, alt_arg) for k in need)
    rep.add('P7b', dfun, entry, 'fallback rechunks %s' % sorted(rech.items()), fb.lineno, okr,
            'when every target may matter the data and BOTH coordinate grids must become one block of the full shape '
            '(rows from shape[0], columns from shape[1]); needs %s' % sorted(need))
    ok0 = wd is not None and all(isinstance(const(e), int) and not isinstance(const(e), bool) and const(e) >= 0 for e in wd)
    rep.add('P7b', dfun, entry, 'fallback depth %s' % ([norm(e) for e in wd] if wd else None), fb.lineno, ok0,
            'with a single block no halo is needed: both depths must be non-negative constants in the fallback branch')
    # halo branch: pads
    hd, henv = depth_in(halo_branch)
    env = {'max_distance': Rat.sym('max_distance')}
    for k, ax in res.items():
        env[k] = Rat.sym('cellsize_' + ax)
    sp = Spec(prog, env, dfun.module)
    for slot, ax in enumerate(('y', 'x')):
        if hd is None:
            rep.add('P7a', dfun, entry, 'depth[%d]' % slot, fb.lineno, None, 'depth expression not found / not understood')
            continue
        try:
            v = sp.it.as_scalar(sp.it.ev(hd[slot]))
        except AnalysisIncomplete as e:
            rep.add('P7a', dfun, entry, 'depth[%d] = %s' % (slot, norm(hd[slot])), fb.lineno, None, str(e))
            continue
        ok, why = pad_form(v, ax)
        rep.add('P7a', dfun, entry, 'depth[%d] = %s' % (slot, norm(hd[slot])), fb.lineno, ok,
                'the halo on the %s axis (depth slot %d) must be int(max_distance / cellsize_%s + c) with c >= 0 or a '
                'ceil of that quotient: %s' % ('row' if ax == 'y' else 'column', slot, ax, why))
    # coordinate grids wrapped into dask arrays: chunked, and keyed by their content
    fa = [x for x in wt.calls if x.name in ('dask.array.from_array',)]
    grids = [tkey(t) for t in (np_terms or [])[1:3]]
    for x in fa:
        if not x.args or tkey(x.args[0]) not in grids:
            continue
        g = 'xs' if grids.index(tkey(x.args[0])) == 0 else 'ys'
        ch = x.kwargs.get('chunks') or (x.args[1] if len(x.args) > 1 else None)
        nm = x.kwargs.get('name')
        # graph keys: the default name hashes the array's content; an explicit name that is not a function of
        # the grid's values makes two different grids collide when two results are computed together
        okname = nm is None or (nm[0] == 'const' and nm[1] in (None, False)) or \
            (nm[0] == 'call' and str(nm[1]).endswith('tokenize') and any(tkey(a) == tkey(x.args[0]) for a in nm[2]))
        # any chunking is sound: da.map_overlap unifies the chunks of its array arguments
        rep.add('P7-grid', impl, entry, 'dask grid %s = from_array(grid, chunks=%s%s)' % (g, tshow(ch, 40) if ch else None,
                                                                                       ', name=%s' % tshow(nm, 40) if nm else ''),
                x.node.lineno, ch is not None and okname,
                'the dask %s grid must wrap the numpy %s grid built from the raster coordinates, chunked, under a content-derived name' % (g, g))
    if not [x for x in fa if x.args and tkey(x.args[0]) in grids]:
        rep.add('P7-grid', impl, entry, 'dask grids', impl.node.lineno, None, 'no from_array wrapping of the coordinate grids found')
    # coordinate grids built from the raster's coords: the grid terms are evaluated with list models of the few NumPy
    # constructors involved on a 2 x 3 raster with x = (10, 20, 30), y = (1, 2)
    if np_terms is not None and len(np_terms) >= 3:
        XS, YS = [10, 20, 30], [1, 2]
        want = {'xs': [[XS[j_] for j_ in range(3)] for i_ in range(2)], 'ys': [[YS[i_] for j_ in range(3)] for i_ in range(2)]}
        for pos, g in ((1, 'xs'), (2, 'ys')):
            got = np_terms[pos]
            try:
                val = _grid_value(got, impl.params[0], XS, YS)
                ok = val == want[g]
                why = 'on a 2 x 3 raster: %s' % (val,)
            except _NoModel as e:
                ok, why = None, 'no model for %s' % e
                from ..wterm import walk as twalk
                glob = [x[1] for x in twalk(got) if isinstance(x, tuple) and len(x) == 2 and x[0] == 'global' and
                        not x[1].startswith(('np.', 'numpy.', 'da.', 'dask.'))]
                if glob:
                    ok, why = False, 'the grid is taken from module-level state (%s): it must be built from this raster\'s own ' \
                        'coordinates on every call' % sorted(set(glob))[0]
            rep.add('P7-grid', impl, entry, 'grid %s = %s' % (g, tshow(got, 110)), impl.node.lineno, ok,
                    'x grid = the x coordinates tiled over the rows, y grid = the y coordinates repeated along the columns; ' + why)
    # the metric functions are called on the padded grids: NaN coordinates must not be rejected
    from .C19 import nan_guard_rule
    pm = prog.module('proximity')
    for nm in ('euclidean_distance', 'manhattan_distance', 'great_circle_distance'):
        if nm in pm.funcs:
            nan_guard_rule(prog, rep, pm.funcs[nm], 'P7-nan', entry)
    rep.floor('P7a', 2)
    rep.floor('P7b', 4)
    rep.floor('P7-grid', 4)
    rep.floor('H2', 1)


def site_root(a):
    t = norm(a)
    return t


def pad_form(v, ax):
    """v is int(q + c) / ceil(q) / int(ceil(q)) with q = max_distance / cellsize_ax, c >= 0"""
    q = Rat.sym('max_distance') / Rat.sym('cellsize_' + ax)
    at = None
    if v.d.is_const() and len(v.n.t) == 1:
        (m, c), = v.n.t.items()
        if len(m) == 1 and m[0][1] == 1 and c == v.d.const_value() and isinstance(m[0][0], App):
            at = m[0][0]
    if at is None:
        return False, 'not a single int()/ceil() application: %r' % (v,)
    inner = at.args[0]
    if at.name in ('int', 'round') :
        # int(ceil(q)) ?
        if inner.d.is_const() and len(inner.n.t) == 1:
            (m, c), = inner.n.t.items()
            if len(m) == 1 and isinstance(m[0][0], App) and m[0][0].name == 'ceil' and c == inner.d.const_value():
                d = m[0][0].args[0] - q
                return (d.is_const() and d.const_value() >= 0), 'ceil argument %r' % (m[0][0].args[0],)
        d = inner - q
        if d.is_const():
            return d.const_value() >= 0, 'offset %s' % d.const_value()
        return False, 'argument %r is not max_distance / cellsize_%s + const' % (inner, ax)
    if at.name == 'ceil':
        d = inner - q
        return (d.is_const() and d.const_value() >= 0), 'ceil argument %r' % (inner,)
    return False, 'unexpected form %r' % (v,)


class _NoModel(Exception):
    pass


def _grid_value(t, rname, XS, YS):
    """value of a coordinate-grid term on the model raster (nested lists); _NoModel for anything not modelled"""
    shape = (len(YS), len(XS))

    def flat(v):
        return [z for row in v for z in (flat(row) if isinstance(row, list) else [row])] if isinstance(v, list) else [v]

    def reshape(v, shp):
        v = flat(v)
        if len(shp) == 1:
            return v
        r, c_ = shp
        if r == -1:
            r = len(v) // c_
        if c_ == -1:
            c_ = len(v) // r
        if r * c_ != len(v):
            raise _NoModel('reshape size')
        return [v[i * c_:(i + 1) * c_] for i in range(r)]

    def ev(t):
        if t[0] == 'const':
            return t[1]
        if t[0] == 'tuple':
            return tuple(ev(x) for x in t[1])
        if t[0] == 'data' and t[1][0] == 'index' and t[1][1] == ('param', rname) and t[1][2][0] in ('param', 'const'):
            d = t[1][2][1]
            if d in ('x', 'y'):
                return list(XS) if d == 'x' else list(YS)
        if t[0] == 'data' and t[1][0] == 'coord' and t[1][1] == ('param', rname):
            return list(XS) if t[1][2] == 'x' else list(YS)
        if t[0] == 'attr' and t[1] == ('param', rname) and t[2] == 'shape':
            return shape
        if t[0] == 'attr' and t[1] == ('data', ('param', rname)) and t[2] == 'shape':
            return shape
        if t[0] == 'index':
            base, idx = ev(t[1]), ev(t[2])
            if isinstance(idx, int) and isinstance(base, (list, tuple)):
                return base[idx]
            raise _NoModel('index')
        if t[0] == 'call':
            fn, args, kws = t[1], [ev(a) for a in t[2]], {k: ev(v) for k, v in t[3]}
            if fn == 'numpy.tile' and len(args) == 2:
                a, reps = args
                if isinstance(reps, int):
                    return flat(a) * reps
                if isinstance(reps, tuple) and len(reps) == 2 and reps[1] == 1:
                    return [list(flat(a)) for _ in range(reps[0])]
                raise _NoModel('tile reps')
            if fn == 'numpy.repeat' and len(args) == 2 and isinstance(args[1], int) and not kws:
                return [z for z in flat(args[0]) for _ in range(args[1])]
            if fn == 'numpy.broadcast_to' and len(args) == 2 and isinstance(args[0], list) and not isinstance(args[0][0], list) \
                    and len(args[0]) == args[1][-1]:
                return [list(args[0]) for _ in range(args[1][0])]
            if fn == 'numpy.meshgrid' and len(args) == 2 and kws.get('indexing', 'xy') in ('xy', 'ij'):
                a, b = flat(args[0]), flat(args[1])
                if kws.get('indexing', 'xy') == 'xy':
                    return ([[a[j] for j in range(len(a))] for i in range(len(b))], [[b[i] for j in range(len(a))] for i in range(len(b))])
                return ([[a[i] for j in range(len(b))] for i in range(len(a))], [[b[j] for j in range(len(b))] for i in range(len(a))])
            if isinstance(fn, tuple) and fn[0] == 'method' and fn[2] == 'reshape':
                shp = args[0] if len(args) == 1 and isinstance(args[0], tuple) else tuple(args)
                return reshape(ev(fn[1]), shp)
            if fn in ('numpy.array', 'numpy.asarray') and len(args) == 1:
                return args[0]
            raise _NoModel(str(fn)[:60])
        raise _NoModel(str(t)[:60])
    v = ev(t)
    if isinstance(v, tuple):
        raise _NoModel('tuple value')
    return v
