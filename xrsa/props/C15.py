"""C15 - polygonize is lossless  (partial: neighbour consistency, merge bookkeeping hooks, transform pass-through,
ring closure, corner offsets; merge-chain correctness, hole attribution and boundary following are declined).

G1 for each neighbour direction (W, S, SW, SE) the domain guard, the mask index, the value index and the region index
use the same flat offset and the guard matches the offset; G2 region bookkeeping: fresh ids counted with an overflow
check in a fixed unsigned dtype, two matching neighbours -> lower id kept and the pair merged, final lookup applied to
every pixel; G3 every ring returned by the boundary follower goes through the affine transform (when given) before it
is stored, on the exterior and the hole path, and the transform is the 6-parameter affine map computed from the OLD
coordinates; G4 rings are closed; start orientation constants and corner offsets of the follower; G5 the column value
is taken at the start cell and holes are attached to polygons[region-1]; G6 value matching is exact for integers;
G7 single-column workaround and argument validation.
"""
import ast

from ..astutil import calls, const, kw, parent_map, short
from ..kai import Arr, interpret
from ..kutil import Spec, show
from ..program import AnalysisIncomplete, Func, norm
from ..sym import App, Rat


def T(n):
    return norm(n).replace(' ', '').replace('\n', '')


def offsets_in(expr, arrays, var='ij'):
    """set of flat offsets (as normalised text after `ij`) used to index the given arrays inside expr"""
    out = {}
    for n in ast.walk(expr):
        if isinstance(n, ast.Subscript) and isinstance(n.value, ast.Name) and n.value.id in arrays:
            t = T(n.slice)
            if t == var:
                continue   # the pixel itself
            out.setdefault(n.value.id, set()).add(t)
    return out


GUARDS = {'ij-1': {'ij%nx>0'}, 'ij-nx': {'ij>=nx'}, 'ij-nx-1': {'ij%nx>0', 'ij>=nx'}, 'ij-nx+1': {'ij%nx<nx-1', 'ij>=nx'}}


def _phases_of(prog, f):
    """predicate: the phases split off kernel f - jit functions that allocate arrays and are called by f outside of its loops
    (once per run, not once per pixel) - executed in place by the interpreter"""
    top = set()
    for st in f.node.body:
        if isinstance(st, (ast.For, ast.While)):
            continue
        for n in ast.walk(st):
            if isinstance(n, ast.Call):
                try:
                    t = prog.resolve_callable(f, f.module, n.func)
                except Exception:      # noqa
                    continue
                if isinstance(t, Func) and t.jit is not None and any(
                        isinstance(x, ast.Call) and isinstance(x.func, ast.Attribute) and x.func.attr in (
                            'zeros', 'ones', 'full', 'empty', 'zeros_like', 'ones_like', 'full_like', 'empty_like') for x in t.own_nodes()):
                    top.add(t)
    return lambda g: g in top


def regions_roles(prog, f, k=None):
    """(values, mask, connectivity flag, nx, ny) of the labelling routine, by use: the per-pixel loop runs over the product of
    the two extents; nx is the extent used as the row stride (the S neighbour is read at ij - nx), ny the other; values is the
    array handed to the value matcher, mask the array tested against None, the flag the remaining scalar"""
    from ..sym import Sym, walk_atoms
    from ..kutil import guard_atoms
    if k is None:
        k = interpret(prog, f, strict=False, inline_all=_phases_of(prog, f))
    P = list(f.params)
    fallback = tuple(P[:5]) if len(P) >= 5 else None
    loops = [st.loops[0] for st in k.stores if st.loops]
    if not loops:
        return fallback
    L = loops[0]
    ext = sorted({a.name for a in walk_atoms(L.hi) if isinstance(a, Sym) and a.name in P})
    if len(ext) != 2 or L.hi != Rat.sym(ext[0]) * Rat.sym(ext[1]):
        return fallback
    IJ = Rat.sym(L.var)
    atoms = set()
    for st in k.stores:
        atoms |= guard_atoms(st.guards) | (walk_atoms(st.value) if isinstance(st.value, Rat) else set())
    for c in k.calls:
        atoms |= guard_atoms(c[2])
    stride = set()
    for a in atoms:
        if isinstance(a, App) and a.name in ('read', 'cell?') and len(a.args) >= 2 and isinstance(a.args[1], Rat):
            for e_ in ext:
                if a.args[1] == IJ - Rat.sym(e_):
                    stride.add(e_)
    if len(stride) != 1:
        return fallback
    nx = next(iter(stride))
    ny = [e_ for e_ in ext if e_ != nx][0]
    vals = set()
    for a in atoms:
        if isinstance(a, App) and a.name.startswith('call:') and len(a.args) == 2:
            for x in a.args:
                at = _single(x) if isinstance(x, Rat) else None
                if at is not None and at.name in ('read', 'cell?') and at.args[0] in P:
                    vals.add(at.args[0])
    masks = {a.args[0].atoms().__iter__().__next__().name for a in atoms if isinstance(a, App) and a.name == 'is' and isinstance(a.args[0], Rat)
             and len(list(a.args[0].atoms())) == 1 and isinstance(next(iter(a.args[0].atoms())), Sym)} & set(P)
    if len(vals) != 1:
        return fallback
    values = next(iter(vals))
    if len(masks) != 1:
        masks = {a.args[0] for a in atoms if isinstance(a, App) and a.name in ('read', 'cell?') and a.args[0] in P and a.args[0] != values}
    if len(masks) != 1:
        return fallback
    mask = next(iter(masks))
    rest = [p_ for p_ in P if p_ not in (values, mask, nx, ny)]
    if len(rest) != 1:
        return fallback
    return values, mask, rest[0], nx, ny


def scan_roles(prog, m, scan):
    """(values, mask, connectivity flag, transform, nx, ny) of the scan routine: what it hands to the labelling routine under
    that routine's roles, and what it hands to the affine helper as coefficients"""
    reg, tp = m.funcs.get('_calculate_regions'), m.funcs.get('_transform_points')
    fallback = tuple(scan.params[:6]) if len(scan.params) >= 6 else None
    if reg is None or tp is None:
        return fallback
    rr = regions_roles(prog, reg)
    tr = transform_roles(prog, tp)
    if rr is None:
        return fallback

    def pname(v):
        if isinstance(v, tuple) and len(v) == 2 and v[0] == 'param':
            return v[1]
        if isinstance(v, Arr):
            return v.name
        if isinstance(v, Rat):
            ats = list(v.atoms())
            if len(ats) == 1 and hasattr(ats[0], 'name') and v == Rat.sym(ats[0].name):
                return ats[0].name
        return None
    k = interpret(prog, scan, strict=False)
    out = {}
    for c in k.calls:
        callee = c[6] if len(c) > 6 else None
        if callee is reg:
            b = _bind_rec(c, reg)
            for role, p_ in zip(('values', 'mask', 'conn', 'nx', 'ny'), rr):
                out.setdefault(role, pname(b.get(p_)))
        elif callee is tp:
            b = _bind_rec(c, tp)
            out.setdefault('transform', pname(b.get(tr[1])))
    got = tuple(out.get(r_) for r_ in ('values', 'mask', 'conn', 'transform', 'nx', 'ny'))
    if any(g is None or g not in scan.params for g in got) or len(set(got)) != 6:
        return fallback
    return got


def check_neighbours(prog, rep, m):
    """G1 / G2 on the interpreted one-pass labelling: for a pixel at the corners, edges and interior of a 5-column raster
    and every set of matching neighbours that the property needs (none, a single W / S / SW / SE neighbour, and the pairs
    that are not adjacent to each other), the stored region id is the matching neighbour's id / the lower of the two
    (with a merge of the pair) / a fresh id, and a neighbour outside the raster or masked out never joins."""
    from fractions import Fraction as Fr
    from ..kai import cond_repr
    from ..kutil import CannotEvaluate, eval_cond_full, evaluate, guard_atoms
    from ..sym import Sym, walk_atoms
    f = m.funcs.get('_calculate_regions')
    if f is None:
        raise AnalysisIncomplete('_calculate_regions not found')
    entry = 'polygonize labelling'
    k = interpret(prog, f, strict=False, inline_all=_phases_of(prog, f), index_arrays=True)     # phases split off the routine run in place
    rr = regions_roles(prog, f, k)
    if rr is None:
        raise AnalysisIncomplete('_calculate_regions: parameter roles not identified')
    values, mask, conn8, nxp, nyp = rr
    outs = [v for v, g in k.returns if isinstance(v, Arr)]
    gather = None
    if not outs and len(k.returns) == 1 and isinstance(k.returns[0][0], Rat):
        # `return lookup[regions]`: the final relabelling written as one gather
        ga = _single(k.returns[0][0])
        if ga is not None and ga.name in ('cell?', 'read', 'getitem') and len(ga.args) >= 2 and isinstance(ga.args[1], Rat) and \
                _single(ga.args[1]) is not None and _single(ga.args[1]).name == 'arr' and _single(ga.args[1]).args[0] in k.arrays:
            gather = (ga.args[0], k.arrays[_single(ga.args[1]).args[0]])
            outs = [gather[1]]
    if len(outs) != 1:
        rep.add('G1', f, entry, 'labelling', f.node.lineno, None, 'returned region array not identified')
        return
    regions = outs[0]
    first = [st for st in k.stores if st.arr is regions and st.loops]
    if not first:
        rep.add('G1', f, entry, 'labelling', f.node.lineno, None, 'no per-pixel store')
        return
    L = first[0].loops[0]
    IJ = Rat.sym(L.var)
    NX = Rat.sym(nxp)
    okloop = L.kind == 'range' and L.lo == Rat.const(0) and L.hi == NX * Rat.sym(nyp) and L.step == Rat.const(1)
    rep.add('G1', f, entry, 'labelling scan: for ij in range(nx * ny)', L.node.lineno, okloop, 'every pixel is labelled in raster order')
    sts = [st for st in k.stores if st.arr is regions and st.loops and st.loops[0] is L and tuple(st.idx) == (IJ,)]
    merges = [c for c in k.calls if c[0] == '_merge_regions' and c[4] and c[4][0] is L]
    atoms = set()
    for st in sts:
        atoms |= guard_atoms(st.guards) | (walk_atoms(st.value) if isinstance(st.value, Rat) else set())
    for c in merges:
        atoms |= guard_atoms(c[2])
        for a_ in c[1]:
            if isinstance(a_, Rat):
                atoms |= walk_atoms(a_)
    dirs = {'W': Rat.const(-1), 'S': -NX, 'SW': -NX - Rat.const(1), 'SE': -NX + Rat.const(1)}

    def at_offset(a, arr):
        """direction name if atom a reads arr at ij + that direction's offset"""
        if isinstance(a, App) and a.name in ('read', 'cell?') and a.args[0] == arr and len(a.args) >= 2:
            for dn, off in dirs.items():
                if a.args[1] == IJ + off:
                    return dn
            if a.args[1] == IJ:
                return 'self'
        return None
    close = {}
    for a in atoms:
        if isinstance(a, App) and a.name.startswith('call:') and a.name.endswith('_is_close') and len(a.args) == 2:
            d1, d2 = [at_offset(_single(x), values) if isinstance(x, Rat) else None for x in a.args]
            dn = d2 if d1 == 'self' else d1 if d2 == 'self' else None
            if dn in dirs:
                close.setdefault(dn, []).append(a)
            else:
                close.setdefault('?', []).append(a)
    rep.add('G1', f, entry, 'neighbour directions %s' % sorted(close), f.node.lineno, set(close) == set(dirs),
            'the pixel value must be compared with exactly the W, S and (8-connectivity) SW, SE neighbours (flat offsets -1, -nx, '
            '-nx-1, -nx+1)')
    if set(close) != set(dirs):
        return
    maskat = {dn: [a for a in atoms if at_offset(a, mask) == dn] for dn in list(dirs) + ['self']}
    regat = {dn: [a for a in atoms if at_offset(a, regions.name) == dn] for dn in dirs}
    isnone = [a for a in atoms if isinstance(a, App) and a.name == 'is' and a.args[1] == Rat.atom(App('none', []))]
    mods = [a for a in atoms if isinstance(a, App) and a.name == 'mod']
    counter = [a for a in atoms if isinstance(a, Sym) and a.name.endswith(tuple('~loop%d' % i for i in range(1000))) and '~loop' in a.name]
    opaque = [a for a in atoms if isinstance(a, App) and a.name == 'opaque']
    c8 = Sym(conn8)
    REG = {'W': 11, 'S': 12, 'SW': 13, 'SE': 14}
    nxv = 5

    def run(ij, M, masked_dirs, maskless, conn):
        env = {Sym(L.var): Fr(ij), Sym(nxp): Fr(nxv), c8: Fr(conn)}
        for a in isnone:
            env[a] = Fr(1 if maskless else 0)
        for a in mods:
            env[a] = Fr(int(evaluate(a.args[0], env)) % int(evaluate(a.args[1], env)))
        for dn in dirs:
            for a in close[dn]:
                env[a] = Fr(1 if dn in M else 0)
            for a in maskat[dn]:
                env[a] = Fr(0 if dn in masked_dirs else 1)
            for a in regat[dn]:
                env[a] = Fr(REG[dn])
        for a in maskat['self']:
            env[a] = Fr(1)
        for a in counter:
            env[a] = Fr(40)
        for a in opaque:
            env[a] = Fr(10**9)
        val = None
        for st in sts:
            if all(eval_cond_full(g, env) for g in st.guards):
                val = evaluate(st.value, env)
        mg = []
        for c in merges:
            if all(eval_cond_full(g, env) for g in c[2]):
                mg.append(tuple(sorted(int(evaluate(x, env)) for x in c[1][1:3] if isinstance(x, Rat))))
        return (int(val) if val is not None else None), mg

    def indomain(ij, dn):
        i, j = ij % nxv, ij // nxv
        return {'W': i > 0, 'S': j > 0, 'SW': i > 0 and j > 0, 'SE': i < nxv - 1 and j > 0}[dn]
    scen = [set(), {'W'}, {'S'}, {'SW'}, {'SE'}, {'W', 'S'}, {'W', 'SE'}, {'SW', 'S'}, {'SW', 'SE'}]
    bad = []
    und = None
    n_cases = 0
    try:
        for ij in (0, 2, 4, 5, 7, 9):
            for M in scen:
                for conn in (1, 0):
                    for maskless in (1, 0):
                        for masked in ([set()] + ([{d_} for d_ in M] if not maskless else [])):
                            n_cases += 1
                            eff = {d_ for d_ in M if indomain(ij, d_) and d_ not in masked and (conn or d_ in ('W', 'S'))}
                            got, mg = run(ij, M, masked, maskless, conn)
                            left = [d_ for d_ in ('W', 'SW') if d_ in eff]
                            right = [d_ for d_ in ('S', 'SE') if d_ in eff]
                            ids = sorted(REG[d_] for d_ in left[:1] + right[:1])
                            if not ids:
                                want, wantm = 41, []
                            elif len(ids) == 1:
                                want, wantm = ids[0], []
                            else:
                                want, wantm = ids[0], [tuple(ids)]
                            if got != want or mg != wantm:
                                bad.append('pixel %d of a 5-wide raster, matching %s%s%s, %d-connectivity: region %s merges %s, expected %s %s' % (
                                    ij, sorted(M), (' masked ' + str(sorted(masked))) if masked else '', ' (no mask)' if maskless else '',
                                    8 if conn else 4, got, mg, want, wantm))
    except CannotEvaluate as e:
        und = str(e)
    rep.add('G1', f, entry, 'a neighbour joins only inside the raster, unmasked and equal; its own region id is taken (%d cases)' % n_cases,
            f.node.lineno, None if und else not [b_ for b_ in bad if 'merges []' in b_ or True] or not bad,
            'for every neighbour direction the domain guard, the mask read, the value comparison and the region-id read must refer '
            'to the same neighbour, diagonal ones only with 8-connectivity; %s' % (und or '; '.join(bad[:3])))
    rep.add('G2', f, entry, 'no match: fresh id = counter + 1; one match: its id; two: the lower id and a merge of the pair', f.node.lineno,
            None if und else not bad, 'a pixel with no matching neighbour starts a new region, with one it joins that region, with two '
            'different regions it takes the lower id and the pair is merged; %s' % (und or '; '.join(bad[:2])))
    # ---- G2 bookkeeping that is not per-pixel
    t = {T(s) for s in f.own_nodes() if isinstance(s, (ast.Assign, ast.AugAssign))}
    def dtype_of(text):
        """the dtype an expression text names: a dtype literal, or a module constant (defined here or imported)"""
        text = (text or '').replace(' ', '')
        for _ in range(3):
            if text in ('np.uint32', 'np.uint64', 'np.int64', 'numpy.uint32', 'numpy.uint64', 'numpy.int64'):
                return text.replace('numpy.', 'np.')
            vs_ = m.assigns.get(text, [])
            if len(vs_) == 1:
                text = T(vs_[0]).replace(' ', '')
                continue
            imp = m.imports.get(text)
            if imp and imp[0] == 'attr':
                tgt = prog.resolve_global(imp[1], imp[2])
                if isinstance(tgt, tuple) and tgt and tgt[0] == 'modvalue':
                    text = T(tgt[3]).replace(' ', '')
                    continue
            return None
        return None
    rdt = dtype_of(regions.dtype) if isinstance(regions.dtype, str) else None
    rep.add('G2', f, entry, 'region ids in fixed dtype %s' % rdt, f.node.lineno, rdt is not None,
            'the region counter must live in a fixed wide integer dtype, independent of the raster dtype')
    # overflow: the fresh-id store is guarded by counter != max of that dtype, with a raise on the other path
    import re as _re
    okov = bool(k.raises) and rdt is not None and any(dtype_of(x_) == rdt for a in opaque for x_ in _re.findall(r'iinfo\(([^()]*)\)\.max', repr(a)))
    rep.add('G2', f, entry, 'running out of ids raises', f.node.lineno, okov,
            'a pixel with no matching neighbour starts a new region; running out of ids must raise, not wrap')
    # masked pixels are region 0
    masked0 = any(isinstance(st.value, Rat) and st.value == Rat.const(0) and st.guards for st in sts)
    rep.add('G2', f, entry, 'masked pixels are region 0', f.node.lineno, masked0 or regions.init == 'zeros', '')
    # final relabelling: every pixel's id goes through the consolidated lookup (a full loop, or one gather)
    lk = None
    if gather is not None:
        lk, okfin, how = gather[0], True, 'return lookup[regions]'
    else:
        fin = [st for st in k.stores if st.arr is regions and st.loops and st.loops[0] is not L and len(st.loops) == 1]
        okfin, how = False, '%d relabelling stores' % len(fin)
        if len(fin) == 1:
            st = fin[0]
            L3 = st.loops[0]
            va = _single(st.value) if isinstance(st.value, Rat) else None
            inner = _single(va.args[1]) if va is not None and va.name in ('cell?', 'read') and len(va.args) >= 2 and isinstance(va.args[1], Rat) else None
            okfin = L3.kind == 'range' and L3.lo == Rat.const(0) and (L3.hi == L.hi or L3.hi == Rat.atom(App('shape', [regions.name, 0]))) and \
                tuple(st.idx) == (Rat.sym(L3.var),) and \
                not [g for g in st.guards if g != ('const', True)] and inner is not None and inner.name in ('cell?', 'read') and \
                inner.args[0] == regions.name and inner.args[1] == Rat.sym(L3.var)
            lk = va.args[0] if okfin else None
            how = 'regions[ij] = lookup[regions[ij]] for every ij'
    rep.add('G2', f, entry, 'final lookup applied to every pixel: %s' % how, f.node.lineno, okfin,
            'merged ids are only consolidated by the final lookup: every pixel must be relabelled through it')
    # the consolidated lookup: an id that was never merged gets the next dense id, a merged one the id of its target
    oklk, whylk = None, 'lookup table construction not identified'
    lst = [st for st in k.stores if st.arr.name == lk and st.loops and len(st.loops) == 1] if lk is not None else []
    if lst:
        from fractions import Fraction as Fr
        from ..kutil import CannotEvaluate, eval_cond_full, evaluate
        from ..sym import Sym, walk_atoms
        # the table may be filled by one loop over all ids (ids beyond the old table handled by a test) or by consecutive
        # loops (inside the old table, then beyond it): every id is evaluated in the loop whose range holds it
        loops2 = []
        for st in lst:
            if not any(st.loops[0] is x for x in loops2):
                loops2.append(st.loops[0])
        per = {}
        shape_ok = True
        for L2 in loops2:
            mine = [st for st in lst if st.loops[0] is L2]
            carried = getattr(L2, 'carried', {})
            cnt = [n_ for n_, (phi_, end_) in carried.items() if any(isinstance(st.value, Rat) and st.value == phi_ for st in mine)]
            ats = set()
            for st in mine:
                ats |= guard_atoms(st.guards) | (walk_atoms(st.value) if isinstance(st.value, Rat) else set())
            for x in (L2.lo, L2.hi):
                ats |= walk_atoms(x) if isinstance(x, Rat) else set()
            lens = [a for a in ats if isinstance(a, App) and a.name in ('len', 'shape') and (a.args[0] if a.name == 'shape' else None) != lk]
            rls = [a for a in ats if isinstance(a, App) and a.name in ('read', 'cell?') and a.args[0] != lk and len(a.args) >= 2 and
                   isinstance(a.args[1], Rat) and Sym(L2.var) in walk_atoms(a.args[1])]
            if not cnt and len(mine) == 1 and isinstance(mine[0].value, Rat) and not mine[0].guards:
                # the dense counter advanced in step with the loop (closed form counter0 + (i - lo)): the counter of this
                # iteration is the stored value itself, one more after it
                v_ = mine[0].value
                base = v_ - (Rat.sym(L2.var) - L2.lo) * (L2.step if isinstance(L2.step, Rat) else Rat.const(1))
                if Sym(L2.var) not in walk_atoms(base) and len(list(base.atoms())) == 1 and base == Rat.atom(next(iter(base.atoms()))):
                    per[id(L2)] = (L2, mine, (v_, v_ + Rat.const(1)), ('closed', next(iter(base.atoms()))), lens, rls)
                    continue
            if len(cnt) != 1 or len(rls) > 1 or not all(tuple(st.idx) == (Rat.sym(L2.var),) or
                                                         (len(st.idx) == 1 and Sym(L2.var) in walk_atoms(st.idx[0])) for st in mine):
                shape_ok = False
                break
            per[id(L2)] = (L2, mine, carried[cnt[0]], cnt[0], lens, rls)
        if shape_ok and per:
            try:
                res = []
                for i_, n_, t_ in ((3, 10, 0), (3, 10, 2), (12, 10, 7)):
                    hit = []
                    for L2, mine, (cphi, cend), cname, lens, rls in per.values():
                        closed = isinstance(cname, tuple) and cname[0] == 'closed'
                        catom = cname[1] if closed else (_single(cphi) if _single(cphi) is not None else next(iter(cphi.atoms())))
                        env = {catom: Fr(40), '__read__': lambda key_, idx: 100 + int(idx[0])}
                        for a in lens:
                            env[a] = Fr(n_)
                        # everything else the range depends on (the id counter after the labelling scan): 14 ids were given out
                        for x in (L2.lo, L2.hi):
                            for a in (walk_atoms(x) if isinstance(x, Rat) else ()):
                                if a not in env and not (isinstance(a, App) and a.name in ('min', 'max', 'ite')) and not isinstance(a, tuple):
                                    if isinstance(a, Sym) or (isinstance(a, App) and a.name in ('loopout', 'len', 'shape')):
                                        env.setdefault(a, Fr(14))
                        lo_, hi_ = evaluate(L2.lo, env), evaluate(L2.hi, env)
                        # the loop variable value at which the stored index equals i_
                        idx0 = mine[0].idx[0]
                        for kk in range(int(lo_), int(hi_)):
                            e2 = dict(env)
                            e2[Sym(L2.var)] = Fr(kk)
                            if evaluate(idx0, e2) == i_:
                                if closed:
                                    # the counter is 40 at this very iteration
                                    e2[catom] = Fr(40) - (Fr(kk) - lo_) * (evaluate(L2.step, e2) if isinstance(L2.step, Rat) else 1)
                                if rls:
                                    e2[rls[0]] = Fr(t_)
                                vals = [evaluate(st.value, e2) for st in mine if all(eval_cond_full(g, e2) for g in st.guards)]
                                hit.append((vals, evaluate(cend, e2)))
                    target = t_ if i_ < n_ else 0
                    want = 40 if target == 0 else 100 + target
                    res.append(len(hit) == 1 and hit[0][0] == [want] and hit[0][1] == (41 if target == 0 else 40))
                # the dense counter runs through all the loops: 0 before the first, carried on into the next
                order = sorted(per.values(), key=lambda x: x[0].node.lineno)
                def pre_of(x):
                    return Rat.atom(x[3][1]) if isinstance(x[3], tuple) else x[0].pre.get(x[3])
                thread = pre_of(order[0]) == Rat.const(0) and all(isinstance(pre_of(x), Rat) and not pre_of(x).is_const() for x in order[1:])
                oklk = all(res) and thread
                whylk = '(value, counter) right for (unmerged, merged into 2, beyond the table): %s; counter carried through %d loop(s): %s' % (
                    res, len(order), thread)
            except (CannotEvaluate, TypeError, ValueError) as e:
                oklk, whylk = None, str(e)
    rep.add('G2', f, entry, 'consolidated lookup: unmerged ids are renumbered densely, merged ids follow their target', f.node.lineno, oklk, whylk)
    mm = m.funcs.get('_min_and_max')
    if mm is not None:
        km = interpret(prog, mm)
        try:
            a_, b_ = Sym(mm.params[0]), Sym(mm.params[1])
            res = []
            for x, y in ((3, 5), (5, 3), (4, 4)):
                for v, g in km.returns:
                    if all(eval_cond_full(c, {a_: Fr(x), b_: Fr(y)}) for c in g):
                        res.append(tuple(int(evaluate(i if isinstance(i, Rat) else Rat.sym(i[1]), {a_: Fr(x), b_: Fr(y)})) for i in v.items))
                        break
            okmm = res == [(3, 5), (3, 5), (4, 4)]
        except (CannotEvaluate, AttributeError):
            okmm = None
        rep.add('G2', mm, entry, '_min_and_max returns (min, max)', mm.node.lineno, okmm, 'got %s' % (res if okmm is not None else '?'))


def _single(r):
    if isinstance(r, Rat) and r.d.is_const() and len(r.n.t) == 1:
        (mm, c), = r.n.t.items()
        if len(mm) == 1 and mm[0][1] == 1 and isinstance(mm[0][0], App) and c == r.d.const_value():
            return mm[0][0]
    return None


def _bind_rec(rec, callee):
    """{parameter: argument value} of a recorded call"""
    b = {}
    for p, a in zip(callee.params, rec[1]):
        b[p] = a
    for kname, v in (rec[5] or {}).items():
        b[kname] = v
    # parameters left to their (constant) defaults
    try:
        for p, dn in callee.defaults().items():
            if p not in b and isinstance(dn, ast.Constant):
                b[p] = ('const', dn.value) if isinstance(dn.value, bool) or dn.value is None else Rat.const(dn.value) \
                    if isinstance(dn.value, (int, float)) else ('const', dn.value)
    except Exception:      # noqa
        pass
    return b


def check_scan(prog, rep, m, R=None):
    """G3 / G5 on the interpreted start-pixel scan (program-ordered events: calls, list appends)."""
    from fractions import Fraction as Fr
    from ..kutil import NONE_VALUE, CannotEvaluate, eval_cond_full, evaluate
    from ..sym import Sym, walk_atoms
    f = m.funcs.get('_scan')
    follow = m.funcs.get('_follow')
    if f is None or follow is None:
        raise AnalysisIncomplete('_scan / _follow not found')
    entry = 'polygonize scan'
    from ..inline import inline_view
    f = inline_view(prog, f, keep=(follow.name, '_transform_points', '_calculate_regions'))   # follow-then-transform glue reads as if written in place
    k = interpret(prog, f, strict=False)
    evs = list(k.events)
    fcalls = [(n, ev[1]) for n, ev in enumerate(evs) if ev[0] == 'call' and len(ev[1]) > 6 and ev[1][6] is follow]
    if R is None or not R.ok:
        rep.add('G5', f, entry, 'start-pixel scan', f.node.lineno, None, 'the follower\'s parameter roles are not known')
        return
    vparams = {s_.arr.name for s_ in R.k.stores if s_.arr.init == 'param'}
    rep.add('G3', f, entry, '%d boundary-follower call sites' % len(fcalls), f.node.lineno,
            len(fcalls) == 2 and len(vparams) == 1, 'one exterior and one hole site')
    if len(fcalls) != 2 or len(vparams) != 1:
        return
    vparam = vparams.pop()
    binds = [(n, rec, _bind_rec(rec, follow)) for n, rec in fcalls]
    # the scan loop
    lps = [l for l in k.loops if all(l in rec[4] for n, rec in fcalls)]
    if len(lps) != 1:
        rep.add('G5', f, entry, 'start-pixel scan', f.node.lineno, None, 'the follower is called under %d common loops' % len(lps))
        return
    lp = lps[0]
    ij = Sym(lp.var)
    nx_args = {repr(b.get(R.nx)) for n, rec, b in binds}
    nxv = binds[0][2].get(R.nx)
    nxr = Rat.sym(nxv[1]) if isinstance(nxv, tuple) and nxv and nxv[0] == 'param' else nxv
    regs = binds[0][2].get(R.regions)
    vis = binds[0][2].get(vparam)
    same = all(b.get(R.regions) is regs or repr(b.get(R.regions)) == repr(regs) for n, rec, b in binds) and \
        all(b.get(vparam) is vis for n, rec, b in binds) and len(nx_args) == 1 and isinstance(nxr, Rat)
    rep.add('G5', f, entry, 'both follower calls share the region array, the visited flags and the row length', f.node.lineno, same, '')
    if not same:
        return
    # every pixel is examined: full range, no exit
    exits = len(lp.breaks) + sum(1 for v, g in k.returns if g)
    hi_ok = None
    try:
        env = {a: Fr(3 + n_) for n_, a in enumerate(sorted((x for x in walk_atoms(lp.hi) if isinstance(x, Sym)), key=repr))}
        # the flattened size: nx*ny, or the length of one of the flat arrays
        nyv = binds[0][2].get([p for p in follow.params if p not in (R.regions, vparam, R.nx, R.start, R.hole)][0]) \
            if len(follow.params) == 6 else None
        nyr = Rat.sym(nyv[1]) if isinstance(nyv, tuple) and nyv and nyv[0] == 'param' else nyv
        hi_ok = lp.lo == Rat.const(0) and (lp.step in (None, Rat.const(1))) and \
            ((isinstance(nyr, Rat) and lp.hi == nxr * nyr) or
             any(isinstance(a, App) and a.name in ('shape', 'len') for a in [_atom(lp.hi)]))
    except (CannotEvaluate, IndexError):
        hi_ok = None
    rep.add('G5', f, entry, 'start-pixel scan: for %s in [%s, %s), %d early exits' % (lp.var, show(lp.lo, 20), show(lp.hi, 40), exits),
            lp.node.lineno, (hi_ok and exits == 0) if hi_ok is not None else None,
            'every pixel must be examined as a possible start of an exterior or of a hole: an early exit '
            '(e.g. once all regions have their exterior) loses holes that lie later in scan order, such as holes made of masked cells')
    # which call is the exterior, which the hole; their start cells
    roles = {}
    for n, rec, b in binds:
        hv = b.get(R.hole)
        if hv == ('const', False) or hv == Rat.const(0):
            roles['ext'] = (n, rec, b)
        elif hv == ('const', True) or hv == Rat.const(1):
            roles['hole'] = (n, rec, b)
    if set(roles) != {'ext', 'hole'}:
        rep.add('G5', f, entry, 'follower start cells', f.node.lineno, None, 'hole flags of the two calls: %s' % [b.get(R.hole) for n, rec, b in binds])
        return
    se, sh = roles['ext'][2].get(R.start), roles['hole'][2].get(R.start)
    ok = isinstance(se, Rat) and isinstance(sh, Rat) and se == Rat.atom(ij) and sh == Rat.atom(ij) - nxr
    rep.add('G5', f, entry, 'follower start cells: exterior %s, hole %s' % (show(se, 30), show(sh, 30)), f.node.lineno, ok,
            'the exterior is followed from the pixel itself (S edge, facing E), a hole from the pixel below (its N edge, facing W)')
    # start conditions as decision tables
    carried = {n_: v for n_, v in lp.carried.items()}
    dphi = None
    dname = None
    for n_, (phi, endv) in carried.items():
        leaves = _ite_leaves(endv) if isinstance(endv, Rat) else []
        if any(isinstance(_atom(x), App) and _atom(x).name == 'unpack' for x in leaves):
            dphi, dname = _atom(phi), n_
    NX = 3

    def table(guards):
        out = {}
        for cell in (1, 4):
            for vv in range(4):
                for r0 in range(3):
                    for r1 in range(3):
                        for d in range(2):
                            def hook(key, idx, cell=cell, vv=vv, r0=r0, r1=r1):
                                isvis = key == getattr(vis, 'name', None)
                                if len(idx) != 1:
                                    raise CannotEvaluate('index')
                                if isvis:
                                    if idx[0] == cell:
                                        return vv
                                    raise CannotEvaluate('visited flag of another pixel')
                                if idx[0] == cell:
                                    return r0
                                if idx[0] == cell - NX and idx[0] >= 0:
                                    return r1
                                raise CannotEvaluate('region of another pixel')
                            env = {ij: Fr(cell), '__read__': hook}
                            for x in walk_atoms(nxr):
                                if isinstance(x, Sym):
                                    env[x] = Fr(NX)
                            if dphi is not None:
                                env[dphi] = Fr(d)
                            out[(cell, vv, r0, r1, d)] = all(eval_cond_full(g, env) for g in guards)
        return out
    for role, want, text in (
            ('ext', lambda c, v, r0, r1, d: (v & 1) == 0 and r0 == d + 1,
             'an exterior starts at a pixel not yet on a followed exterior whose region is the next one (done + 1)'),
            ('hole', lambda c, v, r0, r1, d: c >= NX and (v & 2) == 0 and r0 != r1 and r1 != 0,
             'a hole starts above a pixel of another, non-masked region, once per N edge')):
        n, rec, b = roles[role]
        try:
            got = table(rec[2])
            bad = [key for key, val in got.items() if val != want(*key)]
            ok = not bad
            why = text + ('; differs for (pixel, visited, region, region below, done) = %s' % (bad[0],) if bad else
                          ' - %d cases' % len(got))
        except CannotEvaluate as e:
            ok, why = None, '%s: %s' % (text, e)
        rep.add('G5', f, entry, '%s start condition' % ('exterior' if role == 'ext' else 'hole'), rec[3].lineno, ok, why)
    # the region counter follows the exteriors
    ok = None
    if dname is not None:
        phi, endv = lp.carried[dname]
        ea = _atom(endv)
        extcall = roles['ext'][1]
        if isinstance(ea, App) and ea.name == 'ite':
            leaves = _ite_leaves(endv)
            ua = [_atom(x) for x in leaves if isinstance(_atom(x), App) and _atom(x).name == 'unpack']
            ok = len(leaves) == 2 and len(ua) == 1 and ua[0].args[1] == Rat.const(0) and phi in leaves and \
                lp.pre.get(dname) == Rat.const(0)
    rep.add('G5', f, entry, 'regions are taken in increasing order: done <- region of the exterior just followed, 0 before the scan',
            f.node.lineno, ok, '')
    # G3: transform before any use of a ring
    tparam = None
    for n, rec, b in binds:
        pts = None
        later = [(n2, ev) for n2, ev in enumerate(evs) if n2 > n]
        # the ring of this call: second component of the call's value
        def is_ring(v, n=n, rec=rec):
            a_ = _atom(v) if isinstance(v, Rat) else None
            return isinstance(a_, App) and a_.name == 'unpack' and a_.args[1] == Rat.const(1) and \
                repr(a_.args[0]).startswith('call:' + follow.name + '(') and _same_call(a_.args[0], rec, R, follow)
        tpf = m.funcs.get('_transform_points')
        trole = transform_roles(prog, tpf) if tpf is not None else None
        tcalls = [(n2, ev[1]) for n2, ev in later if ev[0] == 'call' and ev[1][1] and trole is not None and len(ev[1]) > 6 and ev[1][6] is tpf and
                  is_ring(_bind_rec(ev[1], tpf).get(trole[0]))]
        apps = [(n2, ev[1]) for n2, ev in later if ev[0] == 'append' and any(_mentions(v, is_ring) for v in ev[1][1])]
        # a copy / view of the ring taken before the (in-place) transform would be stored untransformed
        derived = [(n2, ev[1]) for n2, ev in later if ev[0] == 'append' and not any(_mentions(v, is_ring) for v in ev[1][1]) and
                   any(_mentions_deep(v, is_ring) for v in ev[1][1])]
        hole = roles['hole'][0] == n
        ok = None
        why = ''
        if len(tcalls) == 1 and (apps or derived):
            n2, trec = tcalls[0]
            targ = _bind_rec(trec, tpf).get(trole[1])
            tname = targ[1] if isinstance(targ, tuple) and targ and targ[0] == 'param' else None
            tparam = tname
            try:
                res = []
                for tv in (NONE_VALUE, Fr(5)):
                    base_env = {Sym(tname): tv} if tname else {}
                    extra = [g for g in trec[2] if g not in rec[2]]
                    res.append(all(eval_cond_full(g, base_env) for g in extra))
                ok = tname in f.params and res == [False, True] and all(g in trec[2] for g in rec[2]) and \
                    all(n3 > n2 for n3, a_ in derived)
                why = 'transform applied (in place) iff given: %s; ring stored at events %s, copies stored at %s, transformed at event %d' % (
                    res, [n3 for n3, a_ in apps], [n3 for n3, a_ in derived], n2)
            except CannotEvaluate as e:
                ok, why = None, str(e)
        elif not tcalls:
            ok, why = False, 'the ring is stored without passing through the transform'
        elif not apps and not derived:
            ok, why = None, 'the ring is not stored by an append'
        rep.add('G3', f, entry, '%s ring' % ('hole' if hole else 'exterior'), rec[3].lineno, ok,
                'every ring must pass through the affine transform (when one is given) before it is stored; ' + why)
    # G5: what is stored where
    ext_n, ext_rec, ext_b = roles['ext']
    hol_n, hol_rec, hol_b = roles['hole']
    apps = [ev[1] for ev in evs if ev[0] == 'append']
    col = [a_ for a_ in apps if a_[0] and a_[0][1] is None and len(a_[1]) == 1 and isinstance(a_[1][0], Rat) and
           isinstance(_atom(a_[1][0]), App) and _atom(a_[1][0]).name in ('read', 'cell?')]
    newpoly = [a_ for a_ in apps if a_[0] and a_[0][1] is None and len(a_[1]) == 1 and hasattr(a_[1][0], 'items')]
    holes = [a_ for a_ in apps if a_[0] and a_[0][1] is not None]
    ok = None
    why = ''
    if len(col) == 1 and len(newpoly) == 1 and len(holes) == 1:
        ca = _atom(col[0][1][0])
        cidx = ca.args[1]
        vals_param = ca.args[0]
        hidx = holes[0][0][1]
        ha = _atom(hidx + Rat.const(1)) if isinstance(hidx, Rat) else None
        ret = k.returns[0][0] if len(k.returns) == 1 and hasattr(k.returns[0][0], 'items') else None
        ok = cidx == Rat.atom(ij) and vals_param in f.params and col[0][2] == ext_rec[2] and newpoly[0][2] == ext_rec[2] and \
            len(newpoly[0][1][0].items) == 1 and holes[0][2] == hol_rec[2] and holes[0][0][0] == newpoly[0][0][0] and \
            isinstance(ha, App) and ha.name == 'unpack' and ha.args[1] == Rat.const(0) and _same_call(ha.args[0], hol_rec, R, follow) and \
            ret is not None and len(ret.items) == 2 and getattr(ret.items[0], 'var', None) == col[0][0][0] and \
            getattr(ret.items[1], 'var', 0) == newpoly[0][0][0]
        why = 'value list <- %s; polygon list <- [ring]; hole -> polygon[%s]' % (show(col[0][1][0], 40), show(hidx, 60))
    else:
        why = '%d value appends, %d new-polygon appends, %d hole appends' % (len(col), len(newpoly), len(holes))
    rep.add('G5', f, entry, 'column value from the start cell; hole attached to polygons[region-1]', f.node.lineno, ok,
            'the polygon\'s value is the value of its start pixel, one new polygon per exterior, and a hole belongs to the polygon '
            'of the region the follower returned (regions count from 1); ' + why)
    # transform
    tp = m.funcs.get('_transform_points')
    if tp is None:
        raise AnalysisIncomplete('_transform_points not found')
    check_transform(prog, rep, tp, entry)


def _mentions(v, pred):
    if hasattr(v, 'items'):
        return any(_mentions(x, pred) for x in v.items)
    return isinstance(v, Rat) and pred(v)


def _mentions_deep(v, pred):
    from ..sym import walk_atoms
    if hasattr(v, 'items'):
        return any(_mentions_deep(x, pred) for x in v.items)
    return isinstance(v, Rat) and any(pred(Rat.atom(a)) for a in walk_atoms(v) if isinstance(a, App))


def _same_call(callrat, rec, R, follow):
    """is this call value the one recorded by rec (same start-cell argument)?"""
    a = _atom(callrat) if isinstance(callrat, Rat) else callrat
    if not isinstance(a, App) or not a.name.startswith('call:'):
        return False
    b = _bind_rec(rec, follow)
    st = b.get(R.start)
    i = follow.params.index(R.start)
    return i < len(a.args) and isinstance(st, Rat) and a.args[i] == st


def transform_roles(prog, tp):
    """(points parameter, coefficients parameter) of the in-place affine helper: the points are the array it writes, the
    coefficients the other one"""
    k = interpret(prog, tp)
    written = {s_.arr.name for s_ in k.stores if s_.arr.name in tp.params}
    if len(written) != 1 or len(tp.params) < 2:
        return tp.params[0], tp.params[1]
    pts = next(iter(written))
    rest = [p_ for p_ in tp.params if p_ != pts]
    return pts, rest[0]


def check_transform(prog, rep, tp, entry):
    k = interpret(prog, tp)
    pts, tr = transform_roles(prog, tp)
    ok = False
    st = [s for s in k.stores if s.idx != 'all']
    if len(st) == 2:
        i = st[0].idx[0]
        rd = lambda a, *ix: Rat.atom(App('read', [a] + list(ix)))   # noqa
        c = lambda n: Rat.const(n)   # noqa
        wx = rd(tr, c(0)) * rd(pts, i, c(0)) + rd(tr, c(1)) * rd(pts, i, c(1)) + rd(tr, c(2))
        wy = rd(tr, c(3)) * rd(pts, i, c(0)) + rd(tr, c(4)) * rd(pts, i, c(1)) + rd(tr, c(5))
        by = {repr(s.idx[1]): s.value for s in st}
        ok = by.get('0') == wx and by.get('1') == wy
    rep.add('G3', tp, entry, 'affine map x = a*x + b*y + c, y = d*x + e*y + f from the OLD coordinates', tp.node.lineno, ok,
            'both new coordinates must be computed from the point\'s original (x, y) before either is overwritten; got %s'
            % [show(s.value, 100) for s in st])
    lp = [l for l in k.loops]
    rep.add('G3', tp, entry, 'every vertex transformed', tp.node.lineno, len(lp) == 1 and lp[0].lo == Rat.const(0) and
            repr(lp[0].hi) in ("shape('%s', 0)" % pts, "len(arr('%s'))" % pts, "len(%s)" % pts), 'loop over all points')


def _atom(r):
    """the single atom a Rat consists of (coefficient 1), else None"""
    if isinstance(r, Rat) and r.d.is_const() and len(r.n.t) == 1:
        (mm, c), = r.n.t.items()
        if len(mm) == 1 and mm[0][1] == 1 and c == r.d.const_value():
            return mm[0][0]
    return None


def _ite_leaves(r, out=None):
    """leaves of a (nested) ite expression"""
    out = [] if out is None else out
    a = _atom(r)
    if isinstance(a, App) and a.name == 'ite':
        _ite_leaves(a.args[1], out)
        _ite_leaves(a.args[2], out)
    else:
        out.append(r)
    return out


class FollowRoles:
    """Roles of the follower's parameters and loop variables, found from what they do (not from their names):
    regions = the array read for the returned region id, start = its index, position P = the walk variable that starts at
    `start` and is compared with its start value on exit, heading F = the other variable of the exit test, left L = the
    other variable F is updated from, counter C = the index of the vertex stores, hole = the parameter that selects the
    start heading, visited = the array parameter that is written."""
    def __init__(self, prog, f):
        from ..sym import Sym, walk_atoms
        self.f = f
        self.k = k = interpret(prog, f, strict=False)
        self.why = None
        self.ok = False
        if len(k.returns) != 1 or not hasattr(k.returns[0][0], 'items') or len(k.returns[0][0].items) != 2:
            self.why = 'the follower must return (region, points) once'
            return
        self.ret_region, self.ret_points = k.returns[0][0].items
        a = _atom(self.ret_region) if isinstance(self.ret_region, Rat) else None
        if not (isinstance(a, App) and a.name in ('read', 'cell?') and len(a.args) >= 2):
            self.why = 'returned region is not a read of the regions array'
            return
        self.regions = a.args[0]
        self.ret_index = a.args[1]
        ws = [l for l in k.loops if l.kind == 'while']
        if len(ws) != 1:
            self.why = 'walk loop not identified'
            return
        self.w = w = ws[0]
        self.outer = [l for l in k.loops if l.kind != 'while']
        for n_, v_ in list(w.pre.items()):
            if isinstance(v_, tuple) and len(v_) == 2 and v_[0] == 'param':
                w.pre[n_] = Rat.sym(v_[1])      # a parameter used as it is

        def roots(v):
            return {x.name.split('~')[0] for x in walk_atoms(v) if isinstance(x, Sym)} if isinstance(v, Rat) else set()
        # position: carried variable whose value before the walk is (a loop copy of) the start parameter
        P = [n for n in w.carried if isinstance(w.pre.get(n), Rat) and isinstance(_atom(w.pre[n]), Sym) and
             _atom(w.pre[n]).name.split('~')[0] in f.params]
        if len(P) > 1 and len(w.breaks) == 1:
            # the position is the one the exit test compares with its start value
            def compared(c, d):
                if c[0] == 'cmp':
                    x = c[3] if len(c) > 3 else c[2]
                    return x == d or x == -d
                if c[0] in ('and', 'or', 'not'):
                    return any(compared(y, d) for y in c[1:])
                return False
            P = [n for n in P if isinstance(w.carried[n][1], Rat) and
                 any(compared(g, w.pre[n] - w.carried[n][1]) for g in w.breaks[0][0])]
        if len(P) != 1 or len(w.breaks) != 1:
            self.why = 'position variable / single exit of the walk not identified (%s, %d exits)' % (P, len(w.breaks))
            return
        self.start = _atom(w.pre[P[0]]).name.split('~')[0]
        self.P = P[0]
        self.phi = {n: w.carried[n][0] for n in w.carried}
        self.end = {n: w.carried[n][1] for n in w.carried}
        # heading: leaves of its update are {F, L, -L}
        cand = []
        for n in w.carried:
            if n == self.P or not isinstance(self.end[n], Rat):
                continue
            leaves = _ite_leaves(self.end[n])
            others = set()
            for lf in leaves:
                for x in walk_atoms(lf):
                    if isinstance(x, Sym) and '~w' in x.name:
                        others.add(x.name.split('~')[0])
            if n in others and len(others) == 2 and len(leaves) >= 3:
                cand.append((n, (others - {n}).pop()))
        # F and L are updated from each other; F is the one the exit test compares
        pairs = [(a_, b_) for a_, b_ in cand if (b_, a_) in cand]
        brk = w.breaks[0][0]
        self.brk = brk
        batoms = set()
        for g in brk:
            from ..kutil import _cond_atoms
            _cond_atoms(g, batoms)
        # the heading starts at a constant (+-1), `left` at +- the row length (a parameter)
        F = [a_ for a_, b_ in pairs if not self._mentions_param_scalar(w.pre.get(a_))]
        if len(F) != 1:
            self.why = 'heading variable not identified (candidates %s)' % sorted(set(p[0] for p in pairs))
            return
        self.F = F[0]
        self.L = [b_ for a_, b_ in pairs if a_ == self.F][0]
        self.ok = True

    def _mentions_param_scalar(self, v):
        """does the start value mention a numeric parameter (nx)?  the heading starts at +-1, left at +-nx"""
        from ..sym import Sym, walk_atoms
        if not isinstance(v, Rat):
            return True
        for lf in _ite_leaves(v):
            if any(isinstance(x, Sym) for x in walk_atoms(lf)):
                return True
        return False


def check_follow(prog, rep, m):
    from fractions import Fraction as Fr
    from ..kutil import CannotEvaluate, eval_cond_full, evaluate
    from ..sym import Sym, walk_atoms
    f = m.funcs.get('_follow')
    if f is None:
        raise AnalysisIncomplete('_follow not found')
    entry = 'polygonize follower'
    R = FollowRoles(prog, f)
    if not R.ok:
        rep.add('G4', f, entry, 'boundary follower', f.node.lineno, None, R.why)
        return None
    k, w = R.k, R.w
    # the parameters nx (row length) and hole: nx is the parameter in the start value of `left`, hole the one tested
    preL, preF = w.pre[R.L], w.pre[R.F]
    holes = set()
    from ..kutil import _cond_atoms
    for v in (preL, preF):
        for a in walk_atoms(v):
            if isinstance(a, App) and a.name == 'ite':
                s_ = set()
                _cond_atoms(a.args[0], s_)
                holes |= {x.name for x in s_ if isinstance(x, Sym) and x.name in f.params}
    nxs = {x.name for x in walk_atoms(preL) if isinstance(x, Sym) and x.name in f.params} - holes
    if len(nxs) != 1 or len(holes) != 1:
        rep.add('G4', f, entry, 'start orientation', f.node.lineno, None, 'row-length / hole parameters not identified: %s %s' % (nxs, holes))
        return None
    R.nx, R.hole = nxs.pop(), holes.pop()
    NX = 5
    base = {Sym(R.nx): Fr(NX)}
    try:
        got = {}
        for hv in (1, 0):
            env = dict(base)
            env[Sym(R.hole)] = Fr(hv)
            got[hv] = (evaluate(preF, env), evaluate(preL, env))
        ok = got[1] == (-1, -NX) and got[0] == (1, NX)
        why = 'hole: %s, exterior: %s (row length %d)' % (tuple(map(int, got[1])), tuple(map(int, got[0])), NX)
    except CannotEvaluate as e:
        ok, why = None, str(e)
    rep.add('G4', f, entry, 'start orientation: exterior facing E (left = N), hole facing W (left = S)', f.node.lineno, ok,
            'exteriors are followed anticlockwise and holes clockwise; ' + why)
    # exit test: back at the start pixel with the start heading (values after the turn of this step)
    ok = None
    why = ''
    try:
        res = []
        for dP, dF in ((0, 0), (1, 0), (0, 2), (3, 2)):
            # bind the end-of-step position / heading through the comparison itself: the test is a conjunction of two
            # equalities between (start value, value after the step)
            env = {}
            want = dP == 0 and dF == 0
            res.append((_eval_exit(R, dP, dF), want))
        ok = all(g is not None and g == w_ for g, w_ in res)
        if any(g is None for g, w_ in res):
            ok = None
        why = 'exit taken on (same cell, same heading) only: %s' % [g for g, w_ in res]
    except CannotEvaluate as e:
        ok, why = None, str(e)
    rep.add('G4', f, entry, 'boundary finished when back at the start pixel with the start heading', w.node.lineno, ok, why)
    # vertices: two stores into the ring buffer at (2c, 2c+1) with the corner of the cell that the heading selects
    vst = [s for s in k.stores if w in s.loops and s.arr.init == 'carried']
    Pphi, Fphi = _atom(R.phi[R.P]), _atom(R.phi[R.F])
    ok = None
    why = ''
    cname = None
    if len(vst) == 2 and all(s.idx != 'all' and len(s.idx) == 1 for s in vst):
        d = vst[1].idx[0] - vst[0].idx[0]
        half = vst[0].idx[0] / Rat.const(2)
        ca = _atom(half)
        if d == Rat.const(1) and isinstance(ca, Sym):
            cname = ca.name.split('~')[0]
            P0 = 13
            want = {1: (3, 2), -1: (4, 3), NX: (4, 2), -NX: (3, 3)}
            try:
                got = {}
                for fv in want:
                    env = dict(base)
                    env[Pphi] = Fr(P0)
                    env[Fphi] = Fr(fv)
                    got[fv] = (int(evaluate(vst[0].value, env)), int(evaluate(vst[1].value, env)))
                ok = got == want
                why = 'cell (col 3, row 2), headings E/W/N/S -> %s' % [got[h] for h in (1, -1, NX, -NX)]
            except CannotEvaluate as e:
                ok, why = None, str(e)
        else:
            why = 'vertex stores are not at (2c, 2c+1)'
    else:
        why = '%d stores into the ring buffer inside the walk' % len(vst)
    rep.add('G4', f, entry, 'vertex = pixel corner by heading (E: (i,j), W: (i+1,j+1), N: (i+1,j), S: (i,j+1))', f.node.lineno, ok,
            'vertices lie on cell corners: x from the column index, y from the row index; ' + why)
    # a vertex is emitted exactly when the heading changed, and counted in both passes
    ok = None
    why = ''
    if cname in w.carried and vst:
        prevs = [n for n in w.carried if isinstance(w.carried[n][1], Rat) and w.carried[n][1] == R.phi[R.F] and n != R.F]
        cphi = _atom(R.phi[cname])
        try:
            if len(prevs) == 1:
                pphi = _atom(R.phi[prevs[0]])
                res = []
                for fv, pv in ((1, 1), (1, NX), (-NX, -1), (NX, NX), (1, 0)):
                    env = dict(base)
                    env.update({Fphi: Fr(fv), pphi: Fr(pv), cphi: Fr(4), Pphi: Fr(13)})
                    for l in R.outer:
                        env[Sym(l.var)] = Fr(1)
                    cnt = evaluate(w.carried[cname][1], env)
                    emitted = all(eval_cond_full(g, env) for g in vst[0].guards)
                    res.append((fv != pv, cnt == 5, emitted))
                ok = all(a_ == b_ == c_ for a_, b_, c_ in res) and w.pre.get(cname) == Rat.const(0) and \
                    w.pre.get(prevs[0]) == Rat.const(0)
                why = '(turned, counted, stored) per case: %s; counter and previous heading start at 0' % res
            else:
                why = 'previous-heading variable not identified'
        except CannotEvaluate as e:
            ok, why = None, str(e)
    rep.add('G4', f, entry, 'one vertex per change of heading (the first step included)', f.node.lineno, ok, why)
    # ring closed: buffer of 2*(count+1) numbers, last point = first point, that array is returned
    allocs = [ev[1] for ev in k.events if ev[0] == 'alloc' and getattr(ev[1], 'var', None) is not None and
              any(s.arr.name.split('~')[0] == ev[1].var for s in vst)]
    ok = None
    why = ''
    if len(allocs) == 1 and allocs[0].shape and len(allocs[0].shape) == 1 and cname is not None:
        shp = allocs[0].shape[0]
        couts = [x for x in walk_atoms(shp) if isinstance(x, Sym) and x.name.startswith(cname + '~')]
        try:
            ok = len(couts) == 1 and evaluate(shp, {couts[0]: Fr(7)}) == 16
            why = 'buffer length for 7 vertices: %s' % (evaluate(shp, {couts[0]: Fr(7)}) if len(couts) == 1 else '?')
        except CannotEvaluate as e:
            ok, why = None, str(e)
    else:
        why = 'ring buffer allocation not identified'
    rep.add('G4', f, entry, 'ring buffer holds one point more than the vertices counted', f.node.lineno, ok, why)
    pa = _atom(R.ret_points) if isinstance(R.ret_points, Rat) else None
    closing = [s for s in k.stores if not s.loops and pa is not None and s.arr.name == repr(pa)]
    ok = None
    if pa is not None and not [s for s in k.stores if not s.loops]:
        ok = False        # nothing is written after the walk: the ring stays open
    if pa is not None and closing:
        s_ = closing[-1]
        va = _atom(s_.value) if isinstance(s_.value, Rat) else None
        ok = len(closing) == 1 and not [g for g in s_.guards if g != ('const', True)] and s_.idx != 'all' and \
            s_.idx[0] == Rat.const(-1) and isinstance(va, App) and va.name in ('read', 'cell?') and va.args[0] == s_.arr.name and \
            va.args[1] == Rat.const(0) and 'reshape' in repr(pa) and repr(pa).count('tuple(-1, 2)') == 1
    if pa is not None and not closing and isinstance(pa, App) and pa.name == 'method:reshape' and cname is not None:
        # the same closure written into the flat buffer before it is viewed as (n, 2): numbers 2*count and 2*count + 1 of a
        # buffer of 2*(count + 1) repeat numbers 0 and 1 (both passes count the same walk: one value stands for the count)
        flat = [s_ for s_ in k.stores if not s_.loops and s_.arr.name == str(pa.args[0]).strip("'")]
        if flat:
            closing = flat

            def is_count(a):
                return (isinstance(a, Sym) and a.name.startswith(cname + '~')) or \
                    (isinstance(a, App) and a.name == 'loopout' and str(a.args[0]).strip("'") == cname)
            try:
                got = {}
                for s_ in flat:
                    va = _atom(s_.value) if isinstance(s_.value, Rat) else None
                    if s_.idx == 'all' or len(s_.idx) != 1 or [g for g in s_.guards if g != ('const', True)] or \
                            not (isinstance(va, App) and va.name in ('read', 'cell?') and va.args[0] == s_.arr.name):
                        got = None
                        break
                    env = {a: Fr(7) for a in walk_atoms(s_.idx[0]) if is_count(a)}
                    got[evaluate(s_.idx[0], env)] = va.args[1]
                ok = got == {Fr(14): Rat.const(0), Fr(15): Rat.const(1)} and len(flat) == 2 and repr(pa).count('tuple(-1, 2)') == 1
            except CannotEvaluate:
                ok = None
    rep.add('G4', f, entry, 'ring closed: last point = first point of the returned (n, 2) array', f.node.lineno, ok,
            'the last vertex of every ring must repeat the first; closing stores: %s' %
            [(str(s_.idx), show(s_.value, 60)) for s_ in closing])
    ia = _atom(R.ret_index)
    # the walk ends on the start pixel (exit test above), so the position after the walk names the same cell
    ok = (isinstance(ia, Sym) and ia.name.split('~')[0] in (R.start, R.P)) or \
        (isinstance(ia, App) and ia.name == 'loopout' and str(ia.args[0]).strip("'") == R.P)
    rep.add('G4', f, entry, 'returns (region of the start pixel, points)', f.node.lineno, ok,
            'region id read at %s' % show(R.ret_index, 60))
    return R


def _eval_exit(R, dP, dF):
    """is the walk left when the position / heading after the step differ from their start values by dP / dF?"""
    from fractions import Fraction as Fr
    from ..kutil import CannotEvaluate, eval_cond_full
    w = R.w
    endP, endF = R.end[R.P], R.end[R.F]
    preP, preF = w.pre[R.P], w.pre[R.F]

    # the start values: what the variables hold when the walk begins.  When the walk runs once per pass of an outer loop
    # that carries the position from the end of one walk to the start of the next, the position at the start of every pass
    # IS the start parameter (the walk is only left on the start pixel - the very test decided here, by induction over the
    # passes), so a start value remembered before the passes and one remembered in each pass are the same number
    startsP = [preP]
    pa_ = _atom(preP)
    from ..sym import Sym as _Sym
    if isinstance(pa_, _Sym) and '~loop' in pa_.name:
        for l_ in R.outer:
            c_ = getattr(l_, 'carried', {}).get(R.P)
            if c_ and c_[0] == preP and isinstance(_atom(c_[1]), _Sym) and _atom(c_[1]).name.startswith(R.P + '~wout'):
                startsP.append(Rat.sym(R.start))

    # the exit test compares (start value - value after the step): replace those differences by numbers
    def ev(c):
        if c[0] == 'cmp':
            d = c[3] if len(c) > 3 else c[2]
            for sign in (1, -1):
                if any(d == (p0 - endP) * Rat.const(sign) for p0 in startsP):
                    v = Fr(dP) * sign
                    break
                if d == (preF - endF) * Rat.const(sign):
                    v = Fr(dF) * sign
                    break
            else:
                raise CannotEvaluate('exit test compares something else than (position, heading) with their start values')
            return {'==': v == 0, '!=': v != 0, '<': v < 0, '<=': v <= 0}[c[1]]
        if c[0] == 'and':
            return all(ev(x) for x in c[1:])
        if c[0] == 'or':
            return any(ev(x) for x in c[1:])
        if c[0] == 'not':
            return not ev(c[1])
        if c[0] == 'const':
            return bool(c[1])
        raise CannotEvaluate(repr(c)[:80])
    return all(ev(g) for g in R.brk)


def check_misc(prog, rep, m):
    entry = 'polygonize'
    ic = m.funcs.get('_is_close')
    if ic is None:
        raise AnalysisIncomplete('_is_close not found')
    # the matcher generator: on each path through its body it returns a lambda (or nested function); the path on which
    # both arguments are integer types must return exact equality, the other one a predicate that is reflexive and rejects
    # clearly different values.  The returned predicates are evaluated, not compared as text.
    from fractions import Fraction as Fr
    from ..astutil import body_paths
    from ..kutil import CannotEvaluate, eval_cond_full
    from ..sym import Sym

    def integer_test(t_, taken):
        """does this decision say "both arguments are integer types"?  True / False / None (another test)"""
        txt = T(t_)
        if 'Integer' in txt and 'isinstance' in txt:
            if isinstance(t_, ast.UnaryOp) and isinstance(t_.op, ast.Not):
                return not taken
            return taken
        return None

    def predicate(ret, env_stmts):
        """condition of the lambda returned by `ret`, over its two parameters, with the local constants in scope"""
        lam = ret.value
        if isinstance(lam, ast.Name):
            defs = [s_ for s_ in env_stmts if isinstance(s_, ast.Assign) and T(s_.targets[0]) == lam.id and isinstance(s_.value, ast.Lambda)]
            lam = defs[-1].value if defs else None
        if not isinstance(lam, ast.Lambda) or len(lam.args.args) != 2:
            return None
        a_, b_ = lam.args.args[0].arg, lam.args.args[1].arg
        sp = Spec(prog, {a_: Rat.sym('A'), b_: Rat.sym('B')}, m)
        for s_ in env_stmts:
            if isinstance(s_, ast.Assign) and isinstance(s_.targets[0], ast.Name) and not isinstance(s_.value, ast.Lambda):
                try:
                    sp.it.stmt(s_)
                except AnalysisIncomplete:
                    pass
        return sp.it.cond_of(sp.it.ev(lam.body), lam.body)
    okint = okflt = None
    whyi = whyf = 'returned predicate not found'
    try:
        for p in body_paths(ic.node.body):
            rets = [s_ for s_ in p.stmts if isinstance(s_, ast.Return)]
            if not rets:
                continue
            kinds = [integer_test(t_, tk) for t_, tk in p.conds]
            pred = predicate(rets[-1], p.stmts)
            if pred is None:
                continue

            def holds(x, y):
                return eval_cond_full(pred, {Sym('A'): Fr(x), Sym('B'): Fr(y)})
            if True in kinds:
                pairs = [(5, 5, True), (0, 0, True), (-7, -7, True), (100000, 100001, False), (100001, 100000, False), (0, 1, False),
                         (2**40, 2**40 + 1, False)]
                bad = [(x, y) for x, y, w_ in pairs if holds(x, y) != w_]
                okint, whyi = not bad, 'wrong for %s' % bad if bad else 'exact on %d pairs' % len(pairs)
            elif False in kinds or not kinds:
                # small alphabets too: 0, 2e-6, 4e-6 are three different values (an absolute tolerance of 1e-5 would merge them)
                pairs = [(5, 5, True), (0, 0, True), (-3, -3, True), (1, 2, False), (2, 1, False), (-3, 3, False), (0, 1, False),
                         (0, Fr(2, 10 ** 6), False), (Fr(2, 10 ** 6), 0, False), (Fr(4, 10 ** 6), Fr(2, 10 ** 6), False)]
                bad = [(str(x), str(y)) for x, y, w_ in pairs if holds(x, y) != w_]
                okflt, whyf = not bad, 'wrong for %s' % bad if bad else 'reflexive and separating on %d pairs' % len(pairs)
        if okint is None and okflt is None and len(ic.params) >= 2:
            # not a generator of matchers but one matcher for every dtype: it is the integer matcher too
            ki = interpret(prog, ic, strict=False)
            a_, b_ = Sym(ic.params[0]), Sym(ic.params[1])

            def holds1(x, y):
                for v, g in ki.returns:
                    if all(eval_cond_full(z, {a_: Fr(x), b_: Fr(y)}) for z in g):
                        if isinstance(v, tuple) and v and v[0] in ('cmp', 'and', 'or', 'not', 'truth', 'const'):
                            return eval_cond_full(v, {a_: Fr(x), b_: Fr(y)})
                        raise CannotEvaluate('returned value is not a condition')
                raise CannotEvaluate('no return taken')
            pairs = [(5, 5, True), (0, 0, True), (100000, 100001, False), (100001, 100000, False), (0, 1, False), (2**40, 2**40 + 1, False)]
            bad = [(x, y) for x, y, w_ in pairs if holds1(x, y) != w_]
            okint, whyi = not bad, ('one matcher for all dtypes; wrong for integer pairs %s' % bad) if bad else 'exact'
            okflt, whyf = all(holds1(x, x) for x in (5, 0, -3)) and not holds1(1, 2), 'one matcher for all dtypes'
    except (ValueError, CannotEvaluate, AnalysisIncomplete) as e:
        whyi = whyf = str(e)
    rep.add('G6', ic, entry, 'integer rasters are matched with ==', ic.node.lineno, okint,
            'equal-value regions of integer rasters need exact equality (an equivalence relation); ' + whyi)
    rep.add('G6', ic, entry, 'float matcher: a value matches itself, clearly different values do not', ic.node.lineno, okflt, whyf)
    # G7 on wrapper terms: what the scan receives, case by case (single-column raster or not, mask given or not)
    from ..wterm import WT, eval_cond, key as tkey, resolve, show as tshow
    pub = m.funcs.get('polygonize')
    scan = m.funcs.get('_scan')
    if pub is None or scan is None:
        raise AnalysisIncomplete('polygonize / _scan not found')
    w = WT(prog, keep=[scan])
    w.run(pub)
    sc = [x for x in w.calls if x.callee is scan]
    if len(sc) != 1 or not sc[0].bound:
        rep.add('G7', pub, entry, 'scan call', pub.node.lineno, None, '%d calls of the scan with bound arguments' % len(sc))
        return
    b = sc[0].bound
    line = sc[0].node.lineno
    rname, mname = pub.params[0], pub.params[1]
    # roles of the scan's parameters by position of its own signature (values, mask, connectivity flag, transform, nx, ny)
    sr = scan_roles(prog, m, scan)
    if sr is None:
        raise AnalysisIncomplete('_scan: parameter roles not identified')
    pv, pm_, pc, pt, pnx, pny = sr
    env0 = {'raster': ('param', rname), 'mask': ('param', mname)}
    W = w.expr('raster.data.shape[1]', env0, pub)

    def decider(single, masked):
        def decide(cnd):
            if cnd[0] == 'not':
                r_ = decide(cnd[1])
                return None if r_ is None else not r_
            if cnd[0] == 'cmp' and cnd[1] in ('Eq', 'NotEq') and {tkey(cnd[2]), tkey(cnd[3])} == {tkey(W), tkey(('const', 1))}:
                return single if cnd[1] == 'Eq' else not single
            if cnd[0] == 'cmp' and cnd[1] in ('Is', 'IsNot') and {tkey(cnd[2]), tkey(cnd[3])} == {tkey(('param', mname)), tkey(('const', None))}:
                return (not masked) if cnd[1] == 'Is' else masked
            if cnd[0] == 'cmp' and cnd[1] in ('Is', 'IsNot') and ('const', None) in (cnd[2], cnd[3]):
                other = cnd[3] if cnd[2] == ('const', None) else cnd[2]
                isnone = True if other == ('const', None) else (False if other[0] in ('data', 'call') else None)
                if isnone is not None:
                    return isnone if cnd[1] == 'Is' else not isnone
            return None
        return decide

    def case(single, masked):
        decide = decider(single, masked)
        return {p: resolve(t_, decide) for p, t_ in b.items()}
    callguards = {tkey(g_) for g_ in sc[0].guards}

    def flat(t_):
        """X if t_ is X.ravel() / X.ravel(order='C') / X.flatten() / X.reshape(-1), else None"""
        if t_[0] == 'call' and isinstance(t_[1], tuple) and t_[1][0] == 'method' and t_[1][2] in ('ravel', 'flatten', 'reshape'):
            kws = dict(t_[3])
            if kws.get('order', ('const', 'C')) != ('const', 'C'):
                return None
            if t_[1][2] == 'reshape' and t_[2] not in ((('const', -1),), (('tuple', (('const', -1),)),)):
                return None
            if t_[1][2] != 'reshape' and t_[2] not in ((), (('const', 'C'),)):
                return None
            return t_[1][1]
        return None
    data, mdata = ('data', ('param', rname)), ('data', ('param', mname))

    def extent(t_, axis, single):
        """a scalar term as a number of rows / columns: 'H' / 'W' (1 when the raster has a single column), ints, or None"""
        if t_[0] == 'const' and isinstance(t_[1], int):
            return t_[1]
        if t_[0] == 'index' and t_[1][0] == 'attr' and t_[1][2] == 'shape' and t_[2][0] == 'const' and t_[2][1] in (0, 1, -1, -2):
            ax = t_[2][1] % 2
            return size(t_[1][1], ax, single)
        return None

    def hs(t_):
        """`np.concatenate((a, b), axis=1)` of 2-D arrays written as the `np.hstack((a, b))` it is"""
        if isinstance(t_, tuple) and len(t_) >= 4 and t_[0] == 'call' and t_[1] == 'numpy.concatenate' and t_[2] and t_[2][0][0] == 'tuple' and \
                dict(t_[3]).get('axis') in (('const', 1), ('const', -1)):
            return ('call', 'numpy.hstack', (t_[2][0],), ())
        return t_

    def size(a_, ax, single):
        a_ = hs(a_)
        if tkey(a_) in (tkey(data), tkey(mdata), tkey(('param', rname))):
            return ('H' if ax == 0 else (1 if single else 'W'))
        if a_[0] == 'call' and a_[1] in ('numpy.empty_like', 'numpy.zeros_like', 'numpy.ones_like', 'numpy.full_like') and a_[2]:
            return size(a_[2][0], ax, single)
        if a_[0] == 'call' and a_[1] == 'numpy.hstack' and a_[2] and a_[2][0][0] == 'tuple':
            parts = [size(x, ax, single) for x in a_[2][0][1]]
            if ax == 0:
                return parts[0] if len(set(parts)) == 1 else None
            return sum(parts) if all(isinstance(p_, int) for p_ in parts) else None
        return None
    def cols(t_, decide=None):
        """the columns of a mask term for a single-column raster, left to right: 'M' (the given mask's column), True or False
        (a constant column); None when the term is not understood.  Built from allocations, hstack and whole-column stores."""
        t_ = hs(t_)
        if tkey(t_) == tkey(mdata):
            return ['M']
        out_ = None
        # a row of constants broadcast down the rows: np.broadcast_to(np.array([True, False]), values.shape).copy()
        b_ = t_
        if b_[0] == 'call' and isinstance(b_[1], tuple) and b_[1][0] == 'method' and b_[1][2] == 'copy' and not b_[2]:
            b_ = b_[1][1]
        if b_[0] == 'call' and b_[1] == 'numpy.broadcast_to' and len(b_[2]) == 2 and b_[2][0][0] == 'call' and b_[2][0][1] in ('numpy.array', 'numpy.asarray') and \
                b_[2][0][2] and b_[2][0][2][0][0] == 'tuple' and all(x_[0] == 'const' and x_[1] in (True, False) for x_ in b_[2][0][2][0][1]):
            row = [bool(x_[1]) for x_ in b_[2][0][2][0][1]]
            shp_ = b_[2][1]
            n_ = size(shp_[1], 1, True) if shp_[0] == 'attr' and shp_[2] == 'shape' else None
            if n_ == len(row):
                return row
        if t_[0] == 'call' and t_[1] == 'numpy.hstack' and t_[2] and t_[2][0][0] == 'tuple':
            out_ = []
            for x_ in t_[2][0][1]:
                c_ = cols(x_, decide)
                if c_ is None:
                    return None
                out_ += c_
        elif t_[0] == 'call' and t_[1] in ('numpy.zeros_like', 'numpy.ones_like', 'numpy.full_like', 'numpy.zeros', 'numpy.ones', 'numpy.full') and t_[2]:
            like = t_[1].endswith('_like')
            n_ = size(t_[2][0], 1, True) if like else None
            if not like:
                shp_ = t_[2][0]
                if shp_[0] == 'tuple' and len(shp_[1]) == 2:
                    n_ = extent(shp_[1][1], 1, True)
                elif shp_[0] == 'attr' and shp_[2] == 'shape':
                    n_ = size(shp_[1], 1, True)
            if not isinstance(n_, int):
                return None
            if 'full' in t_[1]:
                fv = t_[2][1] if len(t_[2]) > 1 else dict(t_[3]).get('fill_value')
                if not (fv and fv[0] == 'const' and fv[1] in (True, False, 0, 1)):
                    return None
                v_ = bool(fv[1])
            else:
                v_ = 'ones' in t_[1]
            out_ = [v_] * n_
        if out_ is None:
            return None
        for st in w.stores:
            if st[0][0] == 'index' and tkey(st[0][1]) == tkey(t_):
                # the store runs in this case iff its own guards (beyond those of the scan call itself) hold in it
                gv = [decide(resolve(g_, decide)) if decide else None for g_ in st[2] if tkey(g_) not in callguards]
                if any(x_ is None for x_ in gv):
                    return None
                if not all(gv):
                    continue
                ix = st[0][2]
                if ix[0] == 'tuple' and len(ix[1]) == 2 and ix[1][0] == ('slice', None, None, None) and ix[1][1][0] == 'const' and \
                        isinstance(ix[1][1][1], int) and -len(out_) <= ix[1][1][1] < len(out_) and st[1][0] == 'const' and \
                        st[1][1] in (True, False, 0, 1):
                    out_[ix[1][1][1]] = bool(st[1][1])
                else:
                    return None
        return out_
    res = []
    for single in (False, True):
        for masked in (True, False):
            cs = case(single, masked)
            v, mk = flat(cs[pv]), (flat(cs[pm_]) if cs[pm_] != ('const', None) else 'none')
            v = hs(v) if v is not None else v
            okv = v is not None and (tkey(v) == tkey(data) if not single else
                                     (v[0] == 'call' and v[1] == 'numpy.hstack' and v[2] and v[2][0][0] == 'tuple' and len(v[2][0][1]) == 2 and
                                      tkey(v[2][0][1][0]) == tkey(data)))
            oknx = extent(cs[pnx], 1, single) == (2 if single else 'W') and extent(cs[pny], 0, single) == 'H'
            if masked and not single:
                okm = mk not in (None, 'none') and tkey(mk) == tkey(mdata)
            elif masked and single:
                okm = mk not in (None, 'none') and cols(mk, decider(single, masked)) == ['M', False]
            elif not masked and not single:
                okm = mk == 'none'
            else:
                # no mask given, padded raster: the original column kept (True), the extra one masked out (False)
                okm = mk not in (None, 'none') and cols(mk, decider(single, masked)) == [True, False]
            res.append(((single, masked), okv, oknx, okm))
    bad = [r for r in res if not (r[1] and r[2] and r[3])]
    rep.add('G7', pub, entry, 'scan receives the row-major flattened raster and mask, nx = columns, ny = rows; a single column is '
            'padded with a masked-out second column', line, not bad,
            'the flat index ij = j*nx + i assumes row-major order with nx columns; (single column, mask given) -> '
            '(values, nx/ny, mask) ok: %s' % [(r[0], r[1], r[2], r[3]) for r in res])
    cpar = next((p for p in pub.params if 'connectivity' in p), None)
    okc = cpar is not None and tkey(b[pc]) == tkey(w.expr('c == 8', {'c': ('param', cpar)}, pub))
    raised = {}
    for v_ in (4, 8, 6, 0):
        hit = False
        for guards, node in w.raises:
            try:
                if ("('param', '%s')" % cpar) in repr(guards[-1]) and eval_cond(guards[-1], {cpar: v_}):
                    hit = True
            except (ValueError, KeyError):
                pass
        raised[v_] = hit
    rep.add('G7', pub, entry, 'connectivity validated; 8-connectivity flag = (connectivity == 8)', line,
            okc and raised == {4: False, 8: False, 6: True, 0: True}, 'flag %s; raises for %s' % (tshow(b[pc], 60), sorted(k_ for k_, h in raised.items() if h)))
    tpar = next((p for p in pub.params if 'transform' in p), None)
    def tcase(given):
        def decide(cnd):
            if cnd[0] == 'cmp' and cnd[1] in ('Is', 'IsNot') and {tkey(cnd[2]), tkey(cnd[3])} == {tkey(('param', tpar)), tkey(('const', None))}:
                return (not given) if cnd[1] == 'Is' else given
            return None
        return resolve(b[pt], decide)
    okt = tpar is not None and tkey(tcase(True)) in (tkey(('param', tpar)), tkey(w.expr('np.asarray(t)', {'t': ('param', tpar)}, pub))) and \
        tkey(tcase(False)) in (tkey(('param', tpar)), tkey(('const', None)))
    rep.add('G7', pub, entry, 'the caller\'s transform reaches the scan', line, okt, tshow(b[pt], 100))


def check(prog, rep):
    m = prog.modules.get('xrspatial.experimental.polygonize')
    if m is None:
        raise AnalysisIncomplete('experimental.polygonize not found')
    check_neighbours(prog, rep, m)
    R = check_follow(prog, rep, m)
    check_scan(prog, rep, m, R)
    check_misc(prog, rep, m)
    rep.floor('G1', 3)
    rep.floor('G2', 5)
    rep.floor('G3', 4)
    rep.floor('G4', 4)
    rep.floor('G5', 2)
