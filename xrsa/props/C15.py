"""C15 - polygonize is lossless  (partial: neighbour consistency, merge bookkeeping hooks, transform pass-through,
ring closure, corner offsets; merge-chain correctness, hole attribution and boundary following are declined).

G1 for each neighbour direction (W, S, SW, SE) the domain guard, the mask index, the value index and the region index
use the same flat offset and the guard matches the offset; G2 region bookkeeping: fresh ids counted with an overflow
check in a fixed unsigned dtype, two matching neighbours -> lower id kept and the pair merged, final lookup applied to
every pixel; G3 every ring returned by the boundary follower goes through the affine transform (when given) before it
is stored, on the exterior and the hole path, and the transform is the 6-parameter affine map computed from the OLD
coordinates; G4 rings are closed; start orientation constants and corner offsets of the follower; G5 the column value
is taken at the start cell and holes are attached to polygons[region-1]; G6 value matching is exact for integers;
G7 single-column workaround and argument validation.
"""
import ast

from ..astutil import calls, const, kw, parent_map, short
from ..kai import Arr, interpret
from ..kutil import Spec, show
from ..program import AnalysisIncomplete, Func, norm
from ..sym import App, Rat


def T(n):
    return norm(n).replace(' ', '').replace('\n', '')


def offsets_in(expr, arrays, var='ij'):
    """set of flat offsets (as normalised text after `ij`) used to index the given arrays inside expr"""
    out = {}
    for n in ast.walk(expr):
        if isinstance(n, ast.Subscript) and isinstance(n.value, ast.Name) and n.value.id in arrays:
            t = T(n.slice)
            if t == var:
                continue   # the pixel itself
            out.setdefault(n.value.id, set()).add(t)
    return out


GUARDS = {'ij-1': {'ij%nx>0'}, 'ij-nx': {'ij>=nx'}, 'ij-nx-1': {'ij%nx>0', 'ij>=nx'}, 'ij-nx+1': {'ij%nx<nx-1', 'ij>=nx'}}


def check_neighbours(prog, rep, m):
    """G1 / G2 on the interpreted one-pass labelling: for a pixel at the corners, edges and interior of a 5-column raster
    and every set of matching neighbours that the property needs (none, a single W / S / SW / SE neighbour, and the pairs
    that are not adjacent to each other), the stored region id is the matching neighbour's id / the lower of the two
    (with a merge of the pair) / a fresh id, and a neighbour outside the raster or masked out never joins."""
    from fractions import Fraction as Fr
    from ..kai import cond_repr
    from ..kutil import CannotEvaluate, eval_cond_full, evaluate, guard_atoms
    from ..sym import Sym, walk_atoms
    f = m.funcs.get('_calculate_regions')
    if f is None:
        raise AnalysisIncomplete('_calculate_regions not found')
    entry = 'polygonize labelling'
    k = interpret(prog, f, strict=False)
    values, mask, conn8, nxp = f.params[0], f.params[1], f.params[2], f.params[3]
    outs = [v for v, g in k.returns if isinstance(v, Arr)]
    if len(outs) != 1:
        rep.add('G1', f, entry, 'labelling', f.node.lineno, None, 'returned region array not identified')
        return
    regions = outs[0]
    first = [st for st in k.stores if st.arr is regions and st.loops]
    if not first:
        rep.add('G1', f, entry, 'labelling', f.node.lineno, None, 'no per-pixel store')
        return
    L = first[0].loops[0]
    IJ = Rat.sym(L.var)
    NX = Rat.sym(nxp)
    okloop = L.kind == 'range' and L.lo == Rat.const(0) and L.hi == NX * Rat.sym(f.params[4]) and L.step == Rat.const(1)
    rep.add('G1', f, entry, 'labelling scan: for ij in range(nx * ny)', L.node.lineno, okloop, 'every pixel is labelled in raster order')
    sts = [st for st in k.stores if st.arr is regions and st.loops and st.loops[0] is L and tuple(st.idx) == (IJ,)]
    merges = [c for c in k.calls if c[0] == '_merge_regions' and c[4] and c[4][0] is L]
    atoms = set()
    for st in sts:
        atoms |= guard_atoms(st.guards) | (walk_atoms(st.value) if isinstance(st.value, Rat) else set())
    for c in merges:
        atoms |= guard_atoms(c[2])
        for a_ in c[1]:
            if isinstance(a_, Rat):
                atoms |= walk_atoms(a_)
    dirs = {'W': Rat.const(-1), 'S': -NX, 'SW': -NX - Rat.const(1), 'SE': -NX + Rat.const(1)}

    def at_offset(a, arr):
        """direction name if atom a reads arr at ij + that direction's offset"""
        if isinstance(a, App) and a.name in ('read', 'cell?') and a.args[0] == arr and len(a.args) >= 2:
            for dn, off in dirs.items():
                if a.args[1] == IJ + off:
                    return dn
            if a.args[1] == IJ:
                return 'self'
        return None
    close = {}
    for a in atoms:
        if isinstance(a, App) and a.name.startswith('call:') and a.name.endswith('_is_close') and len(a.args) == 2:
            d1, d2 = [at_offset(_single(x), values) if isinstance(x, Rat) else None for x in a.args]
            dn = d2 if d1 == 'self' else d1 if d2 == 'self' else None
            if dn in dirs:
                close.setdefault(dn, []).append(a)
            else:
                close.setdefault('?', []).append(a)
    rep.add('G1', f, entry, 'neighbour directions %s' % sorted(close), f.node.lineno, set(close) == set(dirs),
            'the pixel value must be compared with exactly the W, S and (8-connectivity) SW, SE neighbours (flat offsets -1, -nx, '
            '-nx-1, -nx+1)')
    if set(close) != set(dirs):
        return
    maskat = {dn: [a for a in atoms if at_offset(a, mask) == dn] for dn in list(dirs) + ['self']}
    regat = {dn: [a for a in atoms if at_offset(a, regions.name) == dn] for dn in dirs}
    isnone = [a for a in atoms if isinstance(a, App) and a.name == 'is' and a.args[1] == Rat.atom(App('none', []))]
    mods = [a for a in atoms if isinstance(a, App) and a.name == 'mod']
    counter = [a for a in atoms if isinstance(a, Sym) and a.name.endswith(tuple('~loop%d' % i for i in range(1000))) and '~loop' in a.name]
    opaque = [a for a in atoms if isinstance(a, App) and a.name == 'opaque']
    c8 = Sym(conn8)
    REG = {'W': 11, 'S': 12, 'SW': 13, 'SE': 14}
    nxv = 5

    def run(ij, M, masked_dirs, maskless, conn):
        env = {Sym(L.var): Fr(ij), Sym(nxp): Fr(nxv), c8: Fr(conn)}
        for a in isnone:
            env[a] = Fr(1 if maskless else 0)
        for a in mods:
            env[a] = Fr(int(evaluate(a.args[0], env)) % int(evaluate(a.args[1], env)))
        for dn in dirs:
            for a in close[dn]:
                env[a] = Fr(1 if dn in M else 0)
            for a in maskat[dn]:
                env[a] = Fr(0 if dn in masked_dirs else 1)
            for a in regat[dn]:
                env[a] = Fr(REG[dn])
        for a in maskat['self']:
            env[a] = Fr(1)
        for a in counter:
            env[a] = Fr(40)
        for a in opaque:
            env[a] = Fr(10**9)
        val = None
        for st in sts:
            if all(eval_cond_full(g, env) for g in st.guards):
                val = evaluate(st.value, env)
        mg = []
        for c in merges:
            if all(eval_cond_full(g, env) for g in c[2]):
                mg.append(tuple(sorted(int(evaluate(x, env)) for x in c[1][1:3] if isinstance(x, Rat))))
        return (int(val) if val is not None else None), mg

    def indomain(ij, dn):
        i, j = ij % nxv, ij // nxv
        return {'W': i > 0, 'S': j > 0, 'SW': i > 0 and j > 0, 'SE': i < nxv - 1 and j > 0}[dn]
    scen = [set(), {'W'}, {'S'}, {'SW'}, {'SE'}, {'W', 'S'}, {'W', 'SE'}, {'SW', 'S'}, {'SW', 'SE'}]
    bad = []
    und = None
    n_cases = 0
    try:
        for ij in (0, 2, 4, 5, 7, 9):
            for M in scen:
                for conn in (1, 0):
                    for maskless in (1, 0):
                        for masked in ([set()] + ([{d_} for d_ in M] if not maskless else [])):
                            n_cases += 1
                            eff = {d_ for d_ in M if indomain(ij, d_) and d_ not in masked and (conn or d_ in ('W', 'S'))}
                            got, mg = run(ij, M, masked, maskless, conn)
                            left = [d_ for d_ in ('W', 'SW') if d_ in eff]
                            right = [d_ for d_ in ('S', 'SE') if d_ in eff]
                            ids = sorted(REG[d_] for d_ in left[:1] + right[:1])
                            if not ids:
                                want, wantm = 41, []
                            elif len(ids) == 1:
                                want, wantm = ids[0], []
                            else:
                                want, wantm = ids[0], [tuple(ids)]
                            if got != want or mg != wantm:
                                bad.append('pixel %d of a 5-wide raster, matching %s%s%s, %d-connectivity: region %s merges %s, expected %s %s' % (
                                    ij, sorted(M), (' masked ' + str(sorted(masked))) if masked else '', ' (no mask)' if maskless else '',
                                    8 if conn else 4, got, mg, want, wantm))
    except CannotEvaluate as e:
        und = str(e)
    rep.add('G1', f, entry, 'a neighbour joins only inside the raster, unmasked and equal; its own region id is taken (%d cases)' % n_cases,
            f.node.lineno, None if und else not [b_ for b_ in bad if 'merges []' in b_ or True] or not bad,
            'for every neighbour direction the domain guard, the mask read, the value comparison and the region-id read must refer '
            'to the same neighbour, diagonal ones only with 8-connectivity; %s' % (und or '; '.join(bad[:3])))
    rep.add('G2', f, entry, 'no match: fresh id = counter + 1; one match: its id; two: the lower id and a merge of the pair', f.node.lineno,
            None if und else not bad, 'a pixel with no matching neighbour starts a new region, with one it joins that region, with two '
            'different regions it takes the lower id and the pair is merged; %s' % (und or '; '.join(bad[:2])))
    # ---- G2 bookkeeping that is not per-pixel
    t = {T(s) for s in f.own_nodes() if isinstance(s, (ast.Assign, ast.AugAssign))}
    dt = m.assigns.get('_regions_dtype', [])
    okdt = len(dt) == 1 and T(dt[0]) in ('np.uint32', 'np.uint64', 'np.int64')
    okalloc = isinstance(regions.dtype, str) and regions.dtype.replace(' ', '') == '_regions_dtype'
    rep.add('G2', f, entry, 'region ids in fixed dtype %s' % (T(dt[0]) if dt else None), f.node.lineno, okalloc and okdt,
            'the region counter must live in a fixed wide integer dtype, independent of the raster dtype')
    # overflow: the fresh-id store is guarded by counter != max of that dtype, with a raise on the other path
    okov = bool(k.raises) and any('iinfo(_regions_dtype).max' in repr(a) for a in opaque)
    rep.add('G2', f, entry, 'running out of ids raises', f.node.lineno, okov,
            'a pixel with no matching neighbour starts a new region; running out of ids must raise, not wrap')
    # masked pixels are region 0
    masked0 = any(isinstance(st.value, Rat) and st.value == Rat.const(0) and st.guards for st in sts)
    rep.add('G2', f, entry, 'masked pixels are region 0', f.node.lineno, masked0 or regions.init == 'zeros', '')
    ok = 'regions[ij]=region_lookup[regions[ij]]' in t and 'new_region_lookup[i]=new_region_lookup[target]' in t and \
        'new_region_lookup[i]=new_region' in t
    rep.add('G2', f, entry, 'final lookup applied to every pixel', f.node.lineno, ok, '')
    mm = m.funcs.get('_min_and_max')
    if mm is not None:
        km = interpret(prog, mm)
        try:
            a_, b_ = Sym(mm.params[0]), Sym(mm.params[1])
            res = []
            for x, y in ((3, 5), (5, 3), (4, 4)):
                for v, g in km.returns:
                    if all(eval_cond_full(c, {a_: Fr(x), b_: Fr(y)}) for c in g):
                        res.append(tuple(int(evaluate(i if isinstance(i, Rat) else Rat.sym(i[1]), {a_: Fr(x), b_: Fr(y)})) for i in v.items))
                        break
            okmm = res == [(3, 5), (3, 5), (4, 4)]
        except (CannotEvaluate, AttributeError):
            okmm = None
        rep.add('G2', mm, entry, '_min_and_max returns (min, max)', mm.node.lineno, okmm, 'got %s' % (res if okmm is not None else '?'))


def _single(r):
    if isinstance(r, Rat) and r.d.is_const() and len(r.n.t) == 1:
        (mm, c), = r.n.t.items()
        if len(mm) == 1 and mm[0][1] == 1 and isinstance(mm[0][0], App) and c == r.d.const_value():
            return mm[0][0]
    return None


def check_scan(prog, rep, m):
    f = m.funcs.get('_scan')
    if f is None:
        raise AnalysisIncomplete('_scan not found')
    from ..inline import inline_view
    f = inline_view(prog, f)      # follow-then-transform glue reads as if written in place
    entry = 'polygonize scan'
    follows = [n for n in f.own_nodes() if isinstance(n, ast.Assign) and isinstance(n.value, ast.Call) and short(n.value) == '_follow']
    pm = parent_map(f.node)
    # the start-pixel scan looks at every pixel: holes (also holes of masked cells, which start no region) are found
    # on the N side of ANY pixel, so the scan may not stop when the last region's start pixel has been seen
    scans = [n for n in f.own_nodes() if isinstance(n, ast.For) and any(x in follows for x in ast.walk(n))]
    for lp in scans:
        from ..astutil import inline as _inl, straightline_env as _senv
        it = T(_inl(lp.iter, _senv(f.node.body, upto=lp)))
        full = it in ('range(nx*ny)', 'range(0,nx*ny)', 'range(ny*nx)', 'range(len(regions))', 'range(regions.size)', 'range(regions.shape[0])')
        exits = [x for x in ast.walk(lp) if isinstance(x, (ast.Break, ast.Return))]
        rep.add('G5', f, entry, 'start-pixel scan: for %s in %s, %d early exits' % (T(lp.target), norm(lp.iter), len(exits)), lp.lineno,
                full and not exits, 'every pixel must be examined as a possible start of an exterior or of a hole: an early exit '
                '(e.g. once all regions have their exterior) loses holes that lie later in scan order, such as holes made of masked cells')
    for n in follows:
        blk = None
        p = pm.get(n)
        for fld in ('body', 'orelse'):
            if n in getattr(p, fld, []):
                blk = getattr(p, fld)
        i = blk.index(n)
        pts = T(n.targets[0].elts[1]) if isinstance(n.targets[0], ast.Tuple) else None
        nxt = blk[i + 1] if i + 1 < len(blk) else None
        ok = isinstance(nxt, ast.If) and T(nxt.test) == 'transformisnotNone' and \
            [T(s) for s in nxt.body] == ['_transform_points(%s,transform)' % pts] and not nxt.orelse
        # and the points are stored only after that
        later = [T(s) for s in blk[i + 2:]]
        stored = any(('[%s]' % pts) in s or ('(%s)' % pts) in s for s in later)
        before = any(('[%s]' % pts) in T(s) or ('append(%s)' % pts) in T(s) for s in blk[:i + 1])
        hole = T(n.value.args[-1])
        rep.add('G3', f, entry, '%s ring: %s' % ('hole' if hole == 'True' else 'exterior', T(n)[:80]), n.lineno,
                ok and stored and not before,
                'every ring must pass through the affine transform (when one is given) before it is appended')
    rep.add('G3', f, entry, '%d boundary-follower call sites' % len(follows), f.node.lineno, len(follows) == 2 and
            sorted(T(n.value.args[-1]) for n in follows) == ['False', 'True'], 'one exterior and one hole site')
    t = {T(s) for s in f.own_nodes() if isinstance(s, (ast.Expr, ast.Assign))}
    ok = 'column.append(values[ij])' in t and 'polygons.append([points])' in t and 'polygons[region-1].append(points)' in t and 'region_done=region' in t
    rep.add('G5', f, entry, 'column value from the start cell; hole attached to polygons[region-1]', f.node.lineno, ok,
            'the polygon\'s value is the value of its start pixel and a hole belongs to the polygon of its region')
    NP = lambda n: T(n).replace('(', '').replace(')', '')   # noqa
    ex = [n for n in f.own_nodes() if isinstance(n, ast.If) and NP(n.test) == 'notvisited[ij]&1andregions[ij]==region_done+1']
    ho = [n for n in f.own_nodes() if isinstance(n, ast.If) and NP(n.test) == 'ij>=nxandnotvisited[ij]&2andregions[ij]!=regions[ij-nx]andregions[ij-nx]!=0']
    rep.add('G5', f, entry, 'exterior / hole start conditions', f.node.lineno, len(ex) == 1 and len(ho) == 1,
            'an exterior starts at the first unvisited pixel of the next region; a hole starts where the pixel below belongs '
            'to another non-masked region')
    args = {T(n.value.args[4]) + ',' + T(n.value.args[5]) for n in follows}
    rep.add('G5', f, entry, 'follower start cells %s' % sorted(args), f.node.lineno, args == {'ij,False', 'ij-nx,True'}, '')
    # transform
    tp = m.funcs.get('_transform_points')
    if tp is None:
        raise AnalysisIncomplete('_transform_points not found')
    k = interpret(prog, tp)
    pts, tr = tp.params[:2]
    ok = False
    st = [s for s in k.stores if s.idx != 'all']
    if len(st) == 2:
        i = st[0].idx[0]
        rd = lambda a, *ix: Rat.atom(App('read', [a] + list(ix)))   # noqa
        c = lambda n: Rat.const(n)   # noqa
        wx = rd(tr, c(0)) * rd(pts, i, c(0)) + rd(tr, c(1)) * rd(pts, i, c(1)) + rd(tr, c(2))
        wy = rd(tr, c(3)) * rd(pts, i, c(0)) + rd(tr, c(4)) * rd(pts, i, c(1)) + rd(tr, c(5))
        by = {repr(s.idx[1]): s.value for s in st}
        ok = by.get('0') == wx and by.get('1') == wy
    rep.add('G3', tp, entry, 'affine map x = a*x + b*y + c, y = d*x + e*y + f from the OLD coordinates', tp.node.lineno, ok,
            'both new coordinates must be computed from the point\'s original (x, y) before either is overwritten; got %s'
            % [show(s.value, 100) for s in st])
    lp = [l for l in k.loops]
    rep.add('G3', tp, entry, 'every vertex transformed', tp.node.lineno, len(lp) == 1 and lp[0].lo == Rat.const(0) and
            repr(lp[0].hi) in ("shape('%s', 0)" % pts, "len(arr('%s'))" % pts, "len(%s)" % pts), 'loop over all points')


def check_follow(prog, rep, m):
    f = m.funcs.get('_follow')
    if f is None:
        raise AnalysisIncomplete('_follow not found')
    entry = 'polygonize follower'
    t = [T(s) for s in f.own_nodes() if isinstance(s, (ast.Assign, ast.AugAssign))]
    ok = 'points[-1]=points[0]' in t and 'points=points.reshape((-1,2))' in t and 'points=np.empty(2*(npoints+1))' in t
    rep.add('G4', f, entry, 'ring closed: points[-1] = points[0] (one extra point allocated)', f.node.lineno, ok,
            'the last vertex of every ring must repeat the first')
    # start orientation, evaluated on the statements that precede the walk (if/else or conditional expressions)
    ok = None
    why = ''
    outer = [n for n in f.node.body if isinstance(n, ast.For)]
    if outer:
        pre = []
        for st in outer[0].body:
            if isinstance(st, ast.While):
                break
            pre.append(st)
        got = {}
        try:
            for hv in (True, False):
                sp = Spec(prog, {'hole': ('const', hv), 'nx': Rat.sym('nx'), 'ij': Rat.sym('ij')}, m)
                for st in pre:
                    sp.it.stmt(st)
                got[hv] = (sp.it.as_scalar(sp.it.env.get('forward')), sp.it.as_scalar(sp.it.env.get('left')))
            ok = got[True] == (Rat.const(-1), -Rat.sym('nx')) and got[False] == (Rat.const(1), Rat.sym('nx'))
            why = 'hole: %s, exterior: %s' % (got[True], got[False])
        except (AnalysisIncomplete, KeyError, TypeError) as e:
            ok, why = None, str(e)
    rep.add('G4', f, entry, 'start orientation: exterior facing E (left = N), hole facing W (left = S)', f.node.lineno, ok,
            'exteriors are followed anticlockwise and holes clockwise; ' + why)
    # corner offsets by direction
    pt = [n for n in f.own_nodes() if isinstance(n, ast.If) and T(n.test) == 'forward==-1' and {T(s) for s in n.body} == {'i+=1', 'j+=1'}]
    ok = False
    if pt:
        n = pt[0]
        e1 = n.orelse[0] if n.orelse and isinstance(n.orelse[0], ast.If) else None
        e2 = e1.orelse[0] if e1 is not None and e1.orelse and isinstance(e1.orelse[0], ast.If) else None
        ok = e1 is not None and T(e1.test) == 'forward==nx' and [T(s) for s in e1.body] == ['i+=1'] and \
            e2 is not None and T(e2.test) == 'forward==-nx' and [T(s) for s in e2.body] == ['j+=1']
    ok = ok and 'i=ij%nx' in t and 'j=ij//nx' in t and 'points[2*npoints]=i' in t and 'points[2*npoints+1]=j' in t
    rep.add('G4', f, entry, 'vertex = pixel corner by heading (E: (i,j), W: (i+1,j+1), N: (i+1,j), S: (i,j+1))', f.node.lineno, ok,
            'vertices lie on cell corners: x from the column index, y from the row index')
    ok = 'region=regions[ij]' in t and any(T(n) == 'return(region,points)' or T(n) == 'returnregion,points' for n in f.own_nodes() if isinstance(n, ast.Return))
    rep.add('G4', f, entry, 'returns (region of the start pixel, points)', f.node.lineno, ok, '')
    stop = [n for n in f.own_nodes() if isinstance(n, ast.If) and T(n.test) == 'ij==start_ijandforward==start_forward' and isinstance(n.body[0], ast.Break)]
    rep.add('G4', f, entry, 'boundary finished when back at the start pixel with the start heading', f.node.lineno, len(stop) == 1, '')


def check_misc(prog, rep, m):
    entry = 'polygonize'
    ic = m.funcs.get('_is_close')
    if ic is None:
        raise AnalysisIncomplete('_is_close not found')
    ifs = [n for n in ic.node.body if isinstance(n, ast.If)]
    ok = len(ifs) == 1 and T(ifs[0].test) == 'isinstance(reference,nb.types.Integer)andisinstance(value,nb.types.Integer)' and \
        T(ifs[0].body[0]) in ('returnlambdareference,value:value==reference', 'returnlambdareference,value:reference==value')
    rep.add('G6', ic, entry, 'integer rasters are matched with ==', ic.node.lineno, ok,
            'equal-value regions of integer rasters need exact equality (an equivalence relation)')
    tol = [n for n in ast.walk(ic.node) if isinstance(n, ast.Lambda) and 'abs(' in T(n)]
    ok = len(tol) == 1 and T(tol[0].body) == 'abs(value-reference)<=atol+rtol*abs(reference)'
    rep.add('G6', ic, entry, 'float tolerance |v - r| <= atol + rtol*|r|', ic.node.lineno, ok, '')
    pn = m.funcs.get('_polygonize_numpy')
    t = {T(s) for s in pn.own_nodes() if isinstance(s, ast.Assign)}
    ok = 'ny,nx=values.shape' in t and 'values=values.ravel()' in t and 'mask=mask.ravel()' in t
    rep.add('G7', pn, entry, 'ny, nx = values.shape; row-major flattening of values and mask', pn.node.lineno, ok,
            'the flat index ij = j*nx + i assumes row-major order with nx columns')
    one = [n for n in pn.own_nodes() if isinstance(n, ast.If) and T(n.test) == 'nx==1']
    ok = len(one) == 1 and {'nx=2', 'values=np.hstack((values,np.empty_like(values)))'} <= {T(s) for s in one[0].body} and \
        'mask=np.hstack((mask,np.zeros_like(mask)))' in {T(s) for s in ast.walk(one[0]) if isinstance(s, ast.Assign)} and \
        'mask[:,0]=True' in {T(s) for s in ast.walk(one[0]) if isinstance(s, ast.Assign)}
    rep.add('G7', pn, entry, 'single-column rasters padded with a masked-out column', pn.node.lineno, ok, '')
    pub = m.funcs.get('polygonize')
    t = {T(s) for s in pub.own_nodes() if isinstance(s, ast.Assign)}
    ok = 'connectivity_8=connectivity==8' in t and any(isinstance(n, ast.If) and T(n.test) == 'connectivitynotin(4,8)' for n in pub.own_nodes())
    rep.add('G7', pub, entry, 'connectivity validated; connectivity_8 = (connectivity == 8)', pub.node.lineno, ok, '')
    c = [x for x in calls(pub.node) if short(x) == '_polygonize_numpy']
    bound = {}
    if len(c) == 1:
        for p_, a_ in zip(pn.params, c[0].args):
            bound[p_] = T(a_)
        for k_ in c[0].keywords:
            bound[k_.arg] = T(k_.value)
    ok = len(c) == 1 and [bound.get(p_) for p_ in pn.params[:4]] == ['raster.data', 'mask_data', 'connectivity_8', 'transform']
    rep.add('G7', pub, entry, '_polygonize_numpy(raster.data, mask_data, connectivity_8, transform)', pub.node.lineno, ok, '')
    sc = [x for x in calls(pn.node) if short(x) == '_scan']
    ok = len(sc) == 1 and [T(a) for a in sc[0].args] == ['values', 'mask', 'connectivity_8', 'transform', 'nx', 'ny']
    rep.add('G7', pn, entry, '_scan(values, mask, connectivity_8, transform, nx, ny)', pn.node.lineno, ok, '')


def check(prog, rep):
    m = prog.modules.get('xrspatial.experimental.polygonize')
    if m is None:
        raise AnalysisIncomplete('experimental.polygonize not found')
    check_neighbours(prog, rep, m)
    check_scan(prog, rep, m)
    check_follow(prog, rep, m)
    check_misc(prog, rep, m)
    rep.floor('G1', 3)
    rep.floor('G2', 5)
    rep.floor('G3', 4)
    rep.floor('G4', 4)
    rep.floor('G5', 2)
