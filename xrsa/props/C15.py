"""C15 - polygonize is lossless  (partial: neighbour consistency, merge bookkeeping hooks, transform pass-through,
ring closure, corner offsets; merge-chain correctness, hole attribution and boundary following are declined).

G1 for each neighbour direction (W, S, SW, SE) the domain guard, the mask index, the value index and the region index
use the same flat offset and the guard matches the offset; G2 region bookkeeping: fresh ids counted with an overflow
check in a fixed unsigned dtype, two matching neighbours -> lower id kept and the pair merged, final lookup applied to
every pixel; G3 every ring returned by the boundary follower goes through the affine transform (when given) before it
is stored, on the exterior and the hole path, and the transform is the 6-parameter affine map computed from the OLD
coordinates; G4 rings are closed; start orientation constants and corner offsets of the follower; G5 the column value
is taken at the start cell and holes are attached to polygons[region-1]; G6 value matching is exact for integers;
G7 single-column workaround and argument validation.
"""
import ast

from ..astutil import calls, const, kw, parent_map, short
from ..kai import Arr, interpret
from ..kutil import Spec, show
from ..program import AnalysisIncomplete, Func, norm
from ..sym import App, Rat


def T(n):
    return norm(n).replace(' ', '').replace('\n', '')


def offsets_in(expr, arrays, var='ij'):
    """set of flat offsets (as normalised text after `ij`) used to index the given arrays inside expr"""
    out = {}
    for n in ast.walk(expr):
        if isinstance(n, ast.Subscript) and isinstance(n.value, ast.Name) and n.value.id in arrays:
            t = T(n.slice)
            if t == var:
                continue   # the pixel itself
            out.setdefault(n.value.id, set()).add(t)
    return out


GUARDS = {'ij-1': {'ij%nx>0'}, 'ij-nx': {'ij>=nx'}, 'ij-nx-1': {'ij%nx>0', 'ij>=nx'}, 'ij-nx+1': {'ij%nx<nx-1', 'ij>=nx'}}


def check_neighbours(prog, rep, m):
    f = m.funcs.get('_calculate_regions')
    if f is None:
        raise AnalysisIncomplete('_calculate_regions not found')
    entry = 'polygonize labelling'
    pm = parent_map(f.node)
    found = {}
    # expressions that decide a match: assignments to matches_X and `if (not matches_X and ...)` tests
    cands = []
    for n in f.own_nodes():
        if isinstance(n, ast.Assign) and isinstance(n.targets[0], ast.Name) and n.targets[0].id.startswith('matches_') \
                and isinstance(n.value, ast.BoolOp):
            cands.append((n.targets[0].id, n.value, n, None))
        if isinstance(n, ast.If) and isinstance(n.test, ast.BoolOp) and '_is_close' in T(n.test) and 'matches_' in T(n.test):
            which = [s.targets[0].id for s in n.body if isinstance(s, ast.Assign) and isinstance(s.targets[0], ast.Name)
                     and s.targets[0].id.startswith('matches_')]
            cands.append((which[0] if which else '?', n.test, n, n))
    for name, expr, node, ifnode in cands:
        offs = offsets_in(expr, {'mask', 'values'})
        allo = set().union(*offs.values()) if offs else set()
        site = '%s: %s' % (name, T(expr)[:110])
        if len(allo) != 1:
            rep.add('G1', f, entry, site, node.lineno, False, 'mask and value are read at different neighbours: %s' % offs)
            continue
        off = next(iter(allo))
        conj = {T(v) for v in expr.values} if isinstance(expr, ast.BoolOp) else set()
        # guards may also come from enclosing ifs
        enc = set()
        p = pm.get(node)
        while p is not None:
            if isinstance(p, ast.If):
                enc |= {T(v) for v in (p.test.values if isinstance(p.test, ast.BoolOp) else [p.test])}
            p = pm.get(p)
        need = GUARDS.get(off)
        okg = need is not None and need <= (conj | enc)
        okm = ('(maskisNoneormask[%s])' % off) in conj or ('maskisNoneormask[%s]' % off) in conj
        okv = any(c in ('_is_close(values[ij],values[%s])' % off, '_is_close(values[%s],values[ij])' % off) for c in conj)
        # region read with the same offset
        suffix = name.split('_')[-1]
        regs = []
        if ifnode is not None:
            regs = [T(s.value) for s in ifnode.body if isinstance(s, ast.Assign) and T(s.targets[0]) == 'region_' + suffix]
        else:
            for n2 in f.own_nodes():
                if isinstance(n2, ast.If) and T(n2.test) == name:
                    regs += [T(s.value) for s in n2.body if isinstance(s, ast.Assign) and T(s.targets[0]) == 'region_' + suffix]
        okr = regs == ['regions[%s]' % off]
        found[off] = True
        rep.add('G1', f, entry, site, node.lineno, okg and okm and okv and okr,
                'neighbour at flat offset %s: domain guard %s (%s), mask read at the same offset (%s), value compared at the '
                'same offset (%s), region id read at the same offset (%s, found %s)' % (off, sorted(need or []), okg, okm, okv, okr, regs))
    rep.add('G1', f, entry, 'neighbour directions %s' % sorted(found), f.node.lineno,
            set(found) == {'ij-1', 'ij-nx', 'ij-nx-1', 'ij-nx+1'}, 'W, S and (8-connectivity) SW, SE neighbours must be examined')
    # SW/SE only under connectivity_8 and only when the axis neighbour did not match
    c8 = [n for n in f.own_nodes() if isinstance(n, ast.If) and T(n.test) == 'connectivity_8andij>=nx']
    ok = len(c8) == 1 and all(any(T(v).startswith('notmatches_') for v in i.test.values) for i in c8[0].body if isinstance(i, ast.If))
    rep.add('G1', f, entry, 'diagonal neighbours only with 8-connectivity', f.node.lineno, ok, '')
    # ---- G2 bookkeeping
    t = {T(s) for s in f.own_nodes() if isinstance(s, (ast.Assign, ast.AugAssign))}
    ok = 'regions=np.zeros_like(values,dtype=_regions_dtype)' in t and 'max_region=np.iinfo(_regions_dtype).max' in t
    dt = m.assigns.get('_regions_dtype', [])
    okdt = len(dt) == 1 and T(dt[0]) in ('np.uint32', 'np.uint64', 'np.int64')
    rep.add('G2', f, entry, 'region ids in fixed dtype %s with overflow bound' % (T(dt[0]) if dt else None), f.node.lineno, ok and okdt,
            'the region counter must live in a fixed wide integer dtype, independent of the raster dtype')
    ovf = [n for n in f.own_nodes() if isinstance(n, ast.If) and T(n.test) == 'region==max_region' and any(isinstance(x, ast.Raise) for x in n.body)]
    ok = len(ovf) == 1 and 'region+=1' in t and 'regions[ij]=region' in t and 'region=0' in t
    rep.add('G2', f, entry, 'fresh id: overflow check, region += 1, regions[ij] = region', f.node.lineno, ok,
            'a pixel with no matching neighbour starts a new region; running out of ids must raise, not wrap')
    ok = 'lower_region,upper_region=_min_and_max(region_W,region_S)' in t and 'regions[ij]=lower_region' in t and \
        'region_lookup=_merge_regions(region_lookup,lower_region,upper_region)' in t and \
        any(isinstance(n, ast.If) and T(n.test) == 'lower_region!=upper_region' for n in f.own_nodes()) and \
        any(isinstance(n, ast.If) and T(n.test) == 'matches_Wandmatches_S' for n in f.own_nodes())
    rep.add('G2', f, entry, 'two matching neighbours: keep the lower id and merge the pair', f.node.lineno, ok, '')
    ok = 'regions[ij]=region_W' in t and 'regions[ij]=region_S' in t and 'regions[ij]=0' in t
    rep.add('G2', f, entry, 'single matching neighbour copies its id; masked pixels are region 0', f.node.lineno, ok, '')
    ok = 'regions[ij]=region_lookup[regions[ij]]' in t and 'new_region_lookup[i]=new_region_lookup[target]' in t and \
        'new_region_lookup[i]=new_region' in t
    rep.add('G2', f, entry, 'final lookup applied to every pixel', f.node.lineno, ok, '')
    mm = m.funcs.get('_min_and_max')
    if mm is not None:
        k = interpret(prog, mm)
        ok = len(k.returns) == 2
        rep.add('G2', mm, entry, '_min_and_max returns (min, max)', mm.node.lineno,
                ok and T(mm.node.body[0].test) == 'value0<value1' and T(mm.node.body[0].body[0]) in ('return(value0,value1)', 'returnvalue0,value1')
                and T(mm.node.body[0].orelse[0]) in ('return(value1,value0)', 'returnvalue1,value0'), '')


def check_scan(prog, rep, m):
    f = m.funcs.get('_scan')
    if f is None:
        raise AnalysisIncomplete('_scan not found')
    entry = 'polygonize scan'
    follows = [n for n in f.own_nodes() if isinstance(n, ast.Assign) and isinstance(n.value, ast.Call) and short(n.value) == '_follow']
    pm = parent_map(f.node)
    # the start-pixel scan looks at every pixel: holes (also holes of masked cells, which start no region) are found
    # on the N side of ANY pixel, so the scan may not stop when the last region's start pixel has been seen
    scans = [n for n in f.own_nodes() if isinstance(n, ast.For) and any(x in follows for x in ast.walk(n))]
    for lp in scans:
        it = T(lp.iter)
        full = it in ('range(nx*ny)', 'range(0,nx*ny)', 'range(ny*nx)', 'range(len(regions))', 'range(regions.size)', 'range(regions.shape[0])')
        exits = [x for x in ast.walk(lp) if isinstance(x, (ast.Break, ast.Return))]
        rep.add('G5', f, entry, 'start-pixel scan: for %s in %s, %d early exits' % (T(lp.target), norm(lp.iter), len(exits)), lp.lineno,
                full and not exits, 'every pixel must be examined as a possible start of an exterior or of a hole: an early exit '
                '(e.g. once all regions have their exterior) loses holes that lie later in scan order, such as holes made of masked cells')
    for n in follows:
        blk = None
        p = pm.get(n)
        for fld in ('body', 'orelse'):
            if n in getattr(p, fld, []):
                blk = getattr(p, fld)
        i = blk.index(n)
        pts = T(n.targets[0].elts[1]) if isinstance(n.targets[0], ast.Tuple) else None
        nxt = blk[i + 1] if i + 1 < len(blk) else None
        ok = isinstance(nxt, ast.If) and T(nxt.test) == 'transformisnotNone' and \
            [T(s) for s in nxt.body] == ['_transform_points(%s,transform)' % pts] and not nxt.orelse
        # and the points are stored only after that
        later = [T(s) for s in blk[i + 2:]]
        stored = any(('[%s]' % pts) in s or ('(%s)' % pts) in s for s in later)
        before = any(('[%s]' % pts) in T(s) or ('append(%s)' % pts) in T(s) for s in blk[:i + 1])
        hole = T(n.value.args[-1])
        rep.add('G3', f, entry, '%s ring: %s' % ('hole' if hole == 'True' else 'exterior', T(n)[:80]), n.lineno,
                ok and stored and not before,
                'every ring must pass through the affine transform (when one is given) before it is appended')
    rep.add('G3', f, entry, '%d boundary-follower call sites' % len(follows), f.node.lineno, len(follows) == 2 and
            sorted(T(n.value.args[-1]) for n in follows) == ['False', 'True'], 'one exterior and one hole site')
    t = {T(s) for s in f.own_nodes() if isinstance(s, (ast.Expr, ast.Assign))}
    ok = 'column.append(values[ij])' in t and 'polygons.append([points])' in t and 'polygons[region-1].append(points)' in t and 'region_done=region' in t
    rep.add('G5', f, entry, 'column value from the start cell; hole attached to polygons[region-1]', f.node.lineno, ok,
            'the polygon\'s value is the value of its start pixel and a hole belongs to the polygon of its region')
    NP = lambda n: T(n).replace('(', '').replace(')', '')   # noqa
    ex = [n for n in f.own_nodes() if isinstance(n, ast.If) and NP(n.test) == 'notvisited[ij]&1andregions[ij]==region_done+1']
    ho = [n for n in f.own_nodes() if isinstance(n, ast.If) and NP(n.test) == 'ij>=nxandnotvisited[ij]&2andregions[ij]!=regions[ij-nx]andregions[ij-nx]!=0']
    rep.add('G5', f, entry, 'exterior / hole start conditions', f.node.lineno, len(ex) == 1 and len(ho) == 1,
            'an exterior starts at the first unvisited pixel of the next region; a hole starts where the pixel below belongs '
            'to another non-masked region')
    args = {T(n.value.args[4]) + ',' + T(n.value.args[5]) for n in follows}
    rep.add('G5', f, entry, 'follower start cells %s' % sorted(args), f.node.lineno, args == {'ij,False', 'ij-nx,True'}, '')
    # transform
    tp = m.funcs.get('_transform_points')
    if tp is None:
        raise AnalysisIncomplete('_transform_points not found')
    k = interpret(prog, tp)
    pts, tr = tp.params[:2]
    ok = False
    st = [s for s in k.stores if s.idx != 'all']
    if len(st) == 2:
        i = st[0].idx[0]
        rd = lambda a, *ix: Rat.atom(App('read', [a] + list(ix)))   # noqa
        c = lambda n: Rat.const(n)   # noqa
        wx = rd(tr, c(0)) * rd(pts, i, c(0)) + rd(tr, c(1)) * rd(pts, i, c(1)) + rd(tr, c(2))
        wy = rd(tr, c(3)) * rd(pts, i, c(0)) + rd(tr, c(4)) * rd(pts, i, c(1)) + rd(tr, c(5))
        by = {repr(s.idx[1]): s.value for s in st}
        ok = by.get('0') == wx and by.get('1') == wy
    rep.add('G3', tp, entry, 'affine map x = a*x + b*y + c, y = d*x + e*y + f from the OLD coordinates', tp.node.lineno, ok,
            'both new coordinates must be computed from the point\'s original (x, y) before either is overwritten; got %s'
            % [show(s.value, 100) for s in st])
    lp = [l for l in k.loops]
    rep.add('G3', tp, entry, 'every vertex transformed', tp.node.lineno, len(lp) == 1 and lp[0].lo == Rat.const(0) and
            repr(lp[0].hi) in ("shape('%s', 0)" % pts, "len(arr('%s'))" % pts, "len(%s)" % pts), 'loop over all points')


def check_follow(prog, rep, m):
    f = m.funcs.get('_follow')
    if f is None:
        raise AnalysisIncomplete('_follow not found')
    entry = 'polygonize follower'
    t = [T(s) for s in f.own_nodes() if isinstance(s, (ast.Assign, ast.AugAssign))]
    ok = 'points[-1]=points[0]' in t and 'points=points.reshape((-1,2))' in t and 'points=np.empty(2*(npoints+1))' in t
    rep.add('G4', f, entry, 'ring closed: points[-1] = points[0] (one extra point allocated)', f.node.lineno, ok,
            'the last vertex of every ring must repeat the first')
    hole_if = [n for n in f.own_nodes() if isinstance(n, ast.If) and T(n.test) == 'hole']
    ok = len(hole_if) >= 1 and {T(s) for s in hole_if[0].body} == {'forward=-1', 'left=-nx'} and {T(s) for s in hole_if[0].orelse} == {'forward=1', 'left=nx'}
    rep.add('G4', f, entry, 'start orientation: exterior facing E (left = N), hole facing W (left = S)', f.node.lineno, ok,
            'exteriors are followed anticlockwise and holes clockwise')
    # corner offsets by direction
    pt = [n for n in f.own_nodes() if isinstance(n, ast.If) and T(n.test) == 'forward==-1' and {T(s) for s in n.body} == {'i+=1', 'j+=1'}]
    ok = False
    if pt:
        n = pt[0]
        e1 = n.orelse[0] if n.orelse and isinstance(n.orelse[0], ast.If) else None
        e2 = e1.orelse[0] if e1 is not None and e1.orelse and isinstance(e1.orelse[0], ast.If) else None
        ok = e1 is not None and T(e1.test) == 'forward==nx' and [T(s) for s in e1.body] == ['i+=1'] and \
            e2 is not None and T(e2.test) == 'forward==-nx' and [T(s) for s in e2.body] == ['j+=1']
    ok = ok and 'i=ij%nx' in t and 'j=ij//nx' in t and 'points[2*npoints]=i' in t and 'points[2*npoints+1]=j' in t
    rep.add('G4', f, entry, 'vertex = pixel corner by heading (E: (i,j), W: (i+1,j+1), N: (i+1,j), S: (i,j+1))', f.node.lineno, ok,
            'vertices lie on cell corners: x from the column index, y from the row index')
    ok = 'region=regions[ij]' in t and any(T(n) == 'return(region,points)' or T(n) == 'returnregion,points' for n in f.own_nodes() if isinstance(n, ast.Return))
    rep.add('G4', f, entry, 'returns (region of the start pixel, points)', f.node.lineno, ok, '')
    stop = [n for n in f.own_nodes() if isinstance(n, ast.If) and T(n.test) == 'ij==start_ijandforward==start_forward' and isinstance(n.body[0], ast.Break)]
    rep.add('G4', f, entry, 'boundary finished when back at the start pixel with the start heading', f.node.lineno, len(stop) == 1, '')


def check_misc(prog, rep, m):
    entry = 'polygonize'
    ic = m.funcs.get('_is_close')
    if ic is None:
        raise AnalysisIncomplete('_is_close not found')
    ifs = [n for n in ic.node.body if isinstance(n, ast.If)]
    ok = len(ifs) == 1 and T(ifs[0].test) == 'isinstance(reference,nb.types.Integer)andisinstance(value,nb.types.Integer)' and \
        T(ifs[0].body[0]) in ('returnlambdareference,value:value==reference', 'returnlambdareference,value:reference==value')
    rep.add('G6', ic, entry, 'integer rasters are matched with ==', ic.node.lineno, ok,
            'equal-value regions of integer rasters need exact equality (an equivalence relation)')
    tol = [n for n in ast.walk(ic.node) if isinstance(n, ast.Lambda) and 'abs(' in T(n)]
    ok = len(tol) == 1 and T(tol[0].body) == 'abs(value-reference)<=atol+rtol*abs(reference)'
    rep.add('G6', ic, entry, 'float tolerance |v - r| <= atol + rtol*|r|', ic.node.lineno, ok, '')
    pn = m.funcs.get('_polygonize_numpy')
    t = {T(s) for s in pn.own_nodes() if isinstance(s, ast.Assign)}
    ok = 'ny,nx=values.shape' in t and 'values=values.ravel()' in t and 'mask=mask.ravel()' in t
    rep.add('G7', pn, entry, 'ny, nx = values.shape; row-major flattening of values and mask', pn.node.lineno, ok,
            'the flat index ij = j*nx + i assumes row-major order with nx columns')
    one = [n for n in pn.own_nodes() if isinstance(n, ast.If) and T(n.test) == 'nx==1']
    ok = len(one) == 1 and {'nx=2', 'values=np.hstack((values,np.empty_like(values)))'} <= {T(s) for s in one[0].body} and \
        'mask=np.hstack((mask,np.zeros_like(mask)))' in {T(s) for s in ast.walk(one[0]) if isinstance(s, ast.Assign)} and \
        'mask[:,0]=True' in {T(s) for s in ast.walk(one[0]) if isinstance(s, ast.Assign)}
    rep.add('G7', pn, entry, 'single-column rasters padded with a masked-out column', pn.node.lineno, ok, '')
    pub = m.funcs.get('polygonize')
    t = {T(s) for s in pub.own_nodes() if isinstance(s, ast.Assign)}
    ok = 'connectivity_8=connectivity==8' in t and any(isinstance(n, ast.If) and T(n.test) == 'connectivitynotin(4,8)' for n in pub.own_nodes())
    rep.add('G7', pub, entry, 'connectivity validated; connectivity_8 = (connectivity == 8)', pub.node.lineno, ok, '')
    c = [x for x in calls(pub.node) if short(x) == '_polygonize_numpy']
    ok = len(c) == 1 and [T(a) for a in c[0].args] == ['raster.data', 'mask_data', 'connectivity_8', 'transform']
    rep.add('G7', pub, entry, '_polygonize_numpy(raster.data, mask_data, connectivity_8, transform)', pub.node.lineno, ok, '')
    sc = [x for x in calls(pn.node) if short(x) == '_scan']
    ok = len(sc) == 1 and [T(a) for a in sc[0].args] == ['values', 'mask', 'connectivity_8', 'transform', 'nx', 'ny']
    rep.add('G7', pn, entry, '_scan(values, mask, connectivity_8, transform, nx, ny)', pn.node.lineno, ok, '')


def check(prog, rep):
    m = prog.modules.get('xrspatial.experimental.polygonize')
    if m is None:
        raise AnalysisIncomplete('experimental.polygonize not found')
    check_neighbours(prog, rep, m)
    check_scan(prog, rep, m)
    check_follow(prog, rep, m)
    check_misc(prog, rep, m)
    rep.floor('G1', 5)
    rep.floor('G2', 5)
    rep.floor('G3', 4)
    rep.floor('G4', 4)
    rep.floor('G5', 2)
