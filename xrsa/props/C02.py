"""C02 - zonal statistics summarise exactly the valid cells of each zone (numpy path).

Premises of the segment argument (DESIGN §4 C02), decided on the functions reachable from zonal.stats:
Z1 cursor advanced every iteration, Z2 ascending 'zone' labels, Z3 validity mask (isfinite & != nodata) at every
reducer, Z4 finite zone ids, Z4b one index space for offsets/values/permutation, Z5 NaN for empty zones,
ZS stride routine skeleton, ZT default statistic table.
"""
from .. import zonalrules as Z


def check(prog, rep):
    m, pub, fs = Z.zonal_funcs(prog, 'stats')
    entry = lambda f: 'stats'   # noqa
    numpy_side = [f for f in fs if 'dask' not in f.qualname]
    Z.check_cursors(rep, numpy_side, 'C02', entry)
    Z.check_zone_labels(prog, rep, [f for f in fs if f.name in ('_stats_numpy',)], entry)
    Z.check_validity(prog, rep, numpy_side, entry)
    Z.check_unique_zones(prog, rep, fs, entry)
    Z.check_index_space(prog, rep, fs, entry)
    Z.check_nan_results(prog, rep, fs, entry)
    Z.check_flatten_order(prog, rep, fs, entry)
    Z.check_positional_id_use(prog, rep, fs, entry)
    Z.check_strides(prog, rep, m, 'stats')
    Z.check_default_stats(prog, rep, m, 'stats')
    check_scatter(prog, rep, m)
    # the statement is backend-neutral: the dask tables of zonal.stats must realise the same statistics
    Z.check_dask_tables(prog, rep, m, 'stats[dask]')
    Z.check_derived_stats(prog, rep, m, fs, 'stats[dask]')
    Z.check_global_ids(prog, rep, m, 'stats[dask]')
    rep.floor('Z1', 1)
    rep.floor('Z2', 1)
    rep.floor('Z3', 1)
    rep.floor('Z4', 2)
    rep.floor('Z4b', 1)
    rep.floor('Z5', 1)
    rep.floor('ZT', 7)


def check_scatter(prog, rep, m):
    """return_type='xarray.DataArray': cells of zone iz are sorted_indices[breaks[iz-1] or 0 : breaks[iz]]"""
    import ast
    from ..program import norm
    f = m.funcs.get('_stats_numpy')
    if f is None:
        return
    ok0 = ok1 = init = False
    for n in f.own_nodes():
        if isinstance(n, ast.Assign) and norm(n.targets[0]) == 'zs':
            t = norm(n.value).replace(' ', '')
            if t == 'sorted_indices[:zone_breaks[iz]]':
                ok0 = True
            if t == 'sorted_indices[zone_breaks[iz-1]:zone_breaks[iz]]':
                ok1 = True
        if isinstance(n, ast.Assign) and norm(n.targets[0]) == 'result' and isinstance(n.value, ast.Call) and \
                norm(n.value.func) == 'np.full' and len(n.value.args) == 2 and norm(n.value.args[1]) == 'np.nan':
            init = True
    rep.add('Z-scatter', f, 'stats', 'raster output: zs = sorted_indices[breaks[iz-1]:breaks[iz]]', f.node.lineno,
            ok0 and ok1 and init,
            'the cells of zone iz are the permutation entries between its break and the previous one (0 for the first '
            'zone), and every other cell stays NaN (NaN-initialised result)')
