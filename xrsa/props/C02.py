"""C02 - zonal statistics summarise exactly the valid cells of each zone (numpy path).

Premises of the segment argument (DESIGN §4 C02), decided on the functions reachable from zonal.stats:
Z1 cursor advanced every iteration, Z2 ascending 'zone' labels, Z3 validity mask (isfinite & != nodata) at every
reducer, Z4 finite zone ids, Z4b one index space for offsets/values/permutation, Z5 NaN for empty zones,
ZS stride routine skeleton, ZT default statistic table.
"""
from .. import zonalrules as Z


def check(prog, rep):
    m, pub, fs = Z.zonal_funcs(prog, 'stats')
    entry = lambda f: 'stats'   # noqa
    numpy_side = [f for f in fs if 'dask' not in f.qualname]
    Z.check_cursors(rep, numpy_side, 'C02', entry, prog=prog)
    Z.check_zone_labels(prog, rep, [f for f in fs if f.name in ('_stats_numpy',)], entry)
    Z.check_validity(prog, rep, numpy_side, entry)
    Z.check_unique_zones(prog, rep, fs, entry)
    Z.check_index_space(prog, rep, fs, entry)
    Z.check_nan_results(prog, rep, fs, entry)
    Z.check_flatten_order(prog, rep, fs, entry)
    Z.check_positional_id_use(prog, rep, fs, entry)
    Z.check_strides(prog, rep, m, 'stats')
    Z.check_default_stats(prog, rep, m, 'stats')
    check_scatter(prog, rep, m)
    # the statement is backend-neutral: the dask tables of zonal.stats must realise the same statistics
    Z.check_dask_tables(prog, rep, m, 'stats[dask]')
    Z.check_derived_stats(prog, rep, m, fs, 'stats[dask]')
    Z.check_global_ids(prog, rep, m, 'stats[dask]')
    Z.check_alignment(prog, rep, m, 'stats', 'stats[dask]')       # the blocks that are paired are the aligned ones
    rep.floor('Z1', 1)
    rep.floor('Z2', 1)
    rep.floor('Z3', 1)
    rep.floor('Z4', 2)
    rep.floor('Z4b', 1)
    rep.floor('Z5', 1)
    rep.floor('ZT', 7)


def check_scatter(prog, rep, m):
    """return_type='xarray.DataArray': cells of zone iz are sorted_indices[breaks[iz-1] or 0 : breaks[iz]] - the slice
    bounds are evaluated (if/else or conditional expression alike) for the first and for a later zone"""
    import ast
    from fractions import Fraction
    from ..kai import Arr, Interp, View
    from ..kutil import CannotEvaluate, evaluate
    from ..program import AnalysisIncomplete, norm
    from ..sym import App, Rat, Sym, subst, walk_atoms
    f = m.funcs.get('_stats_numpy')
    if f is None:
        return
    init = False
    for n in f.own_nodes():
        if isinstance(n, ast.Assign) and isinstance(n.value, ast.Call) and norm(n.value.func) in ('np.full', 'numpy.full') and \
                len(n.value.args) == 2 and norm(n.value.args[1]) in ('np.nan', 'numpy.nan'):
            init = True
    loops = [n for n in f.own_nodes() if isinstance(n, ast.For) and any(
        isinstance(x, ast.Assign) and norm(x.targets[0]) == 'zs' for x in ast.walk(n)) and not any(
        isinstance(y, ast.For) and any(isinstance(x, ast.Assign) and norm(x.targets[0]) == 'zs' for x in ast.walk(y)) for y in n.body)]
    ok = None
    why = 'loop assigning the zone\'s cells not found'
    if len(loops) == 1:
        it = Interp(prog, f, {}, strict=False)
        it.env.update({'sorted_indices': Arr('sorted_indices', 'param'), 'zone_breaks': Arr('zone_breaks', 'param'),
                       'iz': Rat.sym('iz')})
        it.k.arrays.update({'sorted_indices': it.env['sorted_indices'], 'zone_breaks': it.env['zone_breaks']})
        # tables derived from the break vector before the loop (e.g. a vector of segment starts)
        pre = [n for n in f.own_nodes() if isinstance(n, ast.Assign) and isinstance(n.targets[0], ast.Name) and
               n.lineno < loops[0].lineno and 'zone_breaks' in norm(n.value) and norm(n.targets[0]) not in ('zone_breaks', 'sorted_indices')
               and not any(isinstance(x, ast.Call) and norm(x.func).split('.')[-1] in ('_sort_and_stride', '_strides') for x in ast.walk(n.value))]

        def run_pre(itp):
            for n in pre:
                try:
                    itp.stmt(n)
                except AnalysisIncomplete:
                    pass
        run_pre(it)
        try:
            for st in loops[0].body:
                if isinstance(st, ast.Assign) and norm(st.targets[0]) == 'iz':
                    continue
                try:
                    it.stmt(st)
                except AnalysisIncomplete:
                    if any(isinstance(x, ast.Assign) and norm(x.targets[0]) == 'zs' for x in ast.walk(st)):
                        raise
                if 'zs' in it.env:
                    break
            zs = it.env.get('zs')
            res = []
            views = []
            if isinstance(zs, View) and not any(isinstance(a, App) and a.name == 'opaque' for b_ in zs.axes[0][1:] if isinstance(b_, Rat)
                                                for a in walk_atoms(b_)):
                views = [(None, zs)]
            elif isinstance(zs, Rat):
                # merged branches: ite(cond, view_a, view_b) is kept as opaque views - evaluate each branch instead
                views = []
            if not views:
                # evaluate per concrete zone index by re-running with iz bound to a number
                for izv in (0, 3):
                    it2 = Interp(prog, f, {}, strict=False)
                    it2.env.update({'sorted_indices': Arr('sorted_indices', 'param'), 'zone_breaks': Arr('zone_breaks', 'param'),
                                    'iz': Rat.const(izv)})
                    it2.k.arrays.update({'sorted_indices': it2.env['sorted_indices'], 'zone_breaks': it2.env['zone_breaks']})
                    run_pre(it2)
                    for st in loops[0].body:
                        if isinstance(st, ast.Assign) and norm(st.targets[0]) == 'iz':
                            continue
                        try:
                            it2.stmt(st)
                        except AnalysisIncomplete:
                            if any(isinstance(x, ast.Assign) and norm(x.targets[0]) == 'zs' for x in ast.walk(st)):
                                raise
                        if 'zs' in it2.env:
                            break
                    views.append((izv, it2.env.get('zs')))
            else:
                views = [(0, zs), (3, zs)]
            for izv, v in views:
                if not isinstance(v, View) or v.arr.name != 'sorted_indices' or len(v.axes) != 1 or v.axes[0][0] != 'slice':
                    raise CannotEvaluate('zs is not a slice of sorted_indices: %r' % (v,))
                lo, hi = v.axes[0][1], v.axes[0][2]
                env = {}

                def val(x):
                    if x is None:
                        return None
                    x = subst(x, lambda a: Rat.const(izv) if a == Sym('iz') else None)
                    for a in walk_atoms(x):
                        if isinstance(a, App) and a.name in ('read', 'cell?') and a.args[0] == 'zone_breaks':
                            i = evaluate(a.args[1], {})
                            env[a] = Fraction({0: 5, 2: 20, 3: 30}.get(int(i), 99))
                    return evaluate(x, env)
                res.append((izv, val(lo), val(hi)))
            ok = res == [(0, None, 5), (3, 20, 30)] or res == [(0, 0, 5), (3, 20, 30)]
            why = 'slice for zone 0 and zone 3 (breaks 5, ., 20, 30): %s' % res
        except (AnalysisIncomplete, CannotEvaluate) as e:
            ok, why = None, str(e)
    rep.add('Z-scatter', f, 'stats', 'raster output: zs = sorted_indices[breaks[iz-1]:breaks[iz]]', f.node.lineno,
            (ok and init) if ok is not None else None,
            'the cells of zone iz are the permutation entries between its break and the previous one (0 for the first '
            'zone), and every other cell stays NaN (NaN-initialised result: %s); %s' % (init, why))
