"""C02 - zonal statistics summarise exactly the valid cells of each zone (numpy path).

Premises of the segment argument (DESIGN §4 C02), decided on the functions reachable from zonal.stats:
Z1 cursor advanced every iteration, Z2 ascending 'zone' labels, Z3 validity mask (isfinite & != nodata) at every
reducer, Z4 finite zone ids, Z4b one index space for offsets/values/permutation, Z5 NaN for empty zones,
ZS stride routine skeleton, ZT default statistic table.
"""
import os
from .. import zonalrules as Z


def check(prog, rep):
    m, pub, fs = Z.zonal_funcs(prog, 'stats')
    entry = lambda f: 'stats'   # noqa
    numpy_side = [f for f in fs if 'dask' not in f.qualname]
    Z.check_cursors(rep, numpy_side, 'C02', entry, prog=prog)
    Z.check_zone_labels(prog, rep, [f for f in fs if f.name in ('_stats_numpy',)], entry)
    Z.check_validity(prog, rep, numpy_side, entry)
    Z.check_selection(prog, rep, fs, entry, 'zone_ids')
    Z.check_unique_zones(prog, rep, fs, entry)
    Z.check_index_space(prog, rep, fs, entry)
    Z.check_nan_results(prog, rep, fs, entry)
    Z.check_flatten_order(prog, rep, fs, entry)
    Z.check_positional_id_use(prog, rep, fs, entry)
    Z.check_strides(prog, rep, m, 'stats')
    Z.check_default_stats(prog, rep, m, 'stats')
    Z.check_user_reducers(prog, rep, m, 'stats')
    rep.floor('ZT-user', 1)
    check_scatter(prog, rep, m)
    # the statement is backend-neutral: the dask tables of zonal.stats must realise the same statistics
    Z.check_dask_tables(prog, rep, m, 'stats[dask]')
    Z.check_derived_stats(prog, rep, m, fs, 'stats[dask]')
    Z.check_global_ids(prog, rep, m, 'stats[dask]')
    Z.check_alignment(prog, rep, m, 'stats', 'stats[dask]')       # the blocks that are paired are the aligned ones
    from ..sharedrules import check_values_keep_dtype, check_value_truthiness
    check_values_keep_dtype(prog, rep, 'Z3-dtype', pub, 'stats')
    check_value_truthiness(prog, rep, 'Z3-truth', pub, 'stats')
    rep.floor('Z3-truth', 1)
    rep.floor('Z3-dtype', 1)
    rep.floor('Z1', 1)
    rep.floor('Z2', 1)
    rep.floor('Z3', 1)
    rep.floor('Z4', 2)
    rep.floor('Z4b', 1)
    rep.floor('Z5', 1)
    rep.floor('ZT', 7)


def check_scatter(prog, rep, m):
    """return_type='xarray.DataArray': the cells written with row J of the per-zone results are
    sorted_indices[breaks[J-1] (0 for the first zone) : breaks[J]].  Decided on the interpretation of the innermost loop
    that stores through a slice of the permutation: either the slice bounds are evaluated for J = 0 and J = 3 (if/else,
    conditional expression, a table of starts), or the lower bound is a cursor carried from one zone to the next (starts at
    0, becomes the zone's break, the loop visits every zone in order)."""
    import ast
    from fractions import Fraction
    from ..kai import Arr, Interp, View
    from ..kutil import CannotEvaluate, evaluate, value_cases
    from ..program import AnalysisIncomplete, Func, norm
    from ..sym import App, Rat, Sym, subst, walk_atoms
    f = m.funcs.get('_stats_numpy')
    if f is None:
        return
    # the scatter loop may live in a helper that is handed the permutation and the breaks: read in place
    from ..inline import inline_view
    f = inline_view(prog, f, keep=('_sort_and_stride', '_calc_stats', '_strides'), allow_loops=True)
    init = False
    # the permutation and the break vector: first and last component of what the sort-and-stride routine returns
    P = B = None
    for n in f.own_nodes():
        if isinstance(n, ast.Assign) and isinstance(n.targets[0], ast.Tuple) and len(n.targets[0].elts) == 3 and isinstance(n.value, ast.Call) and \
                all(isinstance(x, ast.Name) for x in n.targets[0].elts):
            t = prog.resolve_callable(f, m, n.value.func)
            if isinstance(t, Func) and t.name == '_sort_and_stride':
                P, B = n.targets[0].elts[0].id, n.targets[0].elts[2].id
    ok, why = None, 'loop storing through a slice of the permutation not found'
    if P is None:
        rep.add('Z-scatter', f, 'stats', 'raster output', f.node.lineno, None, 'the sort-and-stride call is not unpacked into (permutation, values, breaks)')
        return

    def slices_perm(n):
        return any(isinstance(x, ast.Subscript) and isinstance(x.value, ast.Name) and x.value.id == P and isinstance(x.slice, ast.Slice)
                   for x in ast.walk(n))
    loops = [n for n in f.own_nodes() if isinstance(n, ast.For) and slices_perm(n) and
             not any(isinstance(y, ast.For) and slices_perm(y) for b_ in n.body for y in ast.walk(b_))]
    site = 'raster output: cells of a zone = %s[%s[J-1]:%s[J]]' % (P, B, B)
    if len(loops) == 1:
        lp = loops[0]
        from ..astutil import nan_initialised, parent_map
        # the raster the loop scatters into holds NaN everywhere beforehand
        tg = set()
        for x in ast.walk(lp):
            if isinstance(x, ast.Subscript) and isinstance(x.ctx, ast.Store):
                b_ = x.value
                while isinstance(b_, ast.Subscript):
                    b_ = b_.value
                if isinstance(b_, ast.Name):
                    tg.add(b_.id)
        init = bool(tg) and all(nan_initialised(f.node, t_) for t_ in tg)
        pm = parent_map(f.node)

        def prepare():
            it = Interp(prog, f, {}, strict=False)
            it.index_arrays = True
            assigned = {x.id for x in ast.walk(lp) if isinstance(x, ast.Name) and isinstance(x.ctx, ast.Store)}
            free = {x.id for x in ast.walk(lp) if isinstance(x, ast.Name) and isinstance(x.ctx, ast.Load)} - assigned
            arrs = {x.value.id for x in ast.walk(lp) if isinstance(x, ast.Subscript) and isinstance(x.value, ast.Name)}
            arrs |= {y.id for x in ast.walk(lp) if isinstance(x, ast.Compare) and any(isinstance(o, (ast.In, ast.NotIn)) for o in x.ops)
                     for c_ in x.comparators for y in ast.walk(c_) if isinstance(y, ast.Name)}
            arrs |= {y.id for x in ast.walk(lp) if isinstance(x, ast.For) for y in ast.walk(x.iter) if isinstance(y, ast.Name)}
            builtin = ('np', 'numpy', 'range', 'len', 'enumerate', 'zip', 'int', 'float', 'list', 'tuple', 'reversed', 'sorted')
            for nm in sorted((free | {P, B}) - set(builtin)):
                if nm in arrs or nm in (P, B):
                    it.env[nm] = Arr(nm, 'param')
                    it.k.arrays[nm] = it.env[nm]
                else:
                    it.env[nm] = Rat.sym(nm)
            # statements of the enclosing blocks before the loop that set up cursors (constants) or tables of the breaks
            blk, cur = None, lp
            pres = []
            while cur is not None and cur is not f.node:
                par = pm.get(cur)
                for fld in ('body', 'orelse'):
                    b_ = getattr(par, fld, None)
                    if isinstance(b_, list) and cur in b_:
                        pres = [s_ for s_ in b_[:b_.index(cur)] if isinstance(s_, ast.Assign)] + pres
                cur = par
            for s_ in pres:
                if isinstance(s_.targets[0], ast.Name) and s_.targets[0].id not in (P, B) and (
                        isinstance(s_.value, ast.Constant) or (B in norm(s_.value) and not any(
                            isinstance(x, ast.Call) and isinstance(prog.resolve_callable(f, m, x.func), Func) for x in ast.walk(s_.value)))):
                    try:
                        it.stmt(s_)
                        if isinstance(it.env.get(s_.targets[0].id), Arr):
                            it.k.arrays[it.env[s_.targets[0].id].name] = it.env[s_.targets[0].id]
                    except AnalysisIncomplete:
                        pass
            return it

        def views_of(x):
            """[(conds, (lo, hi))] of the slices of P that x denotes (a view, or a choice between views)"""
            if isinstance(x, View):
                if x.arr.name == P and len(x.axes) == 1 and x.axes[0][0] == 'slice':
                    return [([], (x.axes[0][1], x.axes[0][2]))]
                return None
            if isinstance(x, Rat):
                out = []
                for conds, leaf in value_cases(x):
                    a = None
                    if isinstance(leaf, Rat) and leaf.d.is_const() and len(leaf.n.t) == 1:
                        (mm, c_), = leaf.n.t.items()
                        a = mm[0][0] if len(mm) == 1 else None
                    if isinstance(a, App) and a.name == 'view' and a.args[0] == P and len(a.args[1]) == 1 and a.args[1][0][0] == 'slice':
                        out.append((conds, (a.args[1][0][1], a.args[1][0][2])))
                    else:
                        return None
                return out
            return None
        try:
            it = prepare()
            it.stmt(lp)
            sts = []
            for st in it.k.stores:
                if isinstance(st.idx, str):
                    continue
                for ix in st.idx:
                    v = views_of(ix)
                    if v:
                        sts.append((st, v))
            if len(sts) != 1:
                raise CannotEvaluate('%d stores through a slice of %s' % (len(sts), P))
            st, vws = sts[0]
            # the row of the per-zone results that is written: value = results[J]
            J = None
            if isinstance(st.value, Rat) and st.value.d.is_const() and len(st.value.n.t) == 1:
                (mm, c_), = st.value.n.t.items()
                a = mm[0][0] if len(mm) == 1 else None
                if isinstance(a, App) and a.name in ('read', 'cell?', 'getitem') and len(a.args) >= 2 and isinstance(a.args[-1], Rat) and a.args[0] not in (P, B):
                    J = a.args[-1]
            if J is None:
                raise CannotEvaluate('the result row written through the slice is not identified: %r' % (st.value,))
            Ls = [L for L in it.k.loops if L.kind == 'range' and Rat.sym(L.var) == J]
            carried = {}
            if Ls:
                carried = {repr(phi): (nm_, Ls[0].pre.get(nm_), post) for nm_, (phi, post) in getattr(Ls[0], 'carried', {}).items()}

            def nonebound(x):
                a = None
                if isinstance(x, Rat) and x.d.is_const() and len(x.n.t) == 1:
                    (mm, c_), = x.n.t.items()
                    a = mm[0][0] if len(mm) == 1 else None
                return isinstance(a, App) and a.name == 'none'
            res = []
            cursor = None
            jnames = [nm_ for nm_, v_ in it.env.items() if isinstance(v_, Rat) and v_ == J and not nm_.startswith('__')]

            def rerun(izv):
                """the slices of the store with the zone position fixed to a number (tables of the breaks are then read at
                a known position)"""
                it2 = prepare()
                for nm_ in jnames:
                    it2.env[nm_] = Rat.const(izv)
                for b_ in lp.body:
                    if isinstance(b_, ast.Assign) and isinstance(b_.targets[0], ast.Name) and b_.targets[0].id in jnames:
                        continue
                    it2.stmt(b_)
                out = []
                for st2 in it2.k.stores:
                    if isinstance(st2.idx, str):
                        continue
                    for ix in st2.idx:
                        v2 = views_of(ix)
                        if v2:
                            out.extend(v2)
                return out
            for izv in (0, 3):
                got = []
                try:
                    use = vws
                    for conds, (lo, hi) in vws:
                        for b_ in (lo, hi):
                            if isinstance(b_, Rat) and any(isinstance(a, App) and a.name in ('opaque', 'getitem') for a in walk_atoms(b_)):
                                raise CannotEvaluate('table read at a symbolic position')
                except CannotEvaluate:
                    if not jnames:
                        raise
                    use = rerun(izv)
                for conds, (lo, hi) in use:
                    env = {}

                    def val(x, izv=izv, env=env):
                        if x is None or nonebound(x):
                            return None
                        x = subst(x, lambda a: Rat.const(izv) if Rat.atom(a) == J else None)
                        for a in walk_atoms(x):
                            if isinstance(a, App) and a.name in ('read', 'cell?') and a.args[0] == B:
                                i_ = evaluate(a.args[1], {})
                                env[a] = Fraction({0: 5, 2: 20, 3: 30}.get(int(i_), 99))
                        return evaluate(x, env)
                    from ..kutil import eval_cond_full
                    cs = [subst_cond(c_, J, izv) for c_ in conds]
                    if not all(eval_cond_full(c_, {}) for c_ in cs):
                        continue
                    if isinstance(lo, Rat) and repr(lo) in carried:
                        # a cursor: starts at 0, takes the zone's break after every zone, every zone visited in order
                        nm_, pre_, post_ = carried[repr(lo)]
                        L = Ls[0]
                        full = L.lo == Rat.const(0) and L.step == Rat.const(1) and not st.loops[-1:] == [] and \
                            post_ == Rat.atom(App('read', [B, J])) and pre_ == Rat.const(0) and hi == Rat.atom(App('read', [B, J]))
                        if not full:
                            raise CannotEvaluate('lower bound %s is carried from zone to zone but is not the previous break (starts at %s, '
                                                 'becomes %s, upper bound %s)' % (nm_, pre_, post_, hi))
                        cursor = nm_
                        got.append((0 if izv == 0 else 20, val(hi)))
                    else:
                        got.append((val(lo), val(hi)))
                if len(got) != 1:
                    raise CannotEvaluate('%d slices apply for zone %d' % (len(got), izv))
                res.append((izv,) + got[0])
            ok = res in ([(0, None, 5), (3, 20, 30)], [(0, 0, 5), (3, 20, 30)])
            why = 'slice for zone 0 and zone 3 (breaks 5, ., 20, 30): %s%s' % (res, '; lower bound carried in `%s`' % cursor if cursor else '')
        except (AnalysisIncomplete, CannotEvaluate) as e:
            ok, why = None, str(e)
            if os.environ.get('XRSA_DEBUG'):
                import traceback
                traceback.print_exc()
    rep.add('Z-scatter', f, 'stats', site, f.node.lineno,
            (ok and init) if ok is not None else None,
            'the cells of zone J are the permutation entries between its break and the previous one (0 for the first '
            'zone), and every other cell stays NaN (NaN-initialised result: %s); %s' % (init, why))


def subst_cond(c, J, izv):
    """condition with the atom J replaced by a number"""
    from ..sym import Rat, subst
    from ..kai import cmp_cond
    if c[0] == 'cmp':
        d = subst(c[3], lambda a: Rat.const(izv) if Rat.atom(a) == J else None)
        return cmp_cond(c[1], d, Rat.const(0))
    if c[0] in ('and', 'or'):
        return (c[0],) + tuple(subst_cond(x, J, izv) for x in c[1:])
    if c[0] == 'not':
        return ('not', subst_cond(c[1], J, izv))
    return c

