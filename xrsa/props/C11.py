"""C11 - results depend only on the arguments, not on earlier calls or thread timing.

Engine E (state and purity), decided over every function of the package (GPU modules excluded):
 S1 no function mutates or rebinds a module-level object at call time (tables, caches, counters, function attributes);
 S2 mutable default arguments are never mutated, returned or stored;
 S3 no memoisation (lru_cache/cache, cache=True) of closures over call parameters or of functions of arrays; no CPU
    kernel with a prange body that has shared writes or loop-carried reads is compiled with parallel=True;
 S4 module globals read by jitted functions are bound exactly once (numba freezes them at compile time);
    jitted closures capturing call parameters are created per call;
 S5 every global-RNG draw is dominated by np.random.seed(<expression of the seed parameter>) in the same function;
    sibling numpy/dask generator paths use the same seed schedule;
 S6 block functions handed to map_blocks/map_overlap/delayed write only to locals.
"""
import ast

from ..astutil import calls, const, kw, parent_map, short
from ..backends import backend_paths, reachable
from ..effects import CONT, LSTORE, MEM, OBJ, Effects, is_arraylike
from ..program import AnalysisIncomplete, BackendTable, Ext, Func, Partial, norm

GPU_MODULES = ('xrspatial.gpu_rtx',)
RNG_DRAWS = {'permutation', 'rand', 'randn', 'random', 'random_sample', 'choice', 'shuffle', 'normal', 'uniform',
             'randint', 'integers', 'standard_normal', 'sample', 'ranf', 'bytes', 'beta', 'binomial', 'poisson',
             'exponential', 'gamma'}
# documented exception: bump() places bumps with the unseeded global RNG by design (not in C11's anchors)
RNG_EXCEPTIONS = {('xrspatial.bump', 'bump'): 'bump() draws bump locations from the global RNG by documented design'}
MEMO_DECORATORS = {'functools.lru_cache', 'functools.cache', 'functools.cached_property', 'cachetools.cached',
                   'toolz.memoize', 'toolz.functoolz.memoize', 'dask.base.memoize'}
IMMUTABLE_CTORS = {'tuple', 'frozenset', 'int', 'float', 'str', 'bool', 'bytes', 'complex', 'float32', 'float64',
                   'int32', 'int64', 'uint8', 'uint32', 'dtype', 'range', 'slice', 'partial', 'compile', 'Path', 'getenv'}
MUTABLE_CTORS = {'dict', 'list', 'set', 'defaultdict', 'OrderedDict', 'Counter', 'deque', 'bytearray'}


def in_scope(f):
    return not f.module.name.startswith(GPU_MODULES)


def module_mutables(m):
    """module-level names bound to mutable objects: name -> value node"""
    out = {}
    for name, vals in m.assigns.items():
        for v in vals:
            if isinstance(v, (ast.Dict, ast.List, ast.Set, ast.ListComp, ast.DictComp, ast.SetComp)):
                out[name] = v
            elif isinstance(v, ast.Call) and short(v) in MUTABLE_CTORS | {'array', 'zeros', 'ones', 'empty', 'full', 'arange'}:
                out[name] = v
    return out


def check_S1(prog, rep, eff):
    n_tables = 0
    for m in prog.modules.values():
        if m.name.startswith(GPU_MODULES):
            continue
        muts = module_mutables(m)
        for name, v in sorted(muts.items()):
            n_tables += 1
            rep.add('S1-table', m, m.name.split('.')[-1], '%s = %s' % (name, norm(v)[:60]), v.lineno, True,
                    'module-level mutable object (mutation sites checked below)', trivial=True)
    n = 0
    for f in prog.all_funcs():
        if not in_scope(f):
            continue
        s = eff.summary(f)
        n += 1
        own = [e for e in s.events if e.root[0] == 'global' and e.func is f and not e.kind.startswith('call of')]
        for e in own:
            rep.add('S1', f, f.qualname, norm(e.node)[:200], e.node.lineno, False,
                    'module-level object `%s` of %s is modified at call time (%s): later calls can observe state '
                    'left by earlier ones' % (e.root[2], e.root[1], e.kind))
        # `global` declarations with assignment
        for g in f.own_nodes():
            if isinstance(g, ast.Global):
                rep.add('S1', f, f.qualname, norm(g), g.lineno, False,
                        '`global` rebinding of module state inside a function')
        # function attributes used as state: X.attr = ... where X is a module-level function
        for a in f.own_nodes():
            if isinstance(a, (ast.Assign, ast.AugAssign)):
                tgts = a.targets if isinstance(a, ast.Assign) else [a.target]
                for t in tgts:
                    if isinstance(t, ast.Attribute) and isinstance(t.value, ast.Name):
                        r = prog.resolve_name(f, f.module, t.value.id)
                        if isinstance(r, Func) or (isinstance(r, tuple) and r and r[0] in ('class', 'module')):
                            rep.add('S1', f, f.qualname, norm(a)[:200], a.lineno, False,
                                    'attribute of a module-level function/class/module used as mutable state')
        if not own:
            rep.add('S1', f, f.qualname, 'no write to module-level state', f.node.lineno, True, trivial=True)
    # module-level code executed at import is fine; but module-level objects returned to callers could be mutated
    for f in prog.all_funcs():
        if not in_scope(f) or f.qualname.startswith('_') or f.parent is not None:
            continue
        s = eff.summary(f)
        for r, lv in s.returns:
            if r[0] == 'global' and lv in (OBJ,):
                muts = module_mutables(prog.modules[r[1]]) if r[1] in prog.modules else {}
                if r[2] in muts:
                    rep.add('S1-escape', f, f.qualname, 'returns module-level %s' % r[2], f.node.lineno, False,
                            'a public function hands out the module-level mutable object itself; a caller mutating '
                            'the result changes later calls')
    rep.coverage_extra['module_mutables'] = n_tables
    return n


def check_S2(prog, rep, eff):
    for f in prog.all_funcs():
        if not in_scope(f) or f.is_lambda:
            continue
        for p, d in f.defaults().items():
            rng_default = isinstance(d, ast.Call) and short(d) in ('RandomState', 'default_rng', 'Generator', 'Random',
                                                                   'SeedSequence', 'PCG64', 'MT19937')
            mutable = isinstance(d, (ast.List, ast.Dict, ast.Set, ast.ListComp, ast.DictComp, ast.SetComp)) or \
                (isinstance(d, ast.Call) and short(d) not in IMMUTABLE_CTORS)
            if rng_default:
                used = [n for n in f.own_nodes() if isinstance(n, ast.Call) and isinstance(n.func, ast.Attribute) and
                        isinstance(n.func.value, ast.Name) and n.func.value.id == p]
                rep.add('S2', f, f.qualname, 'stateful default %s=%s' % (p, norm(d)), f.node.lineno, not used,
                        'a random generator created once as a default argument is shared by all calls and its state '
                        'advances with every draw (%s): later calls differ from the first'
                        % ', '.join(sorted({norm(u.func) for u in used}))[:120])
                continue
            if not mutable:
                continue
            s = eff.summary(f)
            evs = [e for e in s.events if e.root == ('param', p) and e.level not in (CONT, LSTORE)]
            rets = [1 for r, lv in s.returns if r == ('param', p) and lv == OBJ]
            esc = [x for x in s.escapes if x[0] == ('param', p)]
            why = ''
            if evs:
                why = 'mutated: %s at line %s' % (evs[0].kind, evs[0].node.lineno)
            elif rets:
                why = 'the default object itself is returned to the caller'
            elif esc:
                why = 'the default object is stored: %s' % esc[0][2]
            rep.add('S2', f, f.qualname, 'mutable default %s=%s' % (p, norm(d)), f.node.lineno, not why,
                    'a mutable default argument is shared by all calls: %s' % why)


def jit_option(f, name):
    if f.jit is None:
        return None
    return f.jit.options.get(name)


def prange_hazards(f):
    """(loop node, description) for prange loops whose body has a shared write or a loop-carried array read"""
    out = []
    loops = [n for n in f.own_nodes() if isinstance(n, ast.For) and isinstance(n.iter, ast.Call) and
             norm(n.iter.func).split('.')[-1] == 'prange']
    # outermost prange loops only (numba parallelises the outermost)
    pm = parent_map(f.node)
    outer = []
    for lp in loops:
        p = pm.get(lp)
        nested = False
        while p is not None:
            if p in loops:
                nested = True
            p = pm.get(p)
        if not nested:
            outer.append(lp)
    for lp in outer:
        if not isinstance(lp.target, ast.Name):
            continue
        v = lp.target.id
        local_arrays = set()
        for n in ast.walk(lp):
            if isinstance(n, ast.Assign) and isinstance(n.targets[0], ast.Name) and isinstance(n.value, ast.Call) and \
                    short(n.value) in ('zeros', 'empty', 'ones', 'full', 'zeros_like', 'empty_like', 'copy', 'array'):
                local_arrays.add(n.targets[0].id)
        writes = {}
        for n in ast.walk(lp):
            tgts = []
            if isinstance(n, ast.Assign):
                tgts = n.targets
            elif isinstance(n, ast.AugAssign):
                tgts = [n.target]
            for t in tgts:
                if isinstance(t, ast.Subscript) and isinstance(t.value, ast.Name) and t.value.id not in local_arrays:
                    idx = t.slice.elts if isinstance(t.slice, ast.Tuple) else [t.slice]
                    exact = any(isinstance(i, ast.Name) and i.id == v for i in idx)
                    writes.setdefault(t.value.id, []).append((t, exact))
                    if not exact:
                        out.append((lp, 'shared write `%s` (index does not pin the iteration variable `%s`)'
                                    % (norm(t), v)))
        for n in ast.walk(lp):
            if isinstance(n, ast.Subscript) and isinstance(n.ctx, ast.Load) and isinstance(n.value, ast.Name) and \
                    n.value.id in writes:
                idx = n.slice.elts if isinstance(n.slice, ast.Tuple) else [n.slice]
                exact = any(isinstance(i, ast.Name) and i.id == v for i in idx)
                if not exact:
                    out.append((lp, 'read `%s` of an array written by other iterations' % norm(n)))
        # scalar loop-carried variables (other than the induction variable): assigned in loop and read before
        assigned = set()
        for n in ast.walk(lp):
            if isinstance(n, ast.AugAssign) and isinstance(n.target, ast.Name):
                out.append((lp, 'scalar accumulator `%s` carried across iterations' % n.target.id))
    return out


def check_S3(prog, rep, eff):
    njit = 0
    for f in prog.all_funcs():
        if f.jit is None or f.jit.kind != 'cpu' or not in_scope(f):
            continue
        njit += 1
        par = jit_option(f, 'parallel')
        haz = prange_hazards(f) if par else []
        ok = not (par and haz)
        rep.add('S3-parallel', f, f.qualname, '@%s options %s' % (f.jit.via, dict(sorted(f.jit.options.items()))),
                f.node.lineno, ok,
                'compiled with parallel=True although its prange body is not iteration-independent: %s'
                % '; '.join(sorted({h[1] for h in haz}))[:400], trivial=not par)
        # cache=True on a closure over call parameters
        cache = jit_option(f, 'cache')
        captures = closure_captures(prog, f)
        if cache and captures:
            rep.add('S3-cache', f, f.qualname, '@%s' % f.jit.via, f.node.lineno, False,
                    'jitted closure capturing call parameters %s is compiled with cache=True: the on-disk cache is '
                    'keyed by the source, not by the captured values' % sorted(captures))
        elif captures:
            rep.add('S3-cache', f, f.qualname, 'closure over %s created per call' % sorted(captures), f.node.lineno, True)
    rep.coverage_extra['cpu_jit_functions'] = njit
    # memoisation decorators
    for f in prog.all_funcs():
        if f.is_lambda or not in_scope(f):
            continue
        for d in f.node.decorator_list:
            base = d.func if isinstance(d, ast.Call) else d
            t = prog.resolve_callable(f.parent, f.module, base)
            if isinstance(t, Ext) and (t.dotted in MEMO_DECORATORS or t.dotted.split('.')[-1] in
                                       ('lru_cache', 'cache', 'memoize', 'cached')):
                arr = [p for p in f.params if is_arraylike(prog, f, p)]
                makes_closure = any(isinstance(n, (ast.FunctionDef, ast.Lambda)) for n in f.own_nodes())
                rng = any(isinstance(c.func, ast.Attribute) and 'random' in norm(c.func) for c in calls(f.node))
                ret_arr = returns_array(prog, f)
                bad = bool(arr) or makes_closure or rng or f.parent is not None or ret_arr is not None
                rep.add('S3-memo', f, f.qualname, '@%s' % norm(d), f.node.lineno, not bad,
                        'memoised function takes array-like parameters %s / builds closures / draws random numbers / returns '
                        'a mutable array (%s): a cached result or closure can be returned for a different call, and a cached '
                        'array is one object shared by every later call - any in-place edit by a caller or by the user '
                        'changes what the next call returns' % (arr, ret_arr))
    # module-level memo dicts are covered by S1 (a cache must be written at call time)


ARRAY_MAKERS = {'zeros', 'ones', 'empty', 'full', 'array', 'asarray', 'linspace', 'meshgrid', 'arange', 'where', 'pad',
                'zeros_like', 'ones_like', 'empty_like', 'full_like', 'concatenate', 'stack', 'ogrid', 'mgrid', 'outer',
                'eye', 'identity', 'fromfunction', 'tile', 'repeat', 'astype', 'reshape', 'copy'}


def returns_array(prog, f, depth=3):
    """text of the array-making call a return value of f derives from, or None"""
    las = f.local_assigns()
    seen = set()
    work = [r.value for r in f.own_nodes() if isinstance(r, ast.Return) and r.value is not None]
    steps = 0
    while work and steps < 200:
        steps += 1
        e = work.pop()
        for x in ast.walk(e):
            if isinstance(x, ast.Call):
                nm = x.func.attr if isinstance(x.func, ast.Attribute) else getattr(x.func, 'id', '')
                if nm in ARRAY_MAKERS:
                    return norm(x)[:50]
            if isinstance(x, ast.Name) and x.id not in seen and x.id not in f.params:
                seen.add(x.id)
                work.extend(v for v in las.get(x.id, []) if isinstance(v, ast.AST))
    return None


def closure_captures(prog, f):
    """free variables of nested function f that are parameters/locals of an enclosing function"""
    if f.parent is None:
        return set()
    bound = set(f.params) | set(f.kwonly) | set(f.local_assigns())
    out = set()
    for n in f.own_nodes():
        if isinstance(n, ast.Name) and isinstance(n.ctx, ast.Load) and n.id not in bound:
            s = f.parent
            while s is not None:
                if n.id in s.params or n.id in s.kwonly or n.id in s.local_assigns():
                    out.add(n.id)
                    break
                s = s.parent
    return out


def check_S4(prog, rep, eff):
    """globals read by jitted functions are single-assignment; closures not stored at module level"""
    n = 0
    for f in prog.all_funcs():
        if f.jit is None or f.jit.kind != 'cpu' or not in_scope(f):
            continue
        bound = set(f.params) | set(f.kwonly) | set(f.local_assigns())
        seen = set()
        for nd in f.own_nodes():
            if isinstance(nd, ast.Name) and isinstance(nd.ctx, ast.Load) and nd.id not in bound and nd.id not in seen:
                seen.add(nd.id)
                t = prog.resolve_global(f.module.name, nd.id)
                if isinstance(t, tuple) and t[0] == 'modvalue-multi':
                    vals = t[3]
                    # try/except import fallbacks define the same name twice at import: fine if none is in a function
                    rep.add('S4-global', f, f.qualname, 'global %s assigned %d times' % (nd.id, len(vals)), nd.lineno,
                            False, 'numba freezes globals at first compilation: a module global read by a jitted '
                            'function must be bound exactly once')
                elif isinstance(t, tuple) and t[0] == 'modvalue':
                    n += 1
                    rep.add('S4-global', f, f.qualname, 'global %s (single assignment)' % nd.id, nd.lineno, True,
                            trivial=True)
    return n


def seed_expr_ok(expr, seed_param):
    names = {x.id for x in ast.walk(expr) if isinstance(x, ast.Name)}
    return seed_param in names


def check_S5(prog, rep, eff):
    sites = 0
    schedules = {}
    for f in prog.all_funcs():
        if not in_scope(f):
            continue
        draws = []
        for c in calls(f.node):
            if c not in f.own_nodes():
                continue
            t = prog.resolve_callable(f, f.module, c.func)
            if isinstance(t, Ext) and t.dotted.startswith('numpy.random.') and t.dotted.split('.')[-1] in RNG_DRAWS:
                draws.append(c)
        if not draws:
            continue
        if (f.module.name, f.qualname) in RNG_EXCEPTIONS:
            for c in draws:
                rep.add('S5', f, f.qualname, norm(c), c.lineno, True, RNG_EXCEPTIONS[(f.module.name, f.qualname)],
                        trivial=True)
            continue
        seedp = [p for p in f.params if 'seed' in p]
        pm = parent_map(f.node)
        for c in draws:
            sites += 1
            # find a np.random.seed(...) call statement preceding c in the same block (or an enclosing block)
            stmt = c
            while pm.get(stmt) is not None and not isinstance(stmt, ast.stmt):
                stmt = pm[stmt]
            ok = False
            seedtxt = None
            cur = stmt
            while cur is not None and not ok:
                parent = pm.get(cur)
                if parent is None:
                    break
                for field in ('body', 'orelse', 'finalbody'):
                    blk = getattr(parent, field, None)
                    if isinstance(blk, list) and cur in blk:
                        for prev in blk[:blk.index(cur)][::-1]:
                            if isinstance(prev, ast.Expr) and isinstance(prev.value, ast.Call):
                                tt = prog.resolve_callable(f, f.module, prev.value.func)
                                if isinstance(tt, Ext) and tt.dotted == 'numpy.random.seed' and prev.value.args:
                                    seedtxt = norm(prev.value.args[0])
                                    ok = bool(seedp) and seed_expr_ok(prev.value.args[0], seedp[0])
                                    break
                            # an intervening draw is fine; an intervening call that may reseed is not modelled
                        break
                if seedtxt is not None:
                    break
                cur = parent if isinstance(parent, ast.stmt) else pm.get(parent) if not isinstance(parent, (ast.FunctionDef, ast.Module)) else None
                if isinstance(parent, ast.FunctionDef):
                    break
            rep.add('S5', f, f.qualname, '%s after seed(%s)' % (norm(c), seedtxt), c.lineno, ok,
                    'a draw from the global NumPy RNG must be dominated, in the same function, by '
                    'np.random.seed(<expression of the seed parameter>); otherwise the result depends on earlier calls')
            schedules.setdefault(f.qualname, []).append((seedtxt or '').replace(' ', ''))
    # private generators: RandomState(constant) / default_rng(constant)
    for f in prog.all_funcs():
        if not in_scope(f):
            continue
        for c in calls(f.node):
            if c in f.own_nodes() and short(c) in ('RandomState', 'default_rng', 'Generator'):
                okc = bool(c.args) and (const(c.args[0], None) is not None or
                                        any('seed' in x.id for x in ast.walk(c.args[0]) if isinstance(x, ast.Name)))
                rep.add('S5-private', f, f.qualname, norm(c), c.lineno, okc,
                        'a private generator must be constructed from a constant or from the seed parameter')
    # sibling schedules (numpy vs dask paths of perlin / generate_terrain)
    for pubname in ('perlin', 'generate_terrain'):
        pub = prog.public_api().get(pubname)
        if pub is None:
            raise AnalysisIncomplete('public %s not found' % pubname)
        sched = {}
        for pth in backend_paths(prog, pub):
            if pth.backend in ('numpy', 'dask') and pth.func() is not None:
                ss = []
                for g in reachable(prog, pth.func(), 3):
                    ss += schedules.get(g.qualname, [])
                sched[pth.backend] = sorted(set(ss))
        ok = len(sched) == 2 and sched.get('numpy') == sched.get('dask') and bool(sched.get('numpy'))
        rep.add('S5-sibling', pub, pubname, 'seed schedules %s' % sched, pub.node.lineno, ok,
                'the numpy and dask paths of a seeded generator must seed the RNG with the same expressions')
    return sites


def block_functions(prog):
    """(site call, scope func, block function target) for map_blocks/map_overlap/delayed uses"""
    out = []
    for f in prog.all_funcs():
        if not in_scope(f):
            continue
        for c in f.own_nodes():
            if not isinstance(c, ast.Call):
                continue
            nm = short(c)
            if nm in ('map_blocks', 'map_overlap') and c.args:
                t = prog.resolve_callable(f, f.module, c.args[0])
                out.append((c, f, t, nm))
            elif nm == 'delayed' and c.args:
                a = c.args[0]
                if isinstance(a, ast.Subscript) and isinstance(a.value, ast.Name):
                    tv = prog.resolve_name(f, f.module, a.value.id)
                    if isinstance(tv, tuple) and tv[0] == 'modvalue':
                        for v in table_values(tv[3]):
                            out.append((c, f, prog.resolve_callable(None, tv[1], v), nm))
                        continue
                t = prog.resolve_callable(f, f.module, a)
                out.append((c, f, t, nm))
    for f in prog.all_funcs():
        if f.jit is not None and f.jit.kind == 'delayed' and in_scope(f):
            out.append((f.node, f, f, 'delayed'))
    return out


def table_values(v):
    if isinstance(v, ast.Dict):
        return list(v.values)
    if isinstance(v, ast.Call) and short(v) == 'dict':
        return [k.value for k in v.keywords]
    return []


# S6 frozen exception (DESIGN C11-S6): the dask crosstab merge accumulates into the first block's dict; it is the
# unique consumer of those task results and a recompute re-executes the producers.
S6_EXCEPTIONS = {('xrspatial.zonal', '_crosstab_df_dask')}


def check_S6(prog, rep, eff):
    n = 0
    for c, scope, t, kind in block_functions(prog):
        g = t
        pre = 0
        while isinstance(g, Partial):
            pre += len(g.args)
            g = g.target
        if not isinstance(g, Func):
            rep.add('S6', scope, scope.qualname, norm(c)[:120], c.lineno, None if t is None else True,
                    'block function could not be resolved', trivial=True) if t is None else None
            continue
        if 'cupy' in g.qualname or 'gpu' in g.qualname or 'cuda' in g.qualname:
            continue
        n += 1
        s = eff.summary(g)
        bad = [e for e in s.events if e.root[0] in ('param', 'capt', 'global') and e.level not in (CONT, LSTORE) and
               (e.root[0] != 'param' or is_arraylike(prog, g, e.root[1]) or not e.kind.startswith('augmented assignment'))]
        bad = [e for e in bad if not (e.root[0] == 'param' and e.kind.startswith('augmented assignment') and
                                      not is_arraylike(prog, g, e.root[1]))]
        exc = (g.module.name, g.qualname) in S6_EXCEPTIONS
        rep.add('S6', g, '%s via %s' % (g.qualname, kind), norm(c)[:140] if isinstance(c, ast.Call) else g.qualname,
                getattr(c, 'lineno', g.node.lineno), (not bad) or exc,
                'a per-block task must write only to its own locals; it writes %s'
                % sorted({'%s (%s, line %s)' % (e.root[1:], e.kind[:60], e.node.lineno) for e in bad})[:3])
    return n


def check_dynamic_ufuncs(prog, rep):
    """S3-dufunc: no function of the package is a lazily compiled numba ufunc.  `@vectorize` / `@guvectorize` without an explicit
    list of signatures builds a DUFunc whose table of compiled loops grows with use; a call is served by the first loop already
    compiled that its arguments can be cast to, so what `f(1, 2)` computes (and in which dtype) depends on the calls made
    before - hidden module-level state.  With signatures the table is fixed at import (`@vectorize(['f8(f8, f8)'])`)."""
    bad, n = [], 0
    for f in prog.all_funcs():
        if f.is_lambda or not hasattr(f.node, 'decorator_list'):
            continue
        for d in f.node.decorator_list:
            call = d if isinstance(d, ast.Call) else None
            fn = call.func if call is not None else d
            nm = norm(fn).split('.')[-1]
            if nm not in ('vectorize', 'guvectorize'):
                continue
            t = prog.resolve_callable(f.parent, f.module, fn)
            dotted = getattr(t, 'dotted', '') or ''
            if dotted.startswith('numpy'):
                continue
            n += 1
            sig = call.args[0] if call is not None and call.args else None
            if not (isinstance(sig, (ast.List, ast.Tuple)) and sig.elts):
                bad.append((f, d))
    for f, d in bad:
        rep.add('S3-dufunc', f, f.qualname, '@' + norm(d)[:80], d.lineno, False,
                'a numba ufunc without explicit signatures compiles its loops on demand and serves a call with the first loop compiled '
                'so far that fits: the dtype and value of a result depend on the calls made before it')
    if not bad:
        rep.add('S3-dufunc', 'xrspatial', 'package', 'no lazily compiled numba ufunc (%d numba ufunc decorators)' % n, 1, True)


def check(prog, rep):
    from ..sharedrules import check_value_truthiness
    for nm_, f_ in sorted(prog.public_api().items()):
        if hasattr(f_, 'params') and f_.params and not f_.is_lambda:
            check_value_truthiness(prog, rep, 'S8-truth', f_)
    rep.floor('S8-truth', 30)
    eff = Effects(prog)
    check_dynamic_ufuncs(prog, rep)
    nf = check_S1(prog, rep, eff)
    check_S2(prog, rep, eff)
    check_S3(prog, rep, eff)
    ng = check_S4(prog, rep, eff)
    ns = check_S5(prog, rep, eff)
    nb = check_S6(prog, rep, eff)
    # S7: a public function that writes into its input raster changes what every later call on that raster sees - the
    # result of the later call then depends on the earlier one.  Decided by the mutation analysis of C10 (rule P1).
    from ..report import REFUTED, Report
    from . import C10
    tmp = Report('C10')
    C10.check(prog, tmp)
    bad = [ob for ob in tmp.obs if ob.rule == 'P1' and ob.status == REFUTED]
    for ob in bad:
        o2 = rep.add('S7-input', ob.module, ob.entry, ob.site, ob.line, False,
                     'a later call on the same raster sees the modified cells: ' + ob.why)
    if not bad:
        rep.add('S7-input', 'xrspatial', 'public raster functions', 'no public function writes into an input raster (%d inputs checked)'
                % sum(1 for ob in tmp.obs if ob.rule == 'P1'), 1, True)
    # S8: task names.  dask identifies a task by its key; map_blocks / map_overlap derive it from a hash of the function and
    # ALL arguments.  An explicit `name=` / `token=` replaces that hash: two lazy results with the same name are one task to
    # the scheduler, so evaluating them together (or caching) silently gives one of them the other's blocks - unless the
    # name is itself a hash of everything the blocks depend on (`tokenize(...)`).
    from ..dasksites import sites_in
    nsite = 0
    for fn in prog.all_funcs():
        if fn.is_lambda or fn.jit is not None:
            continue
        for st in sites_in(prog, fn):
            nsite += 1
            for kw_ in ('name', 'token'):
                v = st.kwargs.get(kw_)
                if v is None or (isinstance(v, ast.Constant) and v.value in (None, False)):
                    continue
                hashed = any(isinstance(x, ast.Call) and norm(x.func).split('.')[-1] == 'tokenize' for x in ast.walk(v))
                rep.add('S8-name', fn, fn.qualname, '%s=%s' % (kw_, norm(v)[:80]), st.call.lineno, True if hashed else False,
                        'the task name of a lazy result must identify everything its blocks depend on: an explicit %s that is not a '
                        'tokenize(...) of the function and all its arguments makes different results share one task key' % kw_)
    rep.add('S8-name', 'xrspatial', 'dask sites', 'task names left to dask at %d map_blocks / map_overlap sites' % nsite, 1, nsite >= 20,
            'expected the chunked-evaluation sites of the package')
    rep.floor('S8-name', 1)
    rep.floor('S1', 250)
    rep.floor('S2', 5)
    rep.floor('S3-parallel', 85)
    rep.floor('S3-cache', 1)
    rep.floor('S5', 4)
    rep.floor('S5-sibling', 2)
    rep.floor('S6', 15)
    rep.floor('S4-global', 100)
