"""C17 - local operators are per-cell functions of the layers, NaN-absorbing.

Bespoke dataflow/shape rules over xrspatial/local.py: L1 lock-step iteration order is C (row-major) so that it agrees
with the row-major reference list and the (-1, ncols) reshape; L2 the three frequency operators use the comparators
{ref > item, ref == item, ref < item}; L3 a NaN test guards every per-cell result; L4 position/rank/combine
definitions; L5 reshape by the column count; stat table name -> numpy function.
"""
import ast

from ..astutil import calls, const, inline, is_nan_expr, kw, parent_map, enclosing, short, straightline_env, terminates
from ..program import AnalysisIncomplete, Func, norm

OPS = ['cell_stats', 'combine', 'lesser_frequency', 'equal_frequency', 'greater_frequency', 'lowest_position',
       'highest_position', 'popularity', 'rank']
FREQ = {'lesser_frequency': '>', 'equal_frequency': '==', 'greater_frequency': '<'}


def cmp_oriented(test, ref='ref'):
    """comparison oriented as `ref OP item` -> OP text, or None"""
    if not (isinstance(test, ast.Compare) and len(test.ops) == 1):
        return None
    l, r = test.left, test.comparators[0]
    op = {ast.Gt: '>', ast.Lt: '<', ast.Eq: '==', ast.GtE: '>=', ast.LtE: '<=', ast.NotEq: '!='}.get(type(test.ops[0]))
    if op is None:
        return None
    if isinstance(l, ast.Name) and l.id == ref:
        return op
    if isinstance(r, ast.Name) and r.id == ref:
        return {'>': '<', '<': '>', '>=': '<=', '<=': '>=', '==': '==', '!=': '!='}[op]
    return None


def nan_guard(stmt, var):
    """`if np.isnan(var).any() [or ...]: ...append(nan); continue` -> True"""
    if not isinstance(stmt, ast.If):
        return False
    disj = stmt.test.values if isinstance(stmt.test, ast.BoolOp) and isinstance(stmt.test.op, ast.Or) else [stmt.test]
    has = False
    for d in disj:
        t = norm(d).replace(' ', '')
        if t in ('np.isnan(%s).any()' % var, 'np.any(np.isnan(%s))' % var, 'numpy.isnan(%s).any()' % var,
                 'any(np.isnan(%s))' % var):
            has = True
    if not has:
        return False
    appended_nan = any(isinstance(c, ast.Call) and short(c) == 'append' and c.args and is_nan_expr(c.args[0])
                       for s in stmt.body for c in ast.walk(s))
    return appended_nan and terminates(stmt.body)


class _CanonCalls(ast.NodeTransformer):
    """spellings of the same library call that the rules read as one: the first parameter of the array constructors /
    reducers / np.nditer passed by keyword (`np.nditer(op=[..])`, `xr.DataArray(data=a)`, `stat(a=cell)`), and
    `seq.index(x, 0)` for `seq.index(x)`"""
    FIRST = {'nditer': 'op', 'DataArray': 'data', 'array': 'object', 'asarray': 'a', 'reshape': 'a', 'isnan': 'x'}

    def visit_Call(self, n):
        self.generic_visit(n)
        nm = short(n)
        if not n.args and n.keywords and n.keywords[0].arg is not None:
            k0 = n.keywords[0]
            if self.FIRST.get(nm) == k0.arg or (k0.arg == 'a' and len(n.keywords) == 1):
                n = ast.copy_location(ast.Call(func=n.func, args=[k0.value], keywords=list(n.keywords[1:])), n)
        if nm == 'index' and isinstance(n.func, ast.Attribute) and len(n.args) == 2 and not n.keywords and const(n.args[1]) == 0 and \
                isinstance(n.args[1], ast.Constant) and not isinstance(n.args[1].value, bool):
            n = ast.copy_location(ast.Call(func=n.func, args=[n.args[0]], keywords=[]), n)
        return n


def _normalise_cell_walk(node):
    """Three spellings are rewritten (on the copy the rules read) into the form the operators use today:
    * the lock-step walk kept lazy - `cells = np.nditer(..)` ... `for [ref,] items in [zip(refs,] cells[)]: comb =
      tuple(i.item() for i in items); BODY` - becomes `cells = []; for items in np.nditer(..): cells.append(tuple(..))`
      followed by `for [ref,] comb in [zip(refs,] cells[)]: BODY` (the same cells in the same order);
    * a reference list filled by a two-level append loop becomes the two-level comprehension;
    * `out.append(sum(1 for item in comb if TEST))` becomes the counting loop with a per-cell counter."""
    body = node.body

    def is_nditer(e):
        return isinstance(e, ast.Call) and short(e) == 'nditer'
    # --- lazy walk
    lazy = {s_.targets[0].id: s_ for s_ in body if isinstance(s_, ast.Assign) and len(s_.targets) == 1 and isinstance(s_.targets[0], ast.Name)
            and is_nditer(s_.value)}
    for nm, asg in lazy.items():
        uses = [x for s_ in body for x in ast.walk(s_) if isinstance(x, ast.Name) and x.id == nm and isinstance(x.ctx, ast.Load)]
        loops = [s_ for s_ in body if isinstance(s_, ast.For) and any(x in uses for x in ast.walk(s_.iter))]
        if len(uses) != 1 or len(loops) != 1:
            continue
        lp = loops[0]
        # the loop target bound to the walk's element
        if isinstance(lp.iter, ast.Name):
            tgt = lp.target
        elif isinstance(lp.iter, ast.Call) and short(lp.iter) == 'zip' and isinstance(lp.target, ast.Tuple) and len(lp.target.elts) == len(lp.iter.args):
            pos = [i_ for i_, a_ in enumerate(lp.iter.args) if isinstance(a_, ast.Name) and a_.id == nm]
            tgt = lp.target.elts[pos[0]] if len(pos) == 1 else None
        else:
            tgt = None
        if not isinstance(tgt, ast.Name) or not lp.body:
            continue
        first = lp.body[0]
        if not (isinstance(first, ast.Assign) and len(first.targets) == 1 and isinstance(first.targets[0], ast.Name) and
                isinstance(first.value, ast.Call) and isinstance(first.value.func, ast.Name) and first.value.func.id in ('tuple', 'list') and
                len(first.value.args) == 1 and isinstance(first.value.args[0], (ast.GeneratorExp, ast.ListComp)) and
                len(first.value.args[0].generators) == 1 and norm(first.value.args[0].generators[0].iter) == tgt.id):
            continue
        comb = first.targets[0].id
        if any(isinstance(x, ast.Name) and x.id == tgt.id for s_ in lp.body[1:] for x in ast.walk(s_)):
            continue
        # build: nm = []; for tgt in nditer: nm.append(tuple(..)); and the loop over the materialised cells
        fill = ast.For(target=ast.Name(id=tgt.id, ctx=ast.Store()), iter=asg.value,
                       body=[ast.Expr(value=ast.Call(func=ast.Attribute(value=ast.Name(id=nm, ctx=ast.Load()), attr='append', ctx=ast.Load()),
                                                     args=[first.value], keywords=[]))], orelse=[])
        init = ast.Assign(targets=[ast.Name(id=nm, ctx=ast.Store())], value=ast.List(elts=[], ctx=ast.Load()))
        for n_ in (fill, init):
            ast.copy_location(n_, asg)
        idx = body.index(asg)
        body[idx:idx + 1] = [init, fill]
        tgt.id = comb
        lp.body = lp.body[1:]
    # --- reference list filled by nested loops
    for k_, s_ in enumerate(list(body)):
        if isinstance(s_, ast.Assign) and isinstance(s_.targets[0], ast.Name) and isinstance(s_.value, ast.List) and not s_.value.elts:
            nm = s_.targets[0].id
            j = body.index(s_) + 1
            if j < len(body) and isinstance(body[j], ast.For) and isinstance(body[j].target, ast.Name) and len(body[j].body) == 1 and \
                    isinstance(body[j].body[0], ast.For) and isinstance(body[j].body[0].target, ast.Name) and \
                    norm(body[j].body[0].iter) == body[j].target.id and len(body[j].body[0].body) == 1:
                inner = body[j].body[0]
                ap = inner.body[0]
                if isinstance(ap, ast.Expr) and isinstance(ap.value, ast.Call) and short(ap.value) == 'append' and \
                        norm(ap.value.func.value) == nm and len(ap.value.args) == 1 and norm(ap.value.args[0]) == inner.target.id:
                    comp = ast.ListComp(elt=ast.Name(id=inner.target.id, ctx=ast.Load()), generators=[
                        ast.comprehension(target=body[j].target, iter=body[j].iter, ifs=[], is_async=0),
                        ast.comprehension(target=inner.target, iter=inner.iter, ifs=[], is_async=0)])
                    new = ast.copy_location(ast.Assign(targets=[ast.Name(id=nm, ctx=ast.Store())], value=comp), s_)
                    body[body.index(s_):j + 1] = [new]
    # --- counting by sum(1 for item in comb if TEST)
    for lp in [x for x in ast.walk(node) if isinstance(x, ast.For)]:
        for k_, st in enumerate(list(lp.body)):
            if isinstance(st, ast.Expr) and isinstance(st.value, ast.Call) and short(st.value) == 'append' and len(st.value.args) == 1:
                a = st.value.args[0]
                if isinstance(a, ast.Call) and isinstance(a.func, ast.Name) and a.func.id == 'sum' and len(a.args) == 1 and \
                        isinstance(a.args[0], (ast.GeneratorExp, ast.ListComp)) and len(a.args[0].generators) == 1 and \
                        const(a.args[0].elt) == 1 and len(a.args[0].generators[0].ifs) == 1 and not a.keywords:
                    g = a.args[0].generators[0]
                    cnt = '__count'
                    init = ast.Assign(targets=[ast.Name(id=cnt, ctx=ast.Store())], value=ast.Constant(value=0))
                    loop2 = ast.For(target=g.target, iter=g.iter, body=[ast.If(test=g.ifs[0], body=[
                        ast.AugAssign(target=ast.Name(id=cnt, ctx=ast.Store()), op=ast.Add(), value=ast.Constant(value=1))], orelse=[])], orelse=[])
                    st2 = ast.Expr(value=ast.Call(func=st.value.func, args=[ast.Name(id=cnt, ctx=ast.Load())], keywords=[]))
                    for n_ in (init, loop2, st2):
                        ast.copy_location(n_, st)
                    i0 = lp.body.index(st)
                    # the counter is reset where the cell's work begins: right after the NaN test that precedes it
                    lp.body[i0:i0 + 1] = [init, loop2, st2]
    ast.fix_missing_locations(node)
    return node


def _canonical_view(prog, f):
    """the operator as the rules read it: helpers inlined (phases with loops included), library calls in one spelling"""
    import copy
    from ..inline import inline_view
    v = inline_view(prog, f, allow_loops=True)
    node = _CanonCalls().visit(copy.deepcopy(v.node))

    class _Lit(ast.NodeTransformer):
        """a module-level literal constant read in the operator (normal form N2) is written as the literal"""
        def visit_Name(self, n):
            if isinstance(n.ctx, ast.Load) and hasattr(n, '_xrsa_const') and isinstance(n._xrsa_const, (int, float, str, bool, type(None))):
                return ast.copy_location(ast.Constant(value=n._xrsa_const), n)
            return n
    node = _Lit().visit(node)
    node = _normalise_cell_walk(node)
    ast.fix_missing_locations(node)
    g = Func(f.module, node, f.parent)
    g.jit = f.jit
    g.children = f.children
    return g


def cell_models(prog, f, body, comb, refname, name):
    """The per-cell code of a frequency / position / rank operator decided on finite models.

    These operators touch the layer values of a cell only through comparisons (`<`, `==`, `min`, `max`, `index`, `sort`)
    and NaN tests, on Python numbers (the cell tuples hold `.item()` values).  Their result is therefore a function of the
    ordering and NaN-ness of the values alone: the loop body is folded (consteval - a pure-Python subset, no library code
    is run) for every cell of 1..3 layers over the levels -inf < 0 < 1 < 2 < +inf and NaN - every weak ordering of up to
    three layers, with and without NaN, with and without infinities (a NaN test by `isnan(sum(cell))` is refuted by a cell
    holding +inf and -inf) - and must append exactly the operator's definition each time.  Returns (True, '') /
    (False, counterexample, nan_case) / (None, why not evaluable)."""
    from itertools import product
    from ..consteval import CannotFold, Folder, _Continue
    outs = {c.func.value.id for s_ in body for c in ast.walk(s_) if isinstance(c, ast.Call) and short(c) == 'append' and
            isinstance(c.func, ast.Attribute) and isinstance(c.func.value, ast.Name)}
    if len(outs) != 1:
        return None, 'the list of per-cell results is not unique (%s)' % sorted(outs), False
    outname = next(iter(outs))
    NAN = float('nan')

    def spec(ref, tup):
        if any(v != v for v in tup):
            return NAN
        if name in FREQ:
            op = FREQ[name]
            return sum(1 for v in tup if (ref > v if op == '>' else ref == v if op == '==' else ref < v))
        if name == 'lowest_position':
            return tup.index(min(tup)) + 1
        if name == 'highest_position':
            return tup.index(max(tup)) + 1
        if name == 'rank':
            return sorted(tup)[ref - 1]
        raise KeyError(name)

    def same(a, b):
        if isinstance(a, bool) or not isinstance(a, (int, float)):
            return False
        return (a != a and b != b) or a == b
    try:
        for n_ in (1, 2, 3):
            for tup in product((0.0, 1.0, 2.0, NAN, float('inf'), float('-inf')), repeat=n_):
                refs = [1] if name in FREQ else (list(range(1, n_ + 1)) if name == 'rank' else [None])
                for ref in refs:
                    got = None
                    for cell in (tuple(tup), list(tup)):
                        env_ = {comb: cell, outname: []}
                        if ref is not None and refname:
                            env_[refname] = ref
                        try:
                            try:
                                Folder(prog, f.module).block(body, env_)
                            except _Continue:
                                pass
                            got = env_[outname]
                            break
                        except CannotFold as ex:
                            if isinstance(cell, tuple) and ('sort' in str(ex) or 'reverse' in str(ex) or 'store' in str(ex)):
                                continue        # the cell is a list in this operator (sorted in place)
                            raise
                    want = spec(ref, tup)
                    if got is None or len(got) != 1 or not same(got[0], want):
                        return False, 'for the layer values %s%s the cell gets %s, the definition gives %s' % (
                            list(tup), (' and reference %s' % ref) if ref is not None else '', got, want), any(v != v for v in tup)
        return True, '', False
    except CannotFold as ex:
        return None, 'per-cell code not evaluable: %s' % ex, False



def check_op(prog, rep, m, name):
    f = m.funcs.get(name)
    if f is None:
        raise AnalysisIncomplete('local.%s not found' % name)
    f = _canonical_view(prog, f)
    # ---- the lock-step walk: np.nditer in the operator itself or in a module helper it calls (parameters bound)
    its = []          # (nditer call, function holding it, {helper parameter: caller expression text})
    cells = set()     # names of the per-cell list in f
    for c in calls(f.node):
        if short(c) == 'nditer':
            its.append((c, f, {}))
    for n in f.own_nodes():
        if isinstance(n, ast.For) and any(short(c) == 'nditer' for c in calls(n.iter)):
            for c in calls(n):
                if short(c) == 'append' and isinstance(c.func, ast.Attribute) and isinstance(c.func.value, ast.Name):
                    cells.add(c.func.value.id)
        if isinstance(n, ast.Assign) and isinstance(n.targets[0], ast.Name) and isinstance(n.value, ast.ListComp) and \
                len(n.value.generators) == 1 and not n.value.generators[0].ifs and \
                any(short(c) == 'nditer' for c in calls(n.value.generators[0].iter)):
            cells.add(n.targets[0].id)      # the per-cell list built by a comprehension over the lock-step walk
        if isinstance(n, ast.Assign) and isinstance(n.value, ast.Call) and isinstance(n.targets[0], ast.Name):
            g = prog.resolve_callable(f, m, n.value.func)
            if isinstance(g, Func) and g is not f and any(short(c) == 'nditer' for c in calls(g.node)):
                bind = {}
                for p, a in zip(g.params, n.value.args):
                    bind[p] = norm(a)
                for k in n.value.keywords:
                    if k.arg:
                        bind[k.arg] = norm(k.value)
                # the helper must return the list it fills in the nditer loop
                filled = {c.func.value.id for lp in g.own_nodes() if isinstance(lp, ast.For) and
                          any(short(c2) == 'nditer' for c2 in calls(lp.iter))
                          for c in calls(lp) if short(c) == 'append' and isinstance(c.func, ast.Attribute) and
                          isinstance(c.func.value, ast.Name)}
                rets = [r for r in g.own_nodes() if isinstance(r, ast.Return)]
                if len(rets) == 1 and isinstance(rets[0].value, ast.Name) and rets[0].value.id in filled:
                    for c in calls(g.node):
                        if short(c) == 'nditer':
                            its.append((c, g, bind))
                    cells.add(n.targets[0].id)
    for c, g, bind in its:
        order = kw(c, 'order')
        ok = order is not None and const(order) == 'C'
        rep.add('L1', g, name, norm(c), c.lineno, ok,
                "np.nditer iterates in memory order ('K') by default; the cell order must be fixed to C (row-major) "
                "to agree with the row-major reference list and the (-1, ncols) reshape - otherwise F-ordered or "
                "transposed layers scramble the output")
    for c, g, bind in its:
        # L6: the layers are taken in the caller's data_vars order
        arg = c.args[0] if c.args else None
        if isinstance(arg, ast.Name):
            vals = [v for v in g.local_assigns().get(arg.id, []) if isinstance(v, ast.AST)]
            arg = vals[0] if len(vals) == 1 else None
        ok = False
        if isinstance(arg, ast.ListComp) and len(arg.generators) == 1:
            gen = arg.generators[0]
            tv = gen.target.id if isinstance(gen.target, ast.Name) else None
            src = bind.get(gen.iter.id, gen.iter.id if g is f else None) if isinstance(gen.iter, ast.Name) else None
            elt = arg.elt
            base = None
            if isinstance(elt, ast.Attribute) and elt.attr in ('data', 'values') and isinstance(elt.value, ast.Subscript) and \
                    isinstance(elt.value.value, ast.Name) and norm(elt.value.slice) == tv:
                base = bind.get(elt.value.value.id, elt.value.value.id if g is f else None)
            ok = src == 'data_vars' and not gen.ifs and tv is not None and base == 'raster'
        rep.add('L6', g, name, 'layers: %s' % (norm(arg)[:120] if arg is not None else None), c.lineno, ok,
                'the layers must be taken as raster[var] for var in data_vars, in the caller\'s data_vars order '
                '(positions, ranks and value tuples are defined relative to that order)')
    # ... and `data_vars` is still the caller's list when the layers are taken: the only re-binding allowed is the default
    # (all layers of the dataset, when none were named) or an order-preserving copy of itself
    if 'data_vars' in f.params:
        for n in f.own_nodes():
            if isinstance(n, ast.Assign) and any(isinstance(t_, ast.Name) and t_.id == 'data_vars' for t_ in n.targets):
                v = n.value
                okv = None
                if isinstance(v, ast.Call) and short(v) in ('list', 'tuple') and len(v.args) == 1:
                    okv = True                       # list(raster.data_vars) / list(data_vars)
                elif isinstance(v, (ast.ListComp, ast.GeneratorExp)) and len(v.generators) == 1:
                    it_ = v.generators[0].iter
                    okv = isinstance(it_, ast.Name) and it_.id == 'data_vars' and isinstance(v.elt, ast.Name) and \
                        isinstance(v.generators[0].target, ast.Name) and v.elt.id == v.generators[0].target.id
                    if not okv and any(isinstance(x, ast.Name) and x.id == 'data_vars' for x in ast.walk(v)):
                        okv = False                  # the caller's names filtered in some OTHER order
                elif isinstance(v, ast.Call) and short(v) in ('sorted', 'set', 'unique', 'frozenset') and \
                        any(isinstance(x, ast.Name) and x.id == 'data_vars' for x in ast.walk(v)):
                    okv = False
                if okv is False:
                    rep.add('L6', f, name, norm(n)[:120], n.lineno, False,
                            'the layers must be taken in the caller\'s data_vars order (positions, ranks and value tuples are '
                            'defined relative to that order): this re-orders the list the caller gave')
    if not its:
        # alternative lock-step idioms: zip of ravel()/flatten() (C order by default)
        alt = [c for c in calls(f.node) if short(c) in ('ravel', 'flatten')]
        bad = [c for c in alt if (kw(c, 'order') is not None and const(kw(c, 'order')) != 'C') or
               (c.args and const(c.args[0]) not in ('C',))]
        rep.add('L1', f, name, 'lock-step iteration via %s' % sorted({short(c) for c in alt}), f.node.lineno,
                bool(alt) and not bad, 'no np.nditer and no C-ordered ravel/flatten lock-step iteration found'
                if not alt else 'non-C flattening order')
    # ---- L5: reshape by the column count
    rs = [c for c in calls(f.node) if short(c) == 'reshape']
    senv = straightline_env(f.node.body)
    for c in rs:
        shp = None
        if isinstance(c.func, ast.Attribute) and isinstance(c.func.value, ast.Name) and c.func.value.id in ('np', 'numpy'):
            shp = c.args[1] if len(c.args) > 1 else kw(c, 'newshape') or kw(c, 'shape')
        else:
            shp = c.args[0] if len(c.args) == 1 else ast.Tuple(elts=list(c.args), ctx=ast.Load())
        ok = False
        if shp is not None:
            shp = inline(shp, senv)      # `n_cols = raster[..].data.shape[1]` named before the reshape
        why = 'shape argument %s' % (norm(shp) if shp is not None else None)
        if isinstance(shp, ast.Tuple) and len(shp.elts) == 2:
            a, b = shp.elts
            if const(a) == -1:
                t = norm(b)
                ok = t.endswith('.shape[1]') or t.endswith('.shape[-1]')
            elif const(b) == -1:
                ok = False
            else:
                ta, tb = norm(a), norm(b)
                ok = (ta.endswith('.shape[0]') or ta.endswith('.shape[-2]')) and \
                     (tb.endswith('.shape[1]') or tb.endswith('.shape[-1]'))
        elif shp is not None and norm(shp).endswith('.shape'):
            ok = True
        if kw(c, 'order') is not None and const(kw(c, 'order')) != 'C':
            ok = False
        rep.add('L5', f, name, norm(c), c.lineno, ok,
                'the flat per-cell list is row-major: it must be reshaped to (-1, number of columns); ' + why)
    if not rs:
        rep.add('L5', f, name, 'reshape of the per-cell list', f.node.lineno, None, 'no reshape found')
    # ... and returned as computed: the per-cell values (Python numbers gathered in a list) are not cast on the way out - a
    # cast to the layers' own dtype wraps sums of narrow integers and turns the NaN of a cell with missing data into a number
    holders = {n.targets[0].id for n in f.own_nodes() if isinstance(n, ast.Assign) and isinstance(n.targets[0], ast.Name) and
               isinstance(n.value, ast.Call) and short(n.value) in ('array', 'asarray', 'reshape', 'DataArray')}
    for c in calls(f.node):
        if short(c) == 'astype' and isinstance(c.func, ast.Attribute) and any(isinstance(x, ast.Name) and x.id in holders for x in ast.walk(c.func.value)):
            dt = norm(c.args[0]) if c.args else '?'
            wide = dt in ('float', 'np.float64', "'f8'", "'float64'", 'numpy.float64')
            rep.add('L5', f, name, norm(c)[:120], c.lineno, wide,
                    'the result array holds the per-cell values as computed: casting it to %s narrows sums / extrema of narrow layers '
                    '(200 + 100 + 50 in uint8 is 94) and cannot hold the NaN of cells with missing data' % dt)
    # ---- ref list row-major
    if 'ref_var' in f.params:
        # the reference list: the local built from raster[ref_var] (whatever it is called)
        refn = next((n_ for n_, vs_ in f.local_assigns().items() for v_ in vs_ if isinstance(v_, ast.AST) and
                     'raster[ref_var]' in norm(v_) and n_ not in cells), 'ref_list')
        refs = f.local_assigns().get(refn, [])
        ok = False
        txt = refn
        if len(refs) == 1 and isinstance(refs[0], ast.AST):
            v = refs[0]
            txt = norm(v)
            if isinstance(v, ast.ListComp) and len(v.generators) == 2:
                g0, g1 = v.generators
                ok = isinstance(g1.iter, ast.Name) and isinstance(g0.target, ast.Name) and \
                    g1.iter.id == g0.target.id and norm(g0.iter) in ('raster[ref_var].data', 'raster[ref_var].values', 'raster[ref_var].data.tolist()', 'raster[ref_var].to_numpy()') and \
                    isinstance(v.elt, ast.Name) and isinstance(g1.target, ast.Name) and v.elt.id == g1.target.id
            elif isinstance(v, ast.Call) and short(v) in ('ravel', 'flatten', 'tolist'):
                ok = norm(v.func.value) in ('raster[ref_var].data', 'raster[ref_var].values') and not v.args and not v.keywords
        rep.add('L1-ref', f, name, txt, f.node.lineno, ok,
                'the reference layer must be flattened row-major (outer loop rows, inner loop cells)')
    # ---- per-cell loop
    def over_cells(it):
        return (isinstance(it, ast.Name) and it.id in cells) or \
            (isinstance(it, ast.Call) and short(it) == 'zip' and any(isinstance(a, ast.Name) and a.id in cells for a in it.args))
    loops = [n for n in f.own_nodes() if isinstance(n, ast.For) and over_cells(n.iter)]
    if name == 'cell_stats':
        comps = [n for n in f.own_nodes() if isinstance(n, ast.ListComp) and len(n.generators) == 1 and
                 over_cells(n.generators[0].iter) and not n.generators[0].ifs]
        check_cell_stats(prog, rep, m, f, loops, comps)
        return
    if not loops:
        rep.add('L3', f, name, 'per-cell loop over iter_list', f.node.lineno, None, 'per-cell loop not found')
        return
    loop = loops[0]
    tgt = loop.target
    refname = 'ref'
    if isinstance(tgt, ast.Tuple) and isinstance(loop.iter, ast.Call):
        pos = [i for i, a in enumerate(loop.iter.args) if isinstance(a, ast.Name) and a.id in cells]
        if len(pos) != 1 or len(tgt.elts) != len(loop.iter.args) or not all(isinstance(e, ast.Name) for e in tgt.elts):
            rep.add('L3', f, name, norm(loop.target), loop.lineno, None, 'zip targets not understood')
            return
        comb = tgt.elts[pos[0]].id
        others = [i for i in range(len(tgt.elts)) if i != pos[0]]
        if len(others) == 1:
            refname = tgt.elts[others[0]].id
            # the companion list must be the row-major reference list
            rep.add('L1-ref', f, name, 'zip companion %s' % norm(loop.iter.args[others[0]]), loop.lineno,
                    norm(loop.iter.args[others[0]]) == (refn if 'ref_var' in f.params else 'ref_list'),
                    'the per-cell tuples must be paired with the row-major reference list')
    elif isinstance(tgt, ast.Name):
        comb = tgt.id
    else:
        rep.add('L3', f, name, norm(loop.target), loop.lineno, None, 'loop target not understood')
        return
    # ---- L3: NaN guard dominates every non-NaN append
    body = loop.body
    guard_pos = None
    # copies of the cell that hold the same values (a sorted / list / tuple copy): NaN-ness is the same
    same = {comb} | {s_.targets[0].id for s_ in body if isinstance(s_, ast.Assign) and isinstance(s_.targets[0], ast.Name) and
                     isinstance(s_.value, ast.Call) and isinstance(s_.value.func, ast.Name) and s_.value.func.id in ('sorted', 'list', 'tuple') and
                     len(s_.value.args) == 1 and not s_.value.keywords and norm(s_.value.args[0]) == comb}
    for i, s in enumerate(body):
        if any(nan_guard(s, v_) for v_ in same):
            guard_pos = i
            break
    appends = []
    in_guard_body = set()
    in_guard_else = set()
    if guard_pos is not None:
        for st in body[guard_pos].body:
            in_guard_body |= {id(x) for x in ast.walk(st)}
        for st in body[guard_pos].orelse:
            in_guard_else |= {id(x) for x in ast.walk(st)}
    for i, s in enumerate(body):
        for c in ast.walk(s):
            if isinstance(c, ast.Call) and short(c) == 'append' and c.args and not is_nan_expr(c.args[0]) \
                    and id(c) not in in_guard_body:
                appends.append((i, c))
    MV = (None, 'not a modelled operator', False)
    if name in FREQ or name in ('lowest_position', 'highest_position', 'rank'):
        MV = cell_models(prog, f, body, comb, refname, name)
    if MV[0] is False and MV[2]:
        rep.add('L3', f, name, 'per-cell code on a cell holding NaN', loop.lineno, False,
                'a NaN in any data layer must make the cell NaN: ' + MV[1])
    for i, c in appends:
        ok = guard_pos is not None and (i > guard_pos or id(c) in in_guard_else)
        if MV[0] is True:
            ok = True         # decided on the models: every cell holding NaN gets NaN
        elif not ok:
            ok = None if MV[0] is None else ok
        rep.add('L3', f, name, norm(c), c.lineno, ok,
                'a NaN in any data layer must make the cell NaN: the `np.isnan(%s).any()` test (appending NaN and '
                'continuing) must come before every per-cell result' % comb)
    # a mutation of comb before the guard (rank sorts a private copy: allowed, sorting keeps NaN-ness)
    # ---- op-specific
    if name in FREQ:
        inner = [n for n in ast.walk(loop) if isinstance(n, ast.For) and n is not loop and norm(n.iter) == comb]
        ok = False
        why = 'count over the cell tuple not found'
        shown, line = name, loop.lineno
        if inner:
            item = inner[0].target.id if isinstance(inner[0].target, ast.Name) else None
            tests = [s for s in inner[0].body if isinstance(s, ast.If)]
            line = inner[0].lineno
            if len(tests) == 1 and len(inner[0].body) == 1 and not (isinstance(tests[0].test, ast.Compare) and len(tests[0].test.ops) == 1):
                shown = norm(tests[0].test)
                why = 'the layers must be counted by the exact comparison `%s %s item`, not by `%s` (a tolerance or helper makes the three ' \
                      'operators overlap or leave gaps)' % (refname, FREQ[name], shown)
            elif len(tests) == 1 and len(inner[0].body) == 1:
                shown = norm(tests[0].test)
                op = cmp_oriented(tests[0].test, refname)
                other = tests[0].test.left if norm(tests[0].test.comparators[0]) == refname else tests[0].test.comparators[0]
                inc = [s for s in tests[0].body if isinstance(s, ast.AugAssign) and isinstance(s.op, ast.Add)
                       and const(s.value) == 1]
                ok = op == FREQ[name] and isinstance(other, ast.Name) and other.id == item and len(inc) == 1 \
                    and not tests[0].orelse and len(tests[0].body) == 1
                why = 'found `%s %s item`' % (refname, op)
                cnt = norm(inc[0].target) if inc else 'count'
                # count reset per cell, appended after the inner loop
                resets = [s for s in body if isinstance(s, ast.Assign) and norm(s.targets[0]) == cnt and const(s.value) == 0]
                ap = [c for i, c in appends if norm(c.args[0]) == cnt]
                rep.add('L2-count', f, name, '%s = 0 per cell; append(%s)' % (cnt, cnt), loop.lineno, len(resets) == 1 and len(ap) == 1
                        and len(appends) == 1, 'the counter must be reset for every cell and appended once')
            else:
                why = 'inner loop body is not a single comparison'
        else:
            # counting expression: sum(1 for item in comb if TEST) / sum(TEST for item in comb) / len([... if TEST])
            for i, c in appends:
                e = inline(c.args[0], straightline_env(body))
                gen = test = None
                if isinstance(e, ast.Call) and short(e) == 'sum' and len(e.args) == 1 and isinstance(e.args[0], (ast.GeneratorExp, ast.ListComp)):
                    gen = e.args[0]
                    if len(gen.generators) == 1 and len(gen.generators[0].ifs) == 1 and const(gen.elt) == 1:
                        test = gen.generators[0].ifs[0]
                    elif len(gen.generators) == 1 and not gen.generators[0].ifs and isinstance(gen.elt, ast.Compare):
                        test = gen.elt
                elif isinstance(e, ast.Call) and short(e) == 'len' and len(e.args) == 1 and isinstance(e.args[0], ast.ListComp):
                    gen = e.args[0]
                    if len(gen.generators) == 1 and len(gen.generators[0].ifs) == 1:
                        test = gen.generators[0].ifs[0]
                if gen is not None and test is not None and norm(gen.generators[0].iter) == comb and \
                        isinstance(gen.generators[0].target, ast.Name) and isinstance(test, ast.Compare) and len(test.ops) == 1:
                    item = gen.generators[0].target.id
                    op = cmp_oriented(test, refname)
                    other = test.left if norm(test.comparators[0]) == refname else test.comparators[0]
                    shown, line = norm(test), c.lineno
                    ok = op == FREQ[name] and isinstance(other, ast.Name) and other.id == item and len(appends) == 1
                    why = 'found `%s %s item`' % (refname, op)
        if MV[0] is True:
            ok, why = True, 'decided on the models: the count equals the definition for every ordering of up to three layers'
        elif MV[0] is False and not MV[2]:
            ok, why = False, MV[1]
        elif not ok and MV[0] is None:
            # a tolerance test is positively not the exact comparison (values within the tolerance are counted by two of the
            # three operators, or by none); anything else that cannot be folded stays undecided
            tol = [c_ for s_ in body for c_ in ast.walk(s_) if isinstance(c_, ast.Call) and short(c_) in ('isclose', 'allclose')
                   and any(isinstance(x_, ast.Name) and x_.id == refname for a_ in c_.args for x_ in ast.walk(a_))]
            tol += [c_ for s_ in body for c_ in ast.walk(s_) if isinstance(c_, ast.Compare) and
                    any(isinstance(x_, ast.BinOp) and isinstance(x_.op, ast.Sub) and
                        any(isinstance(y_, ast.Name) and y_.id == refname for y_ in ast.walk(x_)) for x_ in ast.walk(c_.left))]
            if tol:
                ok = False
            else:
                ok, why = None, why + '; ' + MV[1]
        rep.add('L2', f, name, shown, line, ok,
                '%s must count the layers with `ref %s item` (the three operators partition the layers: > == <); %s'
                % (name, FREQ[name], why))
    if name in ('lowest_position', 'highest_position'):
        fn = 'min' if name.startswith('lowest') else 'max'
        ok = False
        got = None
        why = ''
        for i, c in appends:
            env = straightline_env(body)
            e = inline(c.args[0], env)
            got = norm(e)
        # decided on the models (cell_models): however the first extreme position is spelled
        if MV[0] is True:
            ok = True
        elif MV[0] is False:
            ok, why = (False, '; ' + MV[1]) if not MV[2] else (None, '; (NaN case reported under L3)')
        else:
            ok, why = None, '; ' + MV[1]
        rep.add('L4', f, name, 'appended value: %s' % got, loop.lineno, ok,
                '%s must be the 1-based index of the first %simum: %s.index(%s(%s)) + 1%s' % (name, fn, comb, fn, comb, why))
    if name == 'rank':
        env = straightline_env(body)
        sorted_ok = any(isinstance(s, ast.Expr) and isinstance(s.value, ast.Call) and short(s.value) == 'sort' and
                        norm(s.value.func.value) == comb and not s.value.keywords and not s.value.args for s in body) or \
            any(isinstance(s, ast.Assign) and norm(s.targets[0]) == comb and norm(s.value) == 'sorted(%s)' % comb for s in body)
        got = None
        ok = False
        for i, c in appends:
            got = norm(inline(c.args[0], {k: v for k, v in env.items() if k != comb}))
            ok = got in ('%s[%s - 1]' % (comb, refname),)
            if got == 'sorted(%s)[%s - 1]' % (comb, refname):
                ok = sorted_ok = True        # an ascending sorted copy indexed directly
        okr = ok and sorted_ok
        whyr = ''
        if MV[0] is True:
            okr = True
        elif MV[0] is False and not MV[2]:
            okr, whyr = False, '; ' + MV[1]
        elif not okr and MV[0] is None:
            okr, whyr = None, '; ' + MV[1]
        rep.add('L4', f, name, 'ascending sort then %s' % got, loop.lineno, okr,
                'rank must sort the cell values ascending (no reverse) and take element ref - 1' + whyr)
        # private copy: iter_list holds lists created per cell (list(...) in the nditer loop), so sort() is private
    if name == 'combine':
        check_combine(rep, f, loop, comb)


def check_cell_stats(prog, rep, m, f, loops, comps=()):
    # table: name -> np.<name>
    vals = m.assigns.get('funcs', [])
    ok = len(vals) == 1 and isinstance(vals[0], ast.Dict)
    if ok:
        for k, v in zip(vals[0].keys, vals[0].values):
            key = const(k)
            good = norm(v) in ('np.%s' % key, 'numpy.%s' % key)
            rep.add('L-table', m, 'cell_stats', "funcs[%r] = %s" % (key, norm(v)), v.lineno, good,
                    'statistic %r must map to the same-named NumPy function (the non-nan variant, so NaN propagates)' % key)
    else:
        rep.add('L-table', m, 'cell_stats', 'funcs table', 1, None, 'module table `funcs` not found as one dict literal')
    env = {n: v[0] for n, v in f.local_assigns().items() if len(v) == 1 and isinstance(v[0], ast.AST) and n not in f.params}

    def is_stat_of(e, cell):
        """e is funcs[func](cell), possibly through a single-assignment local holding funcs[func]"""
        if not (isinstance(e, ast.Call) and len(e.args) == 1 and not e.keywords and norm(e.args[0]) == cell):
            return False
        fn = e.func
        if isinstance(fn, ast.Name) and fn.id in env:
            fn = env[fn.id]
        return isinstance(fn, ast.Subscript) and norm(fn.value) == 'funcs' and norm(fn.slice) == 'func'
    ok = False
    shown = None
    for lp in loops:
        for c in calls(lp):
            if short(c) == 'append' and c.args and isinstance(lp.target, ast.Name):
                shown = norm(c)
                a0 = c.args[0]
                if isinstance(a0, ast.Name) and a0.id in env and a0.id != lp.target.id:
                    a0 = env[a0.id]          # the statistic of the cell named before it is appended
                ok = ok or is_stat_of(a0, lp.target.id)
    for cp in comps:
        if isinstance(cp.generators[0].target, ast.Name):
            shown = norm(cp)
            ok = ok or is_stat_of(cp.elt, cp.generators[0].target.id)
    rep.add('L4', f, 'cell_stats', shown or 'per-cell statistic', f.node.lineno, ok,
            'each cell must be the chosen statistic funcs[func] of that cell\'s tuple across layers')


def _block_of(root, stmt):
    """(statement list holding stmt, index) inside root"""
    for n in ast.walk(root):
        for fld in ('body', 'orelse'):
            b = getattr(n, fld, None)
            if isinstance(b, list) and stmt in b:
                return b, b.index(stmt)
    return None, None


def check_combine(rep, f, loop, comb):
    """ids from 1 in first-occurrence order, forward map tuple -> id, inverse map id -> tuple in attrs; every cell gets
    the id recorded for its tuple.  Decided per path through the loop body (astutil.body_paths): the paths on which the
    membership test of the cell tuple is false ("new"), true ("seen"), or not reached ("other": NaN cells)."""
    from ..astutil import body_paths

    def member(test):
        """(dict name, True for `in` / False for `not in`) if test is the membership test of the cell tuple"""
        if isinstance(test, ast.UnaryOp) and isinstance(test.op, ast.Not):
            r = member(test.operand)
            return (r[0], not r[1]) if r else None
        if isinstance(test, ast.Compare) and len(test.ops) == 1 and isinstance(test.ops[0], (ast.In, ast.NotIn)) and \
                norm(test.left) == comb:
            return norm(test.comparators[0]).replace('.keys()', ''), isinstance(test.ops[0], ast.In)
        return None
    try:
        paths = body_paths(loop.body)
    except ValueError as e:
        rep.add('L4', f, 'combine', 'per-cell paths', loop.lineno, None, str(e))
        return
    Ds = {member(t)[0] for p in paths for t, taken in p.conds if member(t)}
    if len(Ds) != 1:
        rep.add('L4', f, 'combine', 'membership test of the cell tuple', loop.lineno, None,
                'expected `%s in <dict>` / `%s not in <dict>` tests on one dict, found %s' % (comb, comb, sorted(Ds)))
        return
    D = Ds.pop()
    lookup = '%s[%s]' % (D, comb)

    def kind(p):
        for t, taken in p.conds:
            r = member(t)
            if r:
                return 'seen' if r[1] == taken else 'new'
        return 'other'
    groups = {'new': [], 'seen': [], 'other': []}
    for p in paths:
        groups[kind(p)].append(p)
    tline = next(t.lineno for p in paths for t, taken in p.conds if member(t))

    def writes(p):
        """(kind, statement) for the statements of a path that touch a name: store / augmented store / mutating call"""
        out = []
        for s in p.stmts:
            if isinstance(s, ast.Assign):
                for tg in s.targets:
                    out.append(('sub' if isinstance(tg, ast.Subscript) else 'name', norm(tg.value if isinstance(tg, ast.Subscript) else tg), s))
            elif isinstance(s, ast.AugAssign):
                tg = s.target
                out.append(('aug', norm(tg.value if isinstance(tg, ast.Subscript) else tg), s))
            elif isinstance(s, ast.Expr) and isinstance(s.value, ast.Call) and isinstance(s.value.func, ast.Attribute) and \
                    short(s.value) in ('pop', 'clear', 'update', 'setdefault', 'popitem'):
                out.append(('call', norm(s.value.func.value), s))
        return out
    # names from the structure of the first "new" path: forward store D[comb] = V, inverse store I[V] = comb
    V = I = None
    facts = []
    ok_new = bool(groups['new'])
    for p in groups['new']:
        fwd = [s for s in p.stmts if isinstance(s, ast.Assign) and norm(s.targets[0]) == lookup and isinstance(s.value, ast.Name)]
        v_ = fwd[0].value.id if len(fwd) == 1 else None
        inv = [s for s in p.stmts if isinstance(s, ast.Assign) and isinstance(s.targets[0], ast.Subscript) and v_ is not None and
               norm(s.targets[0].slice) == v_ and norm(s.value) == comb]
        i_ = norm(inv[0].targets[0].value) if len(inv) == 1 else None
        inc = [s for s in p.stmts if v_ is not None and norm(s).replace(' ', '') in ('%s+=1' % v_, '%s=%s+1' % (v_, v_), '%s=1+%s' % (v_, v_))]
        ordered = len(fwd) == 1 and len(inv) == 1 and len(inc) == 1 and \
            p.stmts.index(inc[0]) > max(p.stmts.index(fwd[0]), p.stmts.index(inv[0]))
        other = [norm(s) for k_, nm, s in writes(p) if nm in (v_, D, i_) and s not in fwd + inv + inc]
        facts.append((len(fwd), len(inv), len(inc), other))
        ok_new = ok_new and ordered and not other and (V in (None, v_)) and (I in (None, i_))
        V, I = V or v_, I or i_
        p.fwd, p.inc = (fwd[0] if fwd else None), (inc[0] if inc else None)
    # the other paths leave the counter and the maps alone
    stray = [norm(s) for g in ('seen', 'other') for p in groups[g] for k_, nm, s in writes(p) if V is not None and nm in (V, D, I)]
    # and nothing else in the loop (nested blocks that are not simple statements) touches them
    rep.add('L4', f, 'combine', 'new combination: %s[%s] = %s; %s[%s] = %s; %s += 1' % (D, comb, V, I, V, comb, V),
            tline, ok_new and not stray, 'a tuple seen for the first time must get the next id, be recorded in the forward and '
            'inverse maps, and only then the id advances by one; nothing else may change them in the loop ((forward, inverse, '
            'increment, other writes) per new-tuple path: %s; writes on other paths: %s)' % (facts, stray))
    if V is None:
        return
    las = f.local_assigns().get(V, [])
    outside = [v for v in las if isinstance(v, ast.AST) and not any(v is x for n in ast.walk(loop) for x in ast.iter_child_nodes(n))]
    ok_init = len(outside) >= 1 and const(outside[0]) == 1
    rep.add('L4', f, 'combine', '%s = %s' % (V, norm(outside[0]) if outside else None), f.node.lineno, ok_init,
            'combination ids must be numbered from 1')
    for nm in (D, I):
        vals = [v for v in f.local_assigns().get(nm, []) if isinstance(v, ast.AST)] if nm else []
        ok = len(vals) == 1 and norm(vals[0]) in ('{}', 'dict()')
        rep.add('L4', f, 'combine', '%s = %s' % (nm, norm(vals[0]) if vals else None), f.node.lineno, ok,
                'the forward / inverse maps must start empty')
    # attrs carry the inverse map
    ok = False
    for c in calls(f.node):
        if short(c) == 'DataArray':
            a = kw(c, 'attrs')
            if a is not None and I and I in norm(a) and 'key' in norm(a):
                ok = True
    rep.add('L4', f, 'combine', 'attrs=dict(key=%s)' % I, f.node.lineno, ok, 'the id-to-tuple key must be returned in attrs')
    # ---- the value every cell receives: on each path exactly one append to the result list, of the tuple's id
    res = {norm(c.args[0]) for c in calls(f.node) if short(c) in ('array', 'asarray') and c.args and isinstance(c.args[0], ast.Name)}
    if len(res) != 1:
        rep.add('L4', f, 'combine', 'per-cell id', tline, None, 'expected one list converted to the output array, found %s' % sorted(res))
        return
    R = next(iter(res))

    def appended(p):
        return [(s.value.args[0], s) for s in p.stmts if isinstance(s, ast.Expr) and isinstance(s.value, ast.Call) and
                short(s.value) == 'append' and s.value.args and norm(s.value.func.value) == R]
    once = all(len(appended(p)) == 1 for p in paths)
    good_new = True
    for p in groups['new']:
        for a, s in appended(p):
            if norm(a) == V and p.inc is not None and p.stmts.index(s) < p.stmts.index(p.inc):
                continue
            if norm(a) == lookup and p.fwd is not None and p.stmts.index(s) > p.stmts.index(p.fwd):
                continue
            good_new = False
    fixup = False
    good_seen = True
    for p in groups['seen']:
        for a, s in appended(p):
            if norm(a) == lookup:
                continue
            if norm(a) == '0':
                # deferred: a later pass replaces the 0 placeholders by the id stored for the tuple
                for n in f.own_nodes():
                    if isinstance(n, ast.Assign) and isinstance(n.targets[0], ast.Subscript) and norm(n.targets[0].value) == R \
                            and ('%s[' % D) in norm(n.value) and n.lineno > loop.end_lineno:
                        fixup = True
                good_seen = good_seen and fixup
            else:
                good_seen = False
    shown_new = sorted({norm(a) for p in groups['new'] for a, s in appended(p)})
    shown_seen = sorted({norm(a) for p in groups['seen'] for a, s in appended(p)})
    rep.add('L4', f, 'combine', 'every cell appends the id of its tuple to %s once (first occurrence: %s, repeated: %s%s)' % (
        R, shown_new, shown_seen, ', placeholders resolved later' if fixup else ''),
        tline, once and good_new and good_seen,
        'cells whose tuple was seen before must receive that tuple\'s id, first occurrences the freshly allocated one '
        '(%d paths through the loop body: %d new, %d seen, %d other)' % (len(paths), len(groups['new']), len(groups['seen']), len(groups['other'])))


def check(prog, rep):
    m = prog.module('local')
    for name in OPS:
        check_op(prog, rep, m, name)
    rep.floor('L1', 9)
    rep.floor('L6', 9)
    rep.floor('L5', 9)
    rep.floor('L2', 3)
    rep.floor('L3', 7)
    rep.floor('L4', 8)
    rep.floor('L-table', 6)
