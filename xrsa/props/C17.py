"""C17 - local operators are per-cell functions of the layers, NaN-absorbing.

Bespoke dataflow/shape rules over xrspatial/local.py: L1 lock-step iteration order is C (row-major) so that it agrees
with the row-major reference list and the (-1, ncols) reshape; L2 the three frequency operators use the comparators
{ref > item, ref == item, ref < item}; L3 a NaN test guards every per-cell result; L4 position/rank/combine
definitions; L5 reshape by the column count; stat table name -> numpy function.
"""
import ast

from ..astutil import calls, const, inline, is_nan_expr, kw, parent_map, enclosing, short, straightline_env, terminates
from ..program import AnalysisIncomplete, norm

OPS = ['cell_stats', 'combine', 'lesser_frequency', 'equal_frequency', 'greater_frequency', 'lowest_position',
       'highest_position', 'popularity', 'rank']
FREQ = {'lesser_frequency': '>', 'equal_frequency': '==', 'greater_frequency': '<'}


def cmp_oriented(test, ref='ref'):
    """comparison oriented as `ref OP item` -> OP text, or None"""
    if not (isinstance(test, ast.Compare) and len(test.ops) == 1):
        return None
    l, r = test.left, test.comparators[0]
    op = {ast.Gt: '>', ast.Lt: '<', ast.Eq: '==', ast.GtE: '>=', ast.LtE: '<=', ast.NotEq: '!='}.get(type(test.ops[0]))
    if op is None:
        return None
    if isinstance(l, ast.Name) and l.id == ref:
        return op
    if isinstance(r, ast.Name) and r.id == ref:
        return {'>': '<', '<': '>', '>=': '<=', '<=': '>=', '==': '==', '!=': '!='}[op]
    return None


def nan_guard(stmt, var):
    """`if np.isnan(var).any() [or ...]: ...append(nan); continue` -> True"""
    if not isinstance(stmt, ast.If):
        return False
    disj = stmt.test.values if isinstance(stmt.test, ast.BoolOp) and isinstance(stmt.test.op, ast.Or) else [stmt.test]
    has = False
    for d in disj:
        t = norm(d).replace(' ', '')
        if t in ('np.isnan(%s).any()' % var, 'np.any(np.isnan(%s))' % var, 'numpy.isnan(%s).any()' % var,
                 'any(np.isnan(%s))' % var):
            has = True
    if not has:
        return False
    appended_nan = any(isinstance(c, ast.Call) and short(c) == 'append' and c.args and is_nan_expr(c.args[0])
                       for s in stmt.body for c in ast.walk(s))
    return appended_nan and terminates(stmt.body)


def check_op(prog, rep, m, name):
    f = m.funcs.get(name)
    if f is None:
        raise AnalysisIncomplete('local.%s not found' % name)
    pm = parent_map(f.node)
    # ---- L1: nditer order
    its = [c for c in calls(f.node) if short(c) == 'nditer']
    for c in its:
        order = kw(c, 'order')
        ok = order is not None and const(order) == 'C'
        rep.add('L1', f, name, norm(c), c.lineno, ok,
                "np.nditer iterates in memory order ('K') by default; the cell order must be fixed to C (row-major) "
                "to agree with the row-major reference list and the (-1, ncols) reshape - otherwise F-ordered or "
                "transposed layers scramble the output")
    for c in its:
        # L6: the layers are taken in the caller's data_vars order
        arg = c.args[0] if c.args else None
        if isinstance(arg, ast.Name):
            vals = [v for v in f.local_assigns().get(arg.id, []) if isinstance(v, ast.AST)]
            arg = vals[0] if len(vals) == 1 else None
        ok = False
        if isinstance(arg, ast.ListComp) and len(arg.generators) == 1:
            g = arg.generators[0]
            tv = g.target.id if isinstance(g.target, ast.Name) else None
            ok = isinstance(g.iter, ast.Name) and g.iter.id == 'data_vars' and not g.ifs and tv is not None and \
                norm(arg.elt) in ('raster[%s].data' % tv, 'raster[%s].values' % tv)
        rep.add('L6', f, name, 'layers: %s' % (norm(arg)[:120] if arg is not None else None), c.lineno, ok,
                'the layers must be taken as raster[var] for var in data_vars, in the caller\'s data_vars order '
                '(positions, ranks and value tuples are defined relative to that order)')
    if not its:
        # alternative lock-step idioms: zip of ravel()/flatten() (C order by default)
        alt = [c for c in calls(f.node) if short(c) in ('ravel', 'flatten')]
        bad = [c for c in alt if (kw(c, 'order') is not None and const(kw(c, 'order')) != 'C') or
               (c.args and const(c.args[0]) not in ('C',))]
        rep.add('L1', f, name, 'lock-step iteration via %s' % sorted({short(c) for c in alt}), f.node.lineno,
                bool(alt) and not bad, 'no np.nditer and no C-ordered ravel/flatten lock-step iteration found'
                if not alt else 'non-C flattening order')
    # ---- L5: reshape by the column count
    rs = [c for c in calls(f.node) if short(c) == 'reshape']
    for c in rs:
        shp = None
        if isinstance(c.func, ast.Attribute) and isinstance(c.func.value, ast.Name) and c.func.value.id in ('np', 'numpy'):
            shp = c.args[1] if len(c.args) > 1 else kw(c, 'newshape') or kw(c, 'shape')
        else:
            shp = c.args[0] if len(c.args) == 1 else ast.Tuple(elts=list(c.args), ctx=ast.Load())
        ok = False
        why = 'shape argument %s' % (norm(shp) if shp is not None else None)
        if isinstance(shp, ast.Tuple) and len(shp.elts) == 2:
            a, b = shp.elts
            if const(a) == -1:
                t = norm(b)
                ok = t.endswith('.shape[1]') or t.endswith('.shape[-1]')
            elif const(b) == -1:
                ok = False
            else:
                ta, tb = norm(a), norm(b)
                ok = (ta.endswith('.shape[0]') or ta.endswith('.shape[-2]')) and \
                     (tb.endswith('.shape[1]') or tb.endswith('.shape[-1]'))
        elif shp is not None and norm(shp).endswith('.shape'):
            ok = True
        if kw(c, 'order') is not None and const(kw(c, 'order')) != 'C':
            ok = False
        rep.add('L5', f, name, norm(c), c.lineno, ok,
                'the flat per-cell list is row-major: it must be reshaped to (-1, number of columns); ' + why)
    if not rs:
        rep.add('L5', f, name, 'reshape of the per-cell list', f.node.lineno, None, 'no reshape found')
    # ---- ref list row-major
    if 'ref_var' in f.params:
        refs = f.local_assigns().get('ref_list', [])
        ok = False
        txt = 'ref_list'
        if len(refs) == 1 and isinstance(refs[0], ast.AST):
            v = refs[0]
            txt = norm(v)
            if isinstance(v, ast.ListComp) and len(v.generators) == 2:
                g0, g1 = v.generators
                ok = isinstance(g1.iter, ast.Name) and isinstance(g0.target, ast.Name) and \
                    g1.iter.id == g0.target.id and norm(g0.iter) in ('raster[ref_var].data', 'raster[ref_var].values', 'raster[ref_var].data.tolist()', 'raster[ref_var].to_numpy()') and \
                    isinstance(v.elt, ast.Name) and isinstance(g1.target, ast.Name) and v.elt.id == g1.target.id
            elif isinstance(v, ast.Call) and short(v) in ('ravel', 'flatten', 'tolist'):
                ok = norm(v.func.value) in ('raster[ref_var].data', 'raster[ref_var].values') and not v.args and not v.keywords
        rep.add('L1-ref', f, name, txt, f.node.lineno, ok,
                'the reference layer must be flattened row-major (outer loop rows, inner loop cells)')
    # ---- per-cell loop
    loops = [n for n in f.own_nodes() if isinstance(n, ast.For) and 'iter_list' in norm(n.iter) and
             not any(short(c) == 'nditer' for c in calls(n.iter))]
    if name == 'cell_stats':
        check_cell_stats(prog, rep, m, f, loops)
        return
    if not loops:
        rep.add('L3', f, name, 'per-cell loop over iter_list', f.node.lineno, None, 'per-cell loop not found')
        return
    loop = loops[0]
    tgt = loop.target
    comb = tgt.elts[-1].id if isinstance(tgt, ast.Tuple) else tgt.id
    # ---- L3: NaN guard dominates every non-NaN append
    body = loop.body
    guard_pos = None
    for i, s in enumerate(body):
        if nan_guard(s, comb):
            guard_pos = i
            break
    appends = []
    in_guard_body = set()
    in_guard_else = set()
    if guard_pos is not None:
        for st in body[guard_pos].body:
            in_guard_body |= {id(x) for x in ast.walk(st)}
        for st in body[guard_pos].orelse:
            in_guard_else |= {id(x) for x in ast.walk(st)}
    for i, s in enumerate(body):
        for c in ast.walk(s):
            if isinstance(c, ast.Call) and short(c) == 'append' and c.args and not is_nan_expr(c.args[0]) \
                    and id(c) not in in_guard_body:
                appends.append((i, c))
    for i, c in appends:
        ok = guard_pos is not None and (i > guard_pos or id(c) in in_guard_else)
        rep.add('L3', f, name, norm(c), c.lineno, ok,
                'a NaN in any data layer must make the cell NaN: the `np.isnan(%s).any()` test (appending NaN and '
                'continuing) must come before every per-cell result' % comb)
    # a mutation of comb before the guard (rank sorts a private copy: allowed, sorting keeps NaN-ness)
    # ---- op-specific
    if name in FREQ:
        inner = [n for n in ast.walk(loop) if isinstance(n, ast.For) and n is not loop and norm(n.iter) == comb]
        ok = False
        why = 'inner loop over the cell tuple not found'
        if inner:
            item = inner[0].target.id if isinstance(inner[0].target, ast.Name) else None
            tests = [s for s in inner[0].body if isinstance(s, ast.If)]
            if len(tests) == 1 and len(inner[0].body) == 1:
                op = cmp_oriented(tests[0].test)
                other = tests[0].test.left if norm(tests[0].test.comparators[0]) == 'ref' else tests[0].test.comparators[0]
                inc = [s for s in tests[0].body if isinstance(s, ast.AugAssign) and isinstance(s.op, ast.Add)
                       and const(s.value) == 1]
                ok = op == FREQ[name] and isinstance(other, ast.Name) and other.id == item and len(inc) == 1 \
                    and not tests[0].orelse
                why = 'found `ref %s item`' % op
            else:
                why = 'inner loop body is not a single comparison'
        rep.add('L2', f, name, norm(inner[0].body[0].test) if inner and isinstance(inner[0].body[0], ast.If) else name,
                inner[0].lineno if inner else loop.lineno, ok,
                '%s must count the layers with `ref %s item` (the three operators partition the layers: > == <); %s'
                % (name, FREQ[name], why))
        # count reset per cell, appended after the inner loop
        resets = [s for s in body if isinstance(s, ast.Assign) and norm(s.targets[0]) == 'count' and const(s.value) == 0]
        ap = [c for i, c in appends if norm(c.args[0]) == 'count']
        rep.add('L2-count', f, name, 'count = 0 per cell; append(count)', loop.lineno, len(resets) == 1 and len(ap) == 1,
                'the counter must be reset for every cell and appended once')
    if name in ('lowest_position', 'highest_position'):
        fn = 'min' if name.startswith('lowest') else 'max'
        ok = False
        got = None
        for i, c in appends:
            env = straightline_env(body)
            e = inline(c.args[0], env)
            got = norm(e)
            want1 = '%s.index(%s(%s)) + 1' % (comb, fn, comb)
            alts = {want1, 'np.arg%s(%s) + 1' % (fn, comb), '1 + %s.index(%s(%s))' % (comb, fn, comb),
                    'int(np.arg%s(%s)) + 1' % (fn, comb), 'np.arg%s(%s) + 1' % (fn, comb)}
            ok = got in alts
        rep.add('L4', f, name, 'appended value: %s' % got, loop.lineno, ok,
                '%s must be the 1-based index of the first %simum: %s.index(%s(%s)) + 1' % (name, fn, comb, fn, comb))
    if name == 'rank':
        env = straightline_env(body)
        sorted_ok = any(isinstance(s, ast.Expr) and isinstance(s.value, ast.Call) and short(s.value) == 'sort' and
                        norm(s.value.func.value) == comb and not s.value.keywords and not s.value.args for s in body) or \
            any(isinstance(s, ast.Assign) and norm(s.targets[0]) == comb and norm(s.value) == 'sorted(%s)' % comb for s in body)
        got = None
        ok = False
        for i, c in appends:
            got = norm(inline(c.args[0], {k: v for k, v in env.items() if k != comb}))
            ok = got in ('%s[ref - 1]' % comb,)
        rep.add('L4', f, name, 'ascending sort then %s' % got, loop.lineno, ok and sorted_ok,
                'rank must sort the cell values ascending (no reverse) and take element ref - 1')
        # private copy: iter_list holds lists created per cell (list(...) in the nditer loop), so sort() is private
    if name == 'combine':
        check_combine(rep, f, loop, comb)


def check_cell_stats(prog, rep, m, f, loops):
    # table: name -> np.<name>
    vals = m.assigns.get('funcs', [])
    ok = len(vals) == 1 and isinstance(vals[0], ast.Dict)
    if ok:
        for k, v in zip(vals[0].keys, vals[0].values):
            key = const(k)
            good = norm(v) in ('np.%s' % key, 'numpy.%s' % key)
            rep.add('L-table', m, 'cell_stats', "funcs[%r] = %s" % (key, norm(v)), v.lineno, good,
                    'statistic %r must map to the same-named NumPy function (the non-nan variant, so NaN propagates)' % key)
    else:
        rep.add('L-table', m, 'cell_stats', 'funcs table', 1, None, 'module table `funcs` not found as one dict literal')
    ok = False
    for lp in loops:
        for c in calls(lp):
            if short(c) == 'append' and c.args:
                a = c.args[0]
                if isinstance(a, ast.Call) and isinstance(a.func, ast.Subscript) and norm(a.func.value) == 'funcs' and \
                        norm(a.func.slice) == 'func' and len(a.args) == 1 and norm(a.args[0]) == norm(lp.target):
                    ok = True
    rep.add('L4', f, 'cell_stats', 'out.append(funcs[func](comb))', f.node.lineno, ok,
            'each cell must be the chosen statistic of that cell\'s tuple across layers')


def check_combine(rep, f, loop, comb):
    # ids from 1 in first-occurrence order; inverse map in attrs
    init = [v for v in f.local_assigns().get('value', []) if isinstance(v, ast.AST)]
    ok_init = len(init) >= 1 and const(init[0]) == 1
    rep.add('L4', f, 'combine', 'value = %s' % (norm(init[0]) if init else None), f.node.lineno, ok_init,
            'combination ids must be numbered from 1')
    # in the else-branch of `if comb in unique_comb`: unique_comb[comb] = value; unique_values[value] = comb; value += 1
    found = {'fwd': False, 'inv': False, 'inc': False, 'store': False}
    for n in ast.walk(loop):
        if isinstance(n, ast.If) and isinstance(n.test, ast.Compare) and isinstance(n.test.ops[0], ast.In) and \
                norm(n.test.left) == comb:
            dname = norm(n.test.comparators[0]).replace('.keys()', '')
            for s in n.orelse:
                t = norm(s)
                if t == '%s[%s] = value' % (dname, comb):
                    found['fwd'] = True
                if isinstance(s, ast.Assign) and isinstance(s.targets[0], ast.Subscript) and \
                        norm(s.targets[0].slice) == 'value' and norm(s.value) == comb:
                    found['inv'] = True
                    found['invname'] = norm(s.targets[0].value)
                if t == 'value += 1':
                    found['inc'] = True
                if isinstance(s, ast.Expr) and isinstance(s.value, ast.Call) and short(s.value) == 'append' and \
                        norm(s.value.args[0]) == 'value':
                    found['store'] = True
    ok = all(found[k] for k in ('fwd', 'inv', 'inc', 'store'))
    rep.add('L4', f, 'combine', 'new combination: dict[%s] = value; inverse[value] = %s; value += 1' % (comb, comb),
            loop.lineno, ok, 'a new tuple must get the next id, be recorded in the forward and inverse maps, and the id '
            'incremented by one: %s' % {k: v for k, v in found.items() if k != 'invname'})
    # attrs carry the inverse map
    ok = False
    for c in calls(f.node):
        if short(c) == 'DataArray':
            a = kw(c, 'attrs')
            if a is not None and found.get('invname') and found['invname'] in norm(a) and 'key' in norm(a):
                ok = True
    rep.add('L4', f, 'combine', 'attrs=dict(key=<id -> tuple map>)', f.node.lineno, ok,
            'the id-to-tuple key must be returned in attrs')
    # repeated combinations resolved through the forward map
    fix = False
    for n in f.own_nodes():
        if isinstance(n, ast.Assign) and isinstance(n.targets[0], ast.Subscript) and 'unique_comb[' in norm(n.value):
            fix = True
    rep.add('L4', f, 'combine', 'repeated tuples take the id stored for the tuple', f.node.lineno, fix,
            'cells whose tuple was seen before must receive that tuple\'s id')


def check(prog, rep):
    m = prog.module('local')
    for name in OPS:
        check_op(prog, rep, m, name)
    rep.floor('L1', 9)
    rep.floor('L6', 9)
    rep.floor('L5', 9)
    rep.floor('L2', 3)
    rep.floor('L3', 7)
    rep.floor('L4', 8)
    rep.floor('L-table', 6)
