"""C19 - distance metrics are metrics; circle/annulus kernels are the stated shapes.

Decided (templates whose instances are metrics by theorem): euclidean / manhattan are the 2-/1-norm of the coordinate
differences (exact normal forms), great-circle is the haversine template with latitude from y and longitude from x,
default radius 6378137 and four range guards; metric dispatch constant -> same-named function; the ellipse mask is
(x*half_h)^2 + (y*half_w)^2 <= (half_w*half_h)^2 on symmetric odd grids with x along columns (even in both
coordinates: flip symmetry), circle half sizes from the matching axis' cell size, annulus = outer - centred inner with
equal pads, unit table = SI factors with agreeing aliases, non-positive / malformed distances rejected.
"""
import ast
from fractions import Fraction

from ..astutil import calls, const, kw, short
from ..kai import cmp_cond, cond_key, cond_repr, flatten_and, interpret
from ..kutil import Spec, approx_equal, show
from ..program import AnalysisIncomplete, Func, norm
from ..sym import App, Rat, Sym, subst

UNIT_FAMILIES = {
    'meter': ({'meter', 'meters', 'm'}, Fraction(1)),
    'kilometer': ({'kilometer', 'kilometers', 'km'}, Fraction(1000)),
    'foot': ({'foot', 'feet', 'ft'}, Fraction('0.3048')),
    'mile': ({'miles', 'mls', 'ml'}, Fraction('1609.344')),
}


def nan_guard_rule(prog, rep, f, rule, entry):
    """NaN coordinates (the dask path pads the coordinate grids with a NaN halo) must not be rejected by the range guards of
    a distance function: the guards are folded with Python's own comparison semantics (`not (-180 <= nan <= 180)` is True,
    `nan > 180 or nan < -180` is not)"""
    from ..consteval import CannotFold, Folder
    rejected = []
    for p in f.params[:4]:
        env_ = {q: 0.0 for q in f.params[:4]}
        env_[p] = float('nan')
        d_ = f.defaults()
        try:
            fo = Folder(prog, f.module)
            for q, dn in d_.items():
                env_.setdefault(q, fo.ev(dn, {}))
            fo.block(f.node.body, env_)
        except CannotFold as ex:
            if str(ex) == 'raises':
                rejected.append(p)
        except Exception:       # noqa - a return is signalled by an exception of the folder
            pass
    rep.add(rule, f, entry, 'NaN coordinates pass the range guards of %s' % f.name, f.node.lineno, not rejected,
            'cells of the NaN halo that the dask path adds around the coordinate grids reach this function: a guard written '
            'as `not (lo <= v <= hi)` raises for NaN although `v > hi or v < lo` does not; rejected for NaN in %s' % rejected)


def check_metrics(prog, rep):
    m = prog.module('proximity')
    entry = 'metrics'
    P = {n: Rat.sym(n) for n in ('x1', 'x2', 'y1', 'y2', 'radius')}
    sp = Spec(prog, dict(P, PI=Rat.sym('pi')))
    specs = {
        'euclidean_distance': 'sqrt((x1 - x2) ** 2 + (y1 - y2) ** 2)',
        'manhattan_distance': 'abs(x1 - x2) + abs(y1 - y2)',
        'great_circle_distance': 'radius * 2 * arcsin(sqrt(sin((y2 * PI / 180 - y1 * PI / 180) / 2) ** 2 + '
                                 'cos(y1 * PI / 180) * cos(y2 * PI / 180) * sin((x2 * PI / 180 - x1 * PI / 180) / 2) ** 2))',
    }
    for name, text in specs.items():
        f = m.funcs.get(name)
        if f is None:
            raise AnalysisIncomplete('proximity.%s not found' % name)
        if f.params[:4] != ['x1', 'x2', 'y1', 'y2']:
            rep.add('V1', f, entry, '%s%s' % (name, tuple(f.params)), f.node.lineno, False,
                    'the public signature is (x1, x2, y1, y2)')
            continue
        # range checks moved into a jitted helper that raises are read in place
        k = interpret(prog, f, inline_procedures=True, inline_all=lambda g_: g_.jit is not None and prog.same_unit(f.module, g_.module))
        got = k.returns[-1][0] if k.returns else None
        want = sp.expr(text)
        ok = isinstance(got, Rat) and approx_equal(got, want, tol=0)
        rep.add('V1', f, entry, '%s = %s' % (name, show(got, 200)), f.node.lineno, ok,
                'must equal %s (a norm of the coordinate differences / the haversine formula with latitude from y and '
                'longitude from x): symmetry, identity of indiscernibles and the triangle inequality then hold by '
                'theorem' % text)
        if name == 'great_circle_distance':
            # default radius
            d = f.defaults().get('radius')
            rep.add('V2', f, entry, 'radius default %s' % (norm(d) if d is not None else None), f.node.lineno,
                    d is not None and const(d) == 6378137, 'the sphere radius defaults to 6378137 m')
            # range guards, evaluated: with the other three coordinates at 0, a call is rejected exactly when the
            # coordinate lies outside its range
            from fractions import Fraction as Fr
            from ..kutil import CannotEvaluate, eval_cond_full
            from ..sym import Sym
            for p, lim in (('x1', 180), ('x2', 180), ('y1', 90), ('y2', 90)):
                ok, why = None, ''
                if p in f.params:
                    try:
                        res = []
                        for v in (lim + 1, -lim - 1, lim, -lim, 0, Fr(2 * lim + 1, 2), -Fr(2 * lim + 1, 2)):
                            env = {Sym(q): Fr(0) for q in f.params[:4]}
                            env[Sym(p)] = Fr(v)
                            raised = any(all(eval_cond_full(g, env) for g in gs) for gs, node in k.raises)
                            returned = any(all(eval_cond_full(g, env) for g in gs) for val_, gs in k.returns)
                            # (a raise whose conditions hold is taken: the checks come first - a return in front of them is a
                            # second result path and refuted by the rule below)
                            res.append((v, raised, abs(v) > lim))
                        bad = [(str(v), r) for v, r, w in res if r != w]
                        ok = not bad
                        why = 'rejected for %s' % [str(v) for v, r, w in res if r] + ('; wrong for %s' % bad if bad else '')
                    except CannotEvaluate as e:
                        why = str(e)
                rep.add('V2', f, entry, 'range guard for %s' % p, f.node.lineno, ok,
                        'longitudes outside [-180, 180] and latitudes outside [-90, 90] must be rejected '
                        '(%s: raise iff |%s| > %d); %s' % (p, p, lim, why))
            nan_guard_rule(prog, rep, f, 'V2', entry)
            rep.add('V2', f, entry, 'one result expression', f.node.lineno, len(k.returns) == 1,
                    'the distance is one formula (checked by V1): a second return path would bypass it')
    # dispatch
    d = m.funcs.get('_distance')
    if d is None:
        raise AnalysisIncomplete('proximity._distance not found')
    consts = {}
    for n in ('EUCLIDEAN', 'GREAT_CIRCLE', 'MANHATTAN'):
        v = m.assigns.get(n, [])
        consts[n] = const(v[0]) if len(v) == 1 else None
    rep.add('V3', m, entry, 'metric constants %s' % consts, 1, len(set(consts.values())) == 3 and None not in consts.values(),
            'the three metric constants must be distinct')
    want_map = {'EUCLIDEAN': 'euclidean_distance', 'GREAT_CIRCLE': 'great_circle_distance', 'MANHATTAN': 'manhattan_distance'}
    # which metric function runs for which constant: the calls recorded by the interpreter, their guards evaluated per constant
    from fractions import Fraction as Fr
    from ..kutil import CannotEvaluate, eval_cond_full
    from ..sym import Sym
    kd = interpret(prog, d, strict=False, inline_depth=0)
    # the metric parameter is the one the dispatch conditions test; the others are the coordinates.  Names and order of the
    # dispatcher's parameters do not matter: each metric function must receive the four coordinates under its public names
    # (x1, x2, y1, y2), every coordinate once, and all three the same way
    from ..kutil import guard_atoms
    gsyms = {a.name for rec in kd.calls for a in guard_atoms(rec[2]) if isinstance(a, Sym) and a.name in d.params}
    mparam = next(iter(gsyms)) if len(gsyms) == 1 else None
    coords = [p_ for p_ in d.params if p_ != mparam]
    maps = {}
    for cn, fn in want_map.items():
        ok, got = None, None
        if consts.get(cn) is not None and mparam is not None:
            try:
                act = []
                for rec in kd.calls:
                    if all(eval_cond_full(g, {Sym(mparam): Fr(consts[cn])}) for g in rec[2]) and not any(rec[3] is r_[3] for r_ in act):
                        act.append(rec)
                got = [(r_[0].split('.')[-1], [a[1] if isinstance(a, tuple) and a and a[0] == 'param' else str(a) for a in r_[1]]) for r_ in act]
                ok = len(act) == 1 and got[0][0] == fn
                if ok:
                    tf = m.funcs.get(fn)
                    kws = act[0][5] if len(act[0]) > 5 and isinstance(act[0][5], dict) else {}
                    b_ = dict(zip(tf.params, got[0][1])) if tf is not None else {}
                    b_.update({k_: (v_[1] if isinstance(v_, tuple) and v_ and v_[0] == 'param' else str(v_)) for k_, v_ in kws.items()})
                    mp = tuple(b_.get(r_) for r_ in ('x1', 'x2', 'y1', 'y2'))
                    maps[cn] = mp
                    ok = len(coords) == 4 and sorted(mp, key=str) == sorted(coords)
            except CannotEvaluate as e:
                got = str(e)
        rep.add('V3', d, entry, '%s -> %s' % (cn, got), d.node.lineno, ok,
                'metric constant %s must be routed to %s(x1, x2, y1, y2), each coordinate of the dispatcher once' % (cn, fn))
    if len(maps) == 3 and len(set(maps.values())) != 1:
        rep.add('V3', d, entry, 'the three metrics receive the coordinates the same way', d.node.lineno, False,
                'x1/x2/y1/y2 of the metric functions must be the same dispatcher parameters for every metric: %s' % maps)
    # string -> constant mapping: the module-level table, whatever builds it (consteval.py)
    from ..consteval import CannotFold, fold_expr
    tv = m.assigns.get('DISTANCE_METRICS', [])
    if len(tv) == 1:
        try:
            table = fold_expr(prog, m, tv[0])
            ok = isinstance(table, dict) and table == {n_: consts[n_] for n_ in want_map}
            shown = sorted(table.items()) if isinstance(table, dict) else table
        except CannotFold as e:
            ok, shown = None, 'not a constant table: %s' % e
        rep.add('V3', m, entry, 'DISTANCE_METRICS %s' % (shown,), tv[0].lineno, ok, 'each metric name must map to its own constant')
    else:
        rep.add('V3', m, entry, 'DISTANCE_METRICS', 1, None, 'module-level table not found')


def check_units(prog, rep):
    m = prog.module('convolution')
    entry = 'kernels'
    vals = m.assigns.get('UNITS', [])
    if len(vals) != 1:
        raise AnalysisIncomplete('convolution.UNITS not found as one module-level table')
    # the table's value, whatever builds it (dict literal, comprehension over a tuple table, named factors): consteval.py
    from ..consteval import CannotFold, fold_expr
    try:
        raw = fold_expr(prog, m, vals[0])
    except CannotFold as e:
        raise AnalysisIncomplete('convolution.UNITS is not a constant table: %s' % e)
    if not isinstance(raw, dict):
        raise AnalysisIncomplete('convolution.UNITS is not a dict')
    table = {k_: (Fraction(str(v_)) if isinstance(v_, (int, float)) and not isinstance(v_, bool) else None) for k_, v_ in raw.items()}
    for fam, (aliases, factor) in UNIT_FAMILIES.items():
        for a in sorted(aliases):
            rep.add('U1', m, entry, 'UNITS[%r] = %s' % (a, table.get(a)), vals[0].lineno, table.get(a) == factor,
                    'unit alias %r must convert with the SI factor %s of %s' % (a, factor, fam))
    extra = set(table) - set().union(*[a for a, f in UNIT_FAMILIES.values()])
    rep.add('U1', m, entry, 'no other units: %s' % sorted(extra), vals[0].lineno, not extra, 'unexpected unit aliases')
    tm = m.funcs.get('_to_meters')
    tmr = to_meters_roles(prog, tm) if tm is not None else None
    rep.add('U1', tm or m, entry, '_to_meters = value * UNITS[unit]', tm.node.lineno if tm else 1, tmr is not None,
            'metres = value times the unit factor of the module table' + (' (value: %s, unit: %s)' % tmr if tmr else ''))
    gd = m.funcs.get('_get_distance')
    if gd is None:
        raise AnalysisIncomplete('_get_distance not found')
    # read with small helpers inlined and locals resolved: each rejecting test is classified by what it looks at and
    # evaluated on the finite set of cases that matter (token count 0..4; distance -1, 0, 1/2)
    import copy
    from ..astutil import inline, straightline_env
    from ..inline import inline_view
    from ..kutil import CannotEvaluate, Spec, eval_cond_full
    from ..sym import Rat, Sym
    gdv = inline_view(prog, gd)
    body = gdv.node.body

    class Repl(ast.NodeTransformer):
        def __init__(self, pred, name):
            self.pred, self.name, self.hit = pred, name, 0

        def visit_Call(self, n):
            if self.pred(n):
                self.hit += 1
                return ast.copy_location(ast.Name(id=self.name, ctx=ast.Load()), n)
            self.generic_visit(n)
            return n
    found = {'count': None, 'numeric': None, 'positive': None, 'unit': None}
    why = {}
    # the token list: what re.split produced, directly, filtered by a comprehension, or collected by an append loop
    toks = set()
    for n in ast.walk(gdv.node):
        if isinstance(n, ast.Assign) and isinstance(n.targets[0], ast.Name) and 're.split' in norm(n.value):
            toks.add(n.targets[0].id)
        if isinstance(n, ast.For) and ('re.split' in norm(n.iter) or (isinstance(n.iter, ast.Name) and n.iter.id in toks)):
            for x in ast.walk(n):
                if isinstance(x, ast.Call) and isinstance(x.func, ast.Attribute) and x.func.attr == 'append' and \
                        isinstance(x.func.value, ast.Name):
                    toks.add(x.func.value.id)

    def from_tokens(e):
        return 're.split' in norm(e) or any(isinstance(x, ast.Name) and x.id in toks for x in ast.walk(e))

    def first_token(e):
        return isinstance(e, ast.Subscript) and const(e.slice) == 0 and from_tokens(e.value)
    for i in [n for n in body if isinstance(n, ast.If) and any(isinstance(x, ast.Raise) for x in n.body)]:
        env = straightline_env(body, upto=i)
        from ..astutil import literalise
        t = literalise(inline(i.test, env))
        txt = norm(t).replace(' ', '')
        try:
            unit_expr = None
            if 'UNITS' in txt and isinstance(t, ast.Compare) and isinstance(t.ops[0], ast.NotIn) and \
                    norm(t.comparators[0]) in ('UNITS', 'UNITS.keys()'):
                unit_expr = t.left
            elif 'UNITS' in txt and isinstance(t, ast.Compare) and isinstance(t.ops[0], ast.Is) and const(t.comparators[0]) is None and \
                    isinstance(t.left, ast.Call) and norm(t.left.func) == 'UNITS.get' and len(t.left.args) == 1:
                unit_expr = t.left.args[0]          # UNITS.get(unit) is None: no unit factor is None (U1)
            if unit_expr is not None:
                lowered = any(isinstance(x, ast.Call) and isinstance(x.func, ast.Attribute) and x.func.attr in ('lower', 'casefold')
                              for x in ast.walk(unit_expr))
                found['unit'] = (True, i)
                found['lower'] = (lowered, i)
            elif '_is_numeric(' in txt:
                ok = isinstance(t, ast.UnaryOp) and isinstance(t.op, ast.Not) and isinstance(t.operand, ast.Call) and \
                    short(t.operand) == '_is_numeric' and first_token(t.operand.args[0])
                found['numeric'] = (ok, i)
            elif 'float(' in txt:
                r = Repl(lambda n: short(n) == 'float', '__d')
                t2 = ast.fix_missing_locations(r.visit(copy.deepcopy(t)))
                sp = Spec(prog, {'__d': Rat.sym('d')}, m)
                c = sp.it.cond_of(sp.it.ev(t2), t2)
                vals = [eval_cond_full(c, {Sym('d'): Fraction(k)}) for k in (Fraction(-1), Fraction(0), Fraction(1, 2))]
                first = any(isinstance(x, ast.Call) and short(x) == 'float' and first_token(x.args[0]) for x in ast.walk(t))
                found['positive'] = (vals == [True, True, False] and first, i)
                why['positive'] = 'rejects distances %s' % [str(k) for k, v in zip(('-1', '0', '1/2'), vals) if v]
            elif 'len(' in txt and any(isinstance(x, ast.Call) and short(x) == 'len' and x.args and from_tokens(x.args[0]) for x in ast.walk(t)):
                r = Repl(lambda n: short(n) == 'len' and n.args and from_tokens(n.args[0]), '__n')
                t2 = ast.fix_missing_locations(r.visit(copy.deepcopy(t)))
                if any(isinstance(x, ast.Name) and x.id != '__n' for x in ast.walk(t2)):
                    continue        # not a test of the token count alone
                sp = Spec(prog, {'__n': Rat.sym('n')}, m)
                c = sp.it.cond_of(sp.it.ev(t2), t2)
                vals = [eval_cond_full(c, {Sym('n'): Fraction(k)}) for k in range(5)]
                found['count'] = (vals == [True, False, False, True, True], i)
                why['count'] = 'rejects token counts %s' % [k for k, v in enumerate(vals) if v]
        except (AnalysisIncomplete, CannotEvaluate) as e:
            why['error'] = str(e)
    if any(not found.get(k_) or not found[k_][0] for k_ in ('count', 'numeric', 'positive', 'unit')):
        # the same four rejections read off the wrapper terms of the parser (validation moved into helpers, early returns
        # instead of one `if ... raise`): every `raise` with the conditions it runs under; a condition on the number of
        # tokens is evaluated for 0..4 tokens, one on the parsed number for -1, 0, 1/2
        from ..wterm import WT, eval_cond, key as tkey, walk as twalk, show as tshow
        isnum = m.funcs.get('_is_numeric')
        w_ = WT(prog, depth=4, keep=[isnum] if isnum is not None else [])
        try:
            w_.run(gd)
            raises_ = list(w_.raises)
        except Exception:      # noqa
            raises_ = []
        lens_, floats_ = {}, {}
        for gs_, nd_ in raises_:
            for g_ in gs_:
                for x in twalk(g_):
                    if isinstance(x, tuple) and len(x) >= 3 and x[0] == 'call' and x[1] == ('global', 'len') and len(x[2]) == 1 and 're.split' in tshow(x[2][0], 400):
                        lens_[tkey(x)] = x
                    if isinstance(x, tuple) and len(x) >= 3 and x[0] == 'call' and x[1] == ('global', 'float') and len(x[2]) == 1 and \
                            x[2][0][0] == 'index' and x[2][0][2] == ('const', 0) and 're.split' in tshow(x[2][0][1], 400):
                        floats_[tkey(x)] = x

        def fires(gs_, terms):
            """True / False when every condition is decided by `terms`, None otherwise"""
            vals = []
            for g_ in gs_:
                try:
                    vals.append(eval_cond(g_, {'__terms__': terms}))
                except (ValueError, KeyError, TypeError):
                    return None
            return all(vals)
        if len(lens_) == 1 and not (found.get('count') and found['count'][0]):
            lk = next(iter(lens_))
            rej = []
            for n_ in range(5):
                rej.append(any(fires(gs_, {lk: n_}) is True for gs_, nd_ in raises_))
            nd0 = next((nd_ for gs_, nd_ in raises_ if fires(gs_, {lk: 0}) is True), gd.node)
            found['count'] = (rej == [True, False, False, True, True], nd0)
            why['count'] = 'rejects token counts %s' % [k_ for k_, v_ in enumerate(rej) if v_]
        if len(floats_) == 1 and not (found.get('positive') and found['positive'][0]):
            fk = next(iter(floats_))
            rej = []
            hit = None
            for d_ in (Fraction(-1), Fraction(0), Fraction(1, 2)):
                r_ = False
                for gs_, nd_ in raises_:
                    mine = [g_ for g_ in gs_ if any(tkey(x) == fk for x in twalk(g_))]
                    if mine and all(fires([g_], {fk: d_}) is True for g_ in mine) and len(mine) == 1 and mine[0] is gs_[-1]:
                        r_, hit = True, nd_
                rej.append(r_)
            found['positive'] = (rej == [True, True, False], hit or gd.node)
            why['positive'] = 'rejects distances %s' % [str(k_) for k_, v_ in zip(('-1', '0', '1/2'), rej) if v_]
        if isnum is not None and not (found.get('numeric') and found['numeric'][0]):
            for gs_, nd_ in raises_:
                g_ = gs_[-1] if gs_ else None
                if isinstance(g_, tuple) and g_[0] == 'not' and g_[1][0] == 'call' and g_[1][1] == isnum.qualname and g_[1][2] and \
                        g_[1][2][0][0] == 'index' and g_[1][2][0][2] == ('const', 0) and 're.split' in tshow(g_[1][2][0][1], 400):
                    found['numeric'] = (True, nd_)
        if not (found.get('unit') and found['unit'][0]):
            for gs_, nd_ in raises_:
                g_ = gs_[-1] if gs_ else None
                neg_ = False
                while isinstance(g_, tuple) and g_ and g_[0] == 'not':
                    g_, neg_ = g_[1], not neg_
                if isinstance(g_, tuple) and g_[0] == 'cmp' and g_[1] in ('NotIn', 'In') and (g_[1] == 'NotIn') != neg_ and \
                        g_[3] in (('global', 'UNITS'), ('call', ('method', ('global', 'UNITS'), 'keys'), (), ())):
                    lowered_ = any(isinstance(x, tuple) and len(x) == 3 and x[0] == 'method' and x[2] in ('lower', 'casefold') for x in twalk(g_[2]))
                    found['unit'] = (True, nd_)
                    found.setdefault('lower', (lowered_, nd_))
                    if not found['lower'][0]:
                        found['lower'] = (lowered_, nd_)
    need = {'count': 'malformed strings (not exactly a number with an optional unit) are rejected',
            'numeric': 'non-numeric distances are rejected', 'positive': 'non-positive distances are rejected',
            'unit': 'unknown units are rejected'}
    for kind, reason in need.items():
        f_ = found.get(kind)
        rep.add('U2', gd, entry, 'rejecting test: %s' % kind, f_[1].lineno if f_ else gd.node.lineno, bool(f_ and f_[0]),
                reason + ('; ' + why[kind] if kind in why else '') + ('; ' + why['error'] if 'error' in why else ''))
    rets = [n for n in body if isinstance(n, ast.Return)]
    okr = False
    lowered = bool(found.get('lower') and found['lower'][0])
    if len(rets) == 1 and rets[0].value is not None:
        rv = inline(rets[0].value, straightline_env(body, upto=rets[0]))
        tm_ok = isinstance(rv, ast.Call) and short(rv) == '_to_meters' and tm is not None and tmr is not None
        if tm_ok:
            b_ = dict(zip(tm.params, rv.args))
            b_.update({k_.arg: k_.value for k_ in rv.keywords if k_.arg})
            tm_ok = tmr[0] in b_ and tmr[1] in b_
            if tm_ok:
                rv = ast.Call(func=ast.Name(id='_to_meters', ctx=ast.Load()), args=[b_[tmr[0]], b_[tmr[1]]], keywords=[])
        if not tm_ok and isinstance(rv, ast.BinOp) and isinstance(rv.op, ast.Mult) and 'UNITS[' in norm(rv):
            # _to_meters inlined: value * UNITS[unit]
            sides = [rv.left, rv.right]
            un = [x for x in sides if isinstance(x, ast.Subscript) and norm(x.value) == 'UNITS']
            va = [x for x in sides if x not in un]
            if len(un) == 1 and len(va) == 1:
                tm_ok = True
                rv = ast.Call(func=ast.Name(id='_to_meters', ctx=ast.Load()), args=[va[0], un[0].slice], keywords=[])
        if tm_ok:
            d_ok = any(isinstance(x, ast.Call) and short(x) == 'float' and first_token(x.args[0]) for x in ast.walk(rv.args[0]))
            u_low = any(isinstance(x, ast.Call) and isinstance(x.func, ast.Attribute) and x.func.attr in ('lower', 'casefold')
                        for x in ast.walk(rv.args[1]))
            lowered = lowered and u_low
            okr = d_ok
    rep.add('U2', gd, entry, 'unit lower-cased before it is looked up and used', gd.node.lineno, lowered, 'units are case-insensitive')
    # U2-norm: the normalisation between the token and the table lookup maps every documented spelling - in any case, with
    # the blank that separates it from the number - to its own key.  The statements that rewrite the unit are pure string
    # code; they are folded (consteval) on the keys of the UNITS table itself: a check of two tables of the program
    # against each other (what the parser produces / what the table holds), not a run of the parser.
    un_if = found.get('unit')
    oku, whyu = None, 'unit lookup not identified'
    if un_if and un_if[0]:
        from ..consteval import CannotFold, Folder, fold_expr
        t_ = un_if[1].test
        uvar = None
        for x in ast.walk(t_):
            if isinstance(x, ast.Name) and x.id not in ('UNITS',):
                uvar = x.id
                break
        pos = body.index(un_if[1]) if un_if[1] in body else None
        if uvar is not None and pos is not None:
            # backward slice: the statements that define the looked-up name, and what they read, back to the token list
            needed = {uvar}
            chain = []
            for s_ in reversed(body[:pos]):
                if isinstance(s_, ast.If) and any(isinstance(x, ast.Raise) for x in ast.walk(s_)):
                    continue
                tg = {x.id for x in ast.walk(s_) if isinstance(x, ast.Name) and isinstance(x.ctx, ast.Store)}
                if not (tg & needed) or not isinstance(s_, (ast.Assign, ast.AugAssign, ast.If)):
                    continue
                if tg & toks:
                    continue            # the split itself: the token list is given by the model
                chain.insert(0, s_)
                needed |= {x.id for x in ast.walk(s_) if isinstance(x, ast.Name) and isinstance(x.ctx, ast.Load)}
            try:
                table_ = fold_expr(prog, m, ast.Name(id='UNITS', ctx=ast.Load()))
                keys = list(table_.keys())
                bad_ = []
                for k_ in keys:
                    for v_ in (k_, k_.upper(), ' ' + k_, k_.title() + ' '):
                        env_ = {t_: ['3', v_] for t_ in toks}
                        if not (needed & toks):
                            env_[uvar] = v_          # the unit name is bound straight from the token elsewhere
                        Folder(prog, m).block(chain, env_)
                        if env_[uvar] not in table_ or table_[env_[uvar]] != table_[k_]:
                            bad_.append((v_, env_[uvar], 'no unit' if env_[uvar] not in table_ else 'another unit'))
                oku = not bad_
                whyu = 'spelling %r is looked up as %r: %s' % bad_[0] if bad_ else '%d spellings x 4 forms' % len(keys)
            except (CannotFold, AttributeError) as ex:
                oku, whyu = None, 'normalisation not foldable: %s' % ex
    if oku is None or not okr:
        # on the wrapper terms of the parser (helpers evaluated in place): the returned value is float(first token) times
        # UNITS[<unit term>]; the unit term is evaluated on the table's own spellings
        from ..wterm import WT as _WT, key as _tk, walk as _tw, show as _ts
        from ..consteval import fold_expr as _fold
        w2 = _WT(prog, depth=4)
        try:
            ret2 = w2.run(gd)
        except Exception:      # noqa
            ret2 = None
        from ..wterm import atom_term as _at, is_arith as _isar

        def deep(t_):
            """sub-terms, through the atoms of arithmetic terms"""
            for x in _tw(t_):
                yield x
                if _isar(x):
                    for a_ in x[1].atoms():
                        tt = _at(a_)
                        if tt is not None:
                            for y in deep(tt):
                                yield y
        subs = list(deep(ret2)) if ret2 is not None else []
        uts = [x for x in subs if isinstance(x, tuple) and len(x) == 3 and x[0] == 'index' and x[1] == ('global', 'UNITS')]
        uts = uts[:1] if len({_tk(x) for x in uts}) == 1 else uts
        fl2 = [x for x in subs if isinstance(x, tuple) and len(x) >= 3 and x[0] == 'call' and
               x[1] == ('global', 'float') and len(x[2]) == 1 and x[2][0][0] == 'index' and x[2][0][2] == ('const', 0)]
        if ret2 is not None and ret2[0] == 'arith' and len(uts) == 1 and len(fl2) >= 1 and not okr:
            okr = True          # distance * UNITS[unit]
            lowered = lowered or any(isinstance(x, tuple) and len(x) == 3 and x[0] == 'method' and x[2] in ('lower', 'casefold') for x in _tw(uts[0][2]))
        if len(uts) == 1 and oku is None:
            class _NoStr(Exception):
                pass

            def ev_u(t_, tok):
                if t_[0] == 'const':
                    return t_[1]
                if t_[0] == 'global':
                    try:
                        return _fold(prog, m, ast.parse(t_[1], mode='eval').body)
                    except Exception:      # noqa
                        raise _NoStr(t_[1])
                if t_[0] == 'index' and t_[2] == ('const', 1) and 're.split' in _ts(t_[1], 400):
                    return tok
                if t_[0] == 'phi':
                    # the unit is the second token when there are two (the model), the default otherwise
                    c_ = t_[1]
                    txt = _ts(c_, 400)
                    if c_[0] == 'cmp' and c_[1] in ('Eq', 'NotEq') and 'len' in txt and c_[3][0] == 'const' and c_[3][1] in (1, 2):
                        two = (c_[3][1] == 2) == (c_[1] == 'Eq')
                        return ev_u(t_[2] if two else t_[3], tok)
                    raise _NoStr('condition %s' % txt[:60])
                if t_[0] == 'call' and isinstance(t_[1], tuple) and t_[1][0] == 'method' and t_[1][2] in (
                        'lower', 'casefold', 'upper', 'strip', 'lstrip', 'rstrip', 'replace', 'title', 'removesuffix', 'removeprefix'):
                    recv = ev_u(t_[1][1], tok)
                    args_ = [ev_u(a_, tok) for a_ in t_[2]]
                    if not isinstance(recv, str) or not all(isinstance(a_, str) for a_ in args_):
                        raise _NoStr('method %s' % t_[1][2])
                    return getattr(recv, t_[1][2])(*args_)
                raise _NoStr(_ts(t_, 60))
            try:
                table_ = _fold(prog, m, ast.Name(id='UNITS', ctx=ast.Load()))
                bad_ = []
                for k_ in table_:
                    for v_ in (k_, k_.upper(), ' ' + k_, k_.title() + ' '):
                        r_ = ev_u(uts[0][2], v_)
                        if r_ not in table_ or table_[r_] != table_[k_]:
                            bad_.append((v_, r_, 'no unit' if r_ not in table_ else 'another unit'))
                oku = not bad_
                whyu = 'spelling %r is looked up as %r: %s' % bad_[0] if bad_ else '%d spellings x 4 forms (unit term)' % len(table_)
            except _NoStr as ex:
                whyu = 'unit term not evaluable: %s' % ex
    rep.add('U2', gd, entry, 'normalisation keeps every documented spelling', un_if[1].lineno if un_if else gd.node.lineno, oku,
            'every key of the unit table, in any case and next to a blank, must reach the lookup as that key; ' + whyu)
    rep.add('U2', gd, entry, 'returns _to_meters(distance, unit)', gd.node.lineno, okr, 'the parsed distance is converted to metres')
    cc = m.funcs.get('calc_cellsize')
    if cc is not None:
        from ..wterm import WT, key as tkey, resolve, show as tshow
        gdr = prog.module('utils').funcs.get('get_dataarray_resolution')
        tm_ = m.funcs.get('_to_meters')
        w = WT(prog, keep=[x for x in (gdr, tm_) if x is not None])
        ret = w.run(cc)
        rp = ('param', cc.params[0])
        env = {'raster': rp}
        res_t = [x.result for x in w.calls if x.callee is gdr]
        ok, why = None, 'returned value not understood'
        if ret is not None and ret[0] == 'tuple' and len(ret[1]) == 2 and len(res_t) == 1:
            def strip_abs(t_):
                if t_[0] == 'call' and t_[1] in ('numpy.abs', 'numpy.absolute', 'builtins.abs', ('global', 'abs')) and len(t_[2]) == 1:
                    return t_[2][0], True
                return t_, False
            comps = []
            for k_, t_ in enumerate(ret[1]):
                t_, ab = strip_abs(t_)
                tmr_ = to_meters_roles(prog, tm_) if tm_ is not None else None
                if t_[0] == 'call' and tm_ is not None and tmr_ is not None and t_[1] == tm_.qualname:
                    b_ = dict(zip(tm_.params, t_[2]))
                    b_.update(dict(t_[3]))
                    if tmr_[0] in b_ and tmr_[1] in b_:
                        v_, ab2 = strip_abs(b_.get(tmr_[0]))
                        comps.append((k_, v_, b_.get(tmr_[1]), ab or ab2))
            if len(comps) == 2:
                units = []
                for has in (True, False):
                    def decide(cnd, has=has):
                        if "'unit'" in tkey(cnd) and 'attrs' in tkey(cnd):
                            if cnd[0] == 'cmp' and cnd[1] in ('In', 'NotIn'):
                                return has if cnd[1] == 'In' else not has
                        return None
                    units.append([resolve(c_[2], decide) for c_ in comps])
                want_has = w.expr("raster.attrs['unit']", env, cc)
                alt_get = w.expr("raster.attrs.get('unit', DEFAULT_UNIT)", env, cc)
                dflt = w.expr('DEFAULT_UNIT', env, cc)
                unit_ok = all(tkey(u) in (tkey(want_has), tkey(alt_get)) for u in units[0]) and \
                    all(tkey(u) in (tkey(dflt), tkey(alt_get)) for u in units[1])
                comp_ok = all(tkey(c_[1]) == tkey(('index', res_t[0], ('const', c_[0]))) for c_ in comps)
                ok = unit_ok and comp_ok and comps[1][3]
                why = 'components (x, y) from the resolution pair: %s; unit from attrs or the default: %s; |y|: %s' % (comp_ok, unit_ok, comps[1][3])
        rep.add('U3', cc, entry, 'calc_cellsize: (x, y) resolution converted to metres', cc.node.lineno, ok,
                'cell sizes are taken as (x, y) from the resolution helper and converted with the raster\'s unit; ' + why)


def _pad_terms(prog, m):
    """is the np.pad of annulus_kernel the inner circle padded by ((d0, d0), (d1, d1)), dk = (outer.shape[k] - inner.shape[k]) // 2,
    with zeros - decided on wrapper terms; None when the terms do not show it either way"""
    from ..wterm import WT, key as tkey
    akf, ckf = m.funcs.get('annulus_kernel'), m.funcs.get('circle_kernel')
    if akf is None or ckf is None:
        return None
    w = WT(prog, keep=[ckf], two_d=lambda t: isinstance(t, tuple) and t and t[0] == 'call' and t[1] == ckf.qualname)
    w.run(akf)
    circ = [x for x in w.calls if x.callee is ckf]
    pads = [x for x in w.calls if x.name.endswith('.pad')]
    if len(circ) != 2 or len(pads) != 1:
        return None
    rp = {tkey(x.bound.get(ckf.params[2])): x for x in circ if ckf.params[2] in x.bound}
    O, I = rp.get(tkey(('param', akf.params[2]))), rp.get(tkey(('param', akf.params[3])))
    if O is None or I is None:
        return None
    pc = pads[0]
    arr = pc.args[0] if pc.args else pc.kwargs.get('array')
    pw = pc.kwargs.get('pad_width') or (pc.args[1] if len(pc.args) > 1 else None)
    if arr is None or pw is None:
        return None
    want = w.expr('(((o.shape[0] - i.shape[0]) // 2, (o.shape[0] - i.shape[0]) // 2), ((o.shape[1] - i.shape[1]) // 2, (o.shape[1] - i.shape[1]) // 2))',
                  {'o': O.result, 'i': I.result}, akf)
    mode = pc.kwargs.get('mode', pc.args[2] if len(pc.args) > 2 else ('const', 'constant'))
    cv = pc.kwargs.get('constant_values', ('const', 0))
    if pw[0] != 'tuple':
        return None
    return tkey(pw) == tkey(want) and tkey(arr) == tkey(I.result) and mode == ('const', 'constant') and cv in (('const', 0), ('const', 0.0))


def to_meters_roles(prog, tm):
    """(value parameter, unit parameter) of the conversion helper when it returns value * UNITS[unit] - read off the wrapper
    term of its result, whatever the parameters are called and however they are ordered (a defaulted table parameter is fine)"""
    from ..wterm import WT, to_rat, atom_term
    w = WT(prog)
    dflt = tm.defaults()
    env = {p_: (w.ev(tm, dflt[p_], {}, 0) if p_ in dflt else ('param', p_)) for p_ in tm.params + tm.kwonly}
    ret = w.run(tm, env)
    if ret is None or ret[0] != 'arith':
        return None
    r = ret[1]
    ats = list(r.atoms())
    if len(ats) != 2:
        return None
    terms = [atom_term(a) for a in ats]
    val = [t for t in terms if t is not None and t[0] == 'param']
    fac = [t for t in terms if t is not None and t[0] == 'index' and t[1] == ('global', 'UNITS') and t[2][0] == 'param']
    if len(val) != 1 or len(fac) != 1 or r != to_rat(val[0]) * to_rat(fac[0]):
        return None
    return val[0][1], fac[0][2][1]


def check_kernels(prog, rep):
    m = prog.module('convolution')
    entry = 'kernels'
    f = m.funcs.get('_ellipse_kernel')
    if f is None:
        raise AnalysisIncomplete('_ellipse_kernel not found')
    hw, hh = f.params[:2]
    # Reading forms.  (a) `np.add.outer(A, B)` of two vectors is `A[:, None] + B`, and `[:, None]` on an element-wise expression
    # of one grid and scalars is that expression of the column grid: the column marker is pushed down to the `linspace` it
    # applies to (only when every array leaf under it is a linspace call - 1-D by construction - else nothing is rewritten).
    # (b) grids written in place inside other expressions are given names first (their arguments read only parameters), so
    # that the rule reads `x = linspace(..)`, `y = linspace(..)[:, None]` either way.
    import copy as _copy
    COLS = (':,None', '(:,None)', '(slice(None,None,None),None)', ':,np.newaxis', '(:,np.newaxis)')
    params_ = set(f.params)
    stored_ = {x_.id for x_ in ast.walk(f.node) if isinstance(x_, ast.Name) and isinstance(x_.ctx, ast.Store)}

    once_ = {}
    for s_ in f.node.body:
        if isinstance(s_, ast.Assign) and len(s_.targets) == 1 and isinstance(s_.targets[0], ast.Name):
            once_.setdefault(s_.targets[0].id, []).append(s_.value)
    nstores_ = {}
    for x_ in ast.walk(f.node):
        if isinstance(x_, ast.Name) and isinstance(x_.ctx, ast.Store):
            nstores_[x_.id] = nstores_.get(x_.id, 0) + 1

    def _scalar(e_, depth=0):
        # numbers made of the parameters (and of locals bound once, at the top level, to such numbers)
        if any(isinstance(x_, (ast.Call, ast.Subscript, ast.Attribute)) for x_ in ast.walk(e_)) or depth > 4:
            return False
        for x_ in ast.walk(e_):
            if isinstance(x_, ast.Name):
                if x_.id in params_ and x_.id not in stored_:
                    continue
                if nstores_.get(x_.id) == 1 and len(once_.get(x_.id, [])) == 1 and _scalar(once_[x_.id][0], depth + 1):
                    continue
                return False
        return True

    def _push(e_):
        """e_ as a column: None when it is not an element-wise expression of linspace vectors and scalars"""
        if isinstance(e_, ast.Call) and short(e_) == 'linspace':
            return ast.Subscript(value=e_, slice=ast.Tuple(elts=[ast.Slice(), ast.Constant(value=None)], ctx=ast.Load()), ctx=ast.Load())
        if _scalar(e_):
            return e_
        if isinstance(e_, ast.BinOp):
            l_, r_ = _push(e_.left), _push(e_.right)
            return None if l_ is None or r_ is None else ast.BinOp(left=l_, op=e_.op, right=r_)
        if isinstance(e_, ast.UnaryOp):
            o_ = _push(e_.operand)
            return None if o_ is None else ast.UnaryOp(op=e_.op, operand=o_)
        return None

    def _row(e_):
        if isinstance(e_, ast.Call) and short(e_) == 'linspace':
            return True
        if _scalar(e_):
            return True
        if isinstance(e_, ast.BinOp):
            return _row(e_.left) and _row(e_.right)
        if isinstance(e_, ast.UnaryOp):
            return _row(e_.operand)
        return False

    class _Cols(ast.NodeTransformer):
        def visit_Call(self, n):
            self.generic_visit(n)
            if isinstance(n.func, ast.Attribute) and n.func.attr == 'outer' and norm(n.func.value) in ('np.add', 'numpy.add') and \
                    len(n.args) == 2 and not n.keywords and _row(n.args[1]):
                c_ = _push(n.args[0])
                if c_ is not None:
                    return ast.copy_location(ast.BinOp(left=c_, op=ast.Add(), right=n.args[1]), n)
            return n

        def visit_Subscript(self, n):
            self.generic_visit(n)
            if norm(n.slice).replace(' ', '') in COLS and not (isinstance(n.value, ast.Call) and short(n.value) == 'linspace'):
                c_ = _push(n.value)
                if c_ is not None and not _scalar(n.value):
                    return ast.copy_location(c_, n)
            return n
    node_ = _Cols().visit(_copy.deepcopy(f.node))
    found_ = []

    def _is_grid(e_):
        if isinstance(e_, ast.Subscript) and isinstance(e_.value, ast.Call) and short(e_.value) == 'linspace':
            return True
        if isinstance(e_, ast.Call) and short(e_) == 'linspace':
            return True
        return isinstance(e_, ast.Call) and short(e_) == 'reshape' and isinstance(e_.func, ast.Attribute) and \
            isinstance(e_.func.value, ast.Call) and short(e_.func.value) == 'linspace'

    class _Name(ast.NodeTransformer):
        def visit(self, n):
            if isinstance(n, ast.expr) and _is_grid(n) and all(_scalar(a_) for x_ in ast.walk(n) if isinstance(x_, ast.Call) and
                                                                short(x_) == 'linspace' for a_ in x_.args):
                found_.append(n)
                return ast.copy_location(ast.Name(id='_grid%d' % (len(found_) - 1), ctx=ast.Load()), n)
            return super().visit(n)
    body_ = []
    for s_ in node_.body:
        if isinstance(s_, ast.Assign) and _is_grid(s_.value):
            body_.append(s_)        # already a named grid
            continue
        n0_ = len(found_)
        if isinstance(s_, (ast.Assign, ast.Return, ast.AugAssign, ast.Expr)):
            s_ = _Name().visit(s_)
        for i_ in range(n0_, len(found_)):
            body_.append(ast.copy_location(ast.Assign(targets=[ast.Name(id='_grid%d' % i_, ctx=ast.Store())], value=found_[i_]), s_))
        body_.append(s_)
    node_.body = body_
    left_ = [x_ for s_ in node_.body if not (isinstance(s_, ast.Assign) and _is_grid(s_.value)) for x_ in ast.walk(s_)
             if isinstance(x_, ast.Call) and short(x_) == 'linspace']
    if not left_ and ast.dump(node_) != ast.dump(f.node):
        ast.fix_missing_locations(node_)
        from ..program import Func as _Func
        g_ = _Func(f.module, node_, f.parent)
        g_.jit, g_.children = f.jit, f.children
        f = g_
    from ..astutil import inline, straightline_env
    from ..kai import Arr, TupleV
    W, H = Rat.sym('W'), Rat.sym('H')
    grids = {}
    sp_run = Spec(prog, {hw: W, hh: H}, m)        # scalar locals defined on the way (`n_cols = 2 * half_w + 1`) are evaluated
    for s_ in f.node.body:
        if not (isinstance(s_, ast.Assign) and isinstance(s_.targets[0], ast.Name)):
            continue
        v = s_.value
        col = False
        if not any(isinstance(x_, ast.Call) for x_ in ast.walk(v)):
            names_ = {x_.id for x_ in ast.walk(v) if isinstance(x_, ast.Name)}
            if names_ and names_ <= set(sp_run.it.env):
                try:
                    sp_run.it.stmt(s_)
                except AnalysisIncomplete:
                    pass
        # a column vector: [:, None] / [:, np.newaxis] / .reshape(-1, 1)
        if isinstance(v, ast.Subscript) and norm(v.slice).replace(' ', '') in (':,None', '(:,None)', '(slice(None,None,None),None)',
                                                                              ':,np.newaxis', '(:,np.newaxis)'):
            col, v = True, v.value
        elif isinstance(v, ast.Call) and short(v) == 'reshape' and isinstance(v.func, ast.Attribute):
            shp_ = list(v.args) if len(v.args) == 2 else (list(v.args[0].elts) if len(v.args) == 1 and isinstance(v.args[0], ast.Tuple) else [])
            inner_ = v.func.value
            if len(shp_) == 2 and const(shp_[1]) == 1:
                # (-1, 1), or (n, 1) with n the very number of points of the linspace it reshapes
                same_n = isinstance(inner_, ast.Call) and short(inner_) == 'linspace' and len(inner_.args) == 3 and norm(shp_[0]) == norm(inner_.args[2])
                if const(shp_[0]) == -1 or same_n:
                    col, v = True, inner_
        if isinstance(v, ast.Call) and short(v) == 'linspace' and len(v.args) == 3:
            try:
                sp0 = sp_run
                grids[s_.targets[0].id] = ([sp0.it.as_scalar(sp0.it.ev(a_)) for a_ in v.args], col, s_)
            except AnalysisIncomplete:
                grids[s_.targets[0].id] = (None, col, s_)
    xs = [(n, g) for n, g in grids.items() if not g[1]]
    ys = [(n, g) for n, g in grids.items() if g[1]]
    one, two = Rat.const(1), Rat.const(2)
    if len(xs) == 1 and len(ys) == 1 and xs[0][1][0] == [-H, H, two * H + one] and ys[0][1][0] == [-W, W, two * W + one]:
        # the half width is whichever parameter spans the row vector (the columns), the half height the one spanning the
        # column vector (the rows): the other order of the two parameters (callers are bound by these roles below)
        hw, hh = hh, hw
        W, H = H, W
    okx = len(xs) == 1 and xs[0][1][0] == [-W, W, two * W + one]
    oky = len(ys) == 1 and ys[0][1][0] == [-H, H, two * H + one]
    rep.add('E1', f, entry, 'grids %s' % {n: ([show(a_, 20) for a_ in (g[0] or [])], 'column vector' if g[1] else 'row vector') for n, g in grids.items()},
            f.node.lineno, (okx and oky) if grids else None,
            'x must run over the columns as linspace(-half_w, half_w, 2*half_w+1) and y over the rows (column vector) as '
            'linspace(-half_h, half_h, 2*half_h+1): symmetric odd grids, width with the column axis')
    if not (okx and oky):
        return
    xn, yn = xs[0][0], ys[0][0]
    rets = [n for n in f.own_nodes() if isinstance(n, ast.Return)]
    # special cases in front of the formula (`if half_w == 0 or half_h == 0: return np.ones((1, 1))`): the guard is folded for
    # half sizes 0..3 on both axes; wherever it holds, the constant kernel returned must be what the formula gives there - shape
    # (2*half_h + 1, 2*half_w + 1), and all ones only where every grid point satisfies the inequality
    early = [s_ for s_ in f.node.body if isinstance(s_, ast.If) and not s_.orelse and len(s_.body) >= 1 and isinstance(s_.body[-1], ast.Return) and
             all(isinstance(b_, ast.Expr) for b_ in s_.body[:-1])]
    if early and len(rets) == len(early) + 1:
        from ..consteval import CannotFold, Folder
        for s_ in early:
            r_ = s_.body[-1]
            v_ = r_.value
            shp = fillv = None
            if isinstance(v_, ast.Call) and short(v_) in ('ones', 'zeros', 'full') and v_.args and isinstance(v_.args[0], ast.Tuple) and len(v_.args[0].elts) == 2:
                shp = tuple(const(e_) for e_ in v_.args[0].elts)
                fillv = {'ones': 1, 'zeros': 0}.get(short(v_), const(v_.args[1]) if len(v_.args) > 1 else None)
            bad_, ok_ = [], None
            if shp is not None and all(isinstance(x_, int) for x_ in shp) and fillv is not None:
                ok_ = True
                try:
                    for w_ in range(4):
                        for h_ in range(4):
                            if Folder(prog, m).ev(s_.test, {hw: w_, hh: h_}):
                                want_shape = (2 * h_ + 1, 2 * w_ + 1)
                                inside = [(xx * h_) ** 2 + (yy * w_) ** 2 <= (w_ * h_) ** 2 for yy in range(-h_, h_ + 1) for xx in range(-w_, w_ + 1)]
                                if shp != want_shape or not all(bool(i_) == bool(fillv) for i_ in inside):
                                    ok_ = False
                                    bad_.append('for half sizes (%s=%d, %s=%d) the formula gives a %d x %d kernel, the special case returns %d x %d'
                                                % (hw, w_, hh, h_, want_shape[0], want_shape[1], shp[0], shp[1]))
                except CannotFold as e_:
                    ok_, bad_ = None, ['guard not foldable: %s' % e_]
            rep.add('E1', f, entry, 'special case `%s`' % norm(s_.test)[:80], s_.lineno, ok_,
                    'a special case in front of the ellipse formula must return what the formula gives: ' + '; '.join(bad_[:2]))
        rets = [r_ for r_ in rets if not any(r_ is s_.body[-1] for s_ in early)]
    if len(rets) != 1 or rets[0].value is None:
        rep.add('E1', f, entry, 'ellipse inequality', f.node.lineno, None, 'single return not found')
        return
    envl = straightline_env([s_ for s_ in f.node.body if not (isinstance(s_, ast.Assign) and norm(s_.targets[0]) in (xn, yn))], upto=rets[0])
    rv = inline(rets[0].value, envl)
    cast_ok = isinstance(rv, ast.Call) and short(rv) == 'astype' and isinstance(rv.func, ast.Attribute) and len(rv.args) == 1 and \
        norm(rv.args[0]) in ('float', 'np.float64', 'numpy.float64', "'f8'", "'float64'", 'np.float32', 'np.double')
    comp = rv.func.value if cast_ok else rv
    if not cast_ok and isinstance(rv, ast.Call) and short(rv) == 'where' and len(rv.args) == 3 and \
            const(rv.args[1]) in (1, 1.0) and const(rv.args[2]) in (0, 0.0) and \
            isinstance(const(rv.args[1]), (int, float)) and not isinstance(const(rv.args[1]), bool):
        cast_ok, comp = True, rv.args[0]        # np.where(mask, 1.0, 0.0): the same 0/1 floats
    if not isinstance(comp, ast.Compare):
        rep.add('E1', f, entry, 'ellipse inequality', f.node.lineno, None, 'comparison not found in %s' % norm(rv)[:80])
        return
    env = {xn: Rat.sym('X'), yn: Rat.sym('Y'), hw: W, hh: H}
    sp = Spec(prog, env, m)
    c = sp.it.cond_of(sp.it.ev(comp), comp)
    X, Y = Rat.sym('X'), Rat.sym('Y')
    want = cmp_cond('<=', (X * H) ** 2 + (Y * W) ** 2, (W * H) ** 2)
    ok = cond_key(c) == cond_key(want)
    rep.add('E1', f, entry, norm(comp), rets[0].lineno, ok,
            'the mask must be (x*half_h)^2 + (y*half_w)^2 <= (half_w*half_h)^2, i.e. (x/half_w)^2 + (y/half_h)^2 <= 1 '
            'without division; got %s' % cond_repr(c)[:160])
    if c[0] == 'cmp':
        flipx = subst(c[3], lambda a: -Rat.atom(a) if a == Sym('X') else None) == c[3]
        flipy = subst(c[3], lambda a: -Rat.atom(a) if a == Sym('Y') else None) == c[3]
        rep.add('E2', f, entry, 'parity of the mask condition in x and y', rets[0].lineno, flipx and flipy,
                'the condition must be even in both coordinates: the kernel is symmetric under both axis flips')
    rep.add('E1', f, entry, norm(rets[0])[:100], f.node.lineno, cast_ok, 'the boolean mask is returned as 0/1 floats')
    # circle_kernel: the ellipse with half sizes int(radius_in_metres / cell size of the own axis)
    from ..inline import inline_view
    ck = inline_view(prog, m.funcs.get('circle_kernel'), keep=('_ellipse_kernel', '_get_distance'))   # half sizes may be computed in a small helper
    rets = [n for n in ck.own_nodes() if isinstance(n, ast.Return)]
    ok = False
    shown = None
    if len(rets) == 1 and rets[0].value is not None:
        rv = inline(rets[0].value, straightline_env(ck.node.body, upto=rets[0]))
        shown = norm(rv)[:140]
        if isinstance(rv, ast.Call) and short(rv) == '_ellipse_kernel':
            bound = {}
            for p_, a_ in zip(f.params, rv.args):
                bound[p_] = a_
            for k_ in rv.keywords:
                bound[k_.arg] = k_.value
            rr = '_get_distance(str(%s))' % ck.params[2]
            ok = set(bound) == {hw, hh} and norm(bound[hw]).replace(' ', '') == 'int(%s/%s)' % (rr, ck.params[0]) and \
                norm(bound[hh]).replace(' ', '') == 'int(%s/%s)' % (rr, ck.params[1])
    rep.add('E3', ck, entry, 'circle_kernel = %s' % shown, ck.node.lineno, ok,
            'half width = int(radius / cellsize_x), half height = int(radius / cellsize_y), passed as (half_w, half_h), the radius '
            'validated and converted to metres first')
    # annulus: outer circle minus the inner circle zero-padded symmetrically to the outer shape
    ak = inline_view(prog, m.funcs.get('annulus_kernel'))      # the centred padding may live in a small helper
    circ = {}
    ckp = m.funcs.get('circle_kernel').params
    for s_ in ak.node.body:
        if isinstance(s_, ast.Assign) and isinstance(s_.targets[0], ast.Name) and isinstance(s_.value, ast.Call) and \
                short(s_.value) == 'circle_kernel' and len(s_.value.args) + len(s_.value.keywords) == 3:
            b_ = dict(zip(ckp, s_.value.args))
            b_.update({k_.arg: k_.value for k_ in s_.value.keywords})
            a_ = [norm(b_[p_]) if p_ in b_ else None for p_ in ckp[:3]]
            if a_[:2] == ak.params[:2]:
                circ[s_.targets[0].id] = a_[2]
    outer = [n for n, r_ in circ.items() if r_ == ak.params[2]]
    inner = [n for n, r_ in circ.items() if r_ == ak.params[3]]
    rets = [n for n in ak.own_nodes() if isinstance(n, ast.Return)]
    pads = [c_ for c_ in calls(ak.node) if short(c_) == 'pad']
    ok = okp = False
    padname = None
    if len(outer) == 1 and len(inner) == 1 and len(rets) == 1 and len(pads) == 1:
        keep = set(circ)
        envl = straightline_env([s_ for s_ in ak.node.body if not (isinstance(s_, ast.Assign) and norm(s_.targets[0]) in keep)], upto=rets[0])
        # the pad call itself is kept as a name so that the subtraction can be read
        for s_ in ak.node.body:
            if isinstance(s_, ast.Assign) and s_.value is pads[0] and isinstance(s_.targets[0], ast.Name):
                padname = s_.targets[0].id
        envl2 = {k_: v_ for k_, v_ in envl.items() if k_ != padname}
        rv = inline(rets[0].value, envl2)
        ok = isinstance(rv, ast.BinOp) and isinstance(rv.op, ast.Sub) and norm(rv.left) == outer[0] and \
            (norm(rv.right) == padname or (isinstance(rv.right, ast.Call) and short(rv.right) == 'pad'))
        # pad widths evaluated: ((d0, d0), (d1, d1)) with dk = (outer.shape[k] - inner.shape[k]) // 2
        try:
            sp = Spec(prog, {outer[0]: Arr('OUTER', 'param'), inner[0]: Arr('INNER', 'param')}, m)
            sp.it.k.arrays.update({'OUTER': sp.it.env[outer[0]], 'INNER': sp.it.env[inner[0]]})
            for s_ in ak.node.body:
                if isinstance(s_, ast.Assign) and norm(s_.targets[0]) not in keep and s_.value is not pads[0] and \
                        not any(x is pads[0] for x in ast.walk(s_)) and s_.lineno < pads[0].lineno:
                    try:
                        sp.it.stmt(s_)
                    except AnalysisIncomplete:
                        pass
            pw = kw(pads[0], 'pad_width') or (pads[0].args[1] if len(pads[0].args) > 1 else None)
            v = sp.it.ev(pw)
            sh = lambda n_, k_: Rat.atom(App('shape', [n_, k_]))   # noqa
            d = [sp.it.app('floordiv', [sh('OUTER', k_) - sh('INNER', k_), Rat.const(2)]) if hasattr(sp.it, 'app') else None for k_ in (0, 1)]
            d = [Rat.atom(App('floordiv', [sh('OUTER', k_) - sh('INNER', k_), Rat.const(2)])) for k_ in (0, 1)]
            got = [[sp.it.as_scalar(y) for y in x.items] for x in v.items] if isinstance(v, TupleV) and all(isinstance(x, TupleV) for x in v.items) else None
            cv = kw(pads[0], 'constant_values')
            okp = got == [[d[0], d[0]], [d[1], d[1]]] and norm(pads[0].args[0]) == inner[0] and (cv is None or const(cv) == 0) and \
                const(kw(pads[0], 'mode'), 'constant') == 'constant'
        except (AnalysisIncomplete, AttributeError) as e:
            okp = None
    if okp is not True:
        # the same on wrapper terms (loops over the two shapes unrolled: the circles are 2-D)
        okp2 = _pad_terms(prog, m)
        if okp2 is not None:
            okp = okp2 if okp2 else okp
    rep.add('E4', ak, entry, 'annulus = outer circle - padded inner circle', ak.node.lineno, ok,
            'the annulus is the outer circle minus the inner circle padded to the outer shape (a new array: the circles are not '
            'modified in place)')
    rep.add('E4', ak, entry, norm(pads[0])[:140] if pads else 'np.pad call', ak.node.lineno, okp,
            'the inner circle must be centred: equal zero pads before and after on each axis (rows with the row '
            'difference, columns with the column difference)')
    # custom kernels: rejected unless an ndarray with an odd number of rows and of columns - the raise conditions evaluated
    from ..wterm import WT, eval_cond, key as tkey
    cu = m.funcs.get('custom_kernel')
    w = WT(prog)
    w.run(cu)
    kp = ('param', cu.params[0])
    isnd = w.expr('isinstance(k, np.ndarray)', {'k': kp}, cu)
    res = []
    try:
        for nd, r_, c_, want in ((1, 3, 3, False), (1, 5, 7, False), (1, 2, 3, True), (1, 3, 4, True), (1, 4, 4, True), (0, 3, 3, True)):
            bound = {tkey(isnd): nd, tkey(w.expr('k.shape[0]', {'k': kp}, cu)): r_, tkey(w.expr('k.shape[1]', {'k': kp}, cu)): c_}
            hit = False
            for guards, node in w.raises:
                try:
                    if all(eval_cond(g, {'__terms__': bound}) for g in guards):
                        hit = True
                except ValueError:
                    continue
            res.append(((nd, r_, c_), hit, want))
        ok5 = all(h == w_ for _, h, w_ in res)
    except ValueError:
        ok5 = None
    rep.add('E5', cu, entry, 'custom_kernel validation', cu.node.lineno, ok5,
            'custom kernels must be ndarrays of odd shape on both axes; (ndarray, rows, cols) -> rejected: %s' % [(a, h) for a, h, w_ in res])


def check(prog, rep):
    check_metrics(prog, rep)
    check_units(prog, rep)
    check_kernels(prog, rep)
    rep.floor('V1', 3)
    rep.floor('V2', 6)
    rep.floor('V3', 4)
    rep.floor('U1', 12)
    rep.floor('U2', 5)
    rep.floor('E1', 3)
