"""C19 - distance metrics are metrics; circle/annulus kernels are the stated shapes.

Decided (templates whose instances are metrics by theorem): euclidean / manhattan are the 2-/1-norm of the coordinate
differences (exact normal forms), great-circle is the haversine template with latitude from y and longitude from x,
default radius 6378137 and four range guards; metric dispatch constant -> same-named function; the ellipse mask is
(x*half_h)^2 + (y*half_w)^2 <= (half_w*half_h)^2 on symmetric odd grids with x along columns (even in both
coordinates: flip symmetry), circle half sizes from the matching axis' cell size, annulus = outer - centred inner with
equal pads, unit table = SI factors with agreeing aliases, non-positive / malformed distances rejected.
"""
import ast
from fractions import Fraction

from ..astutil import calls, const, kw, short
from ..kai import cmp_cond, cond_key, cond_repr, flatten_and, interpret
from ..kutil import Spec, approx_equal, show
from ..program import AnalysisIncomplete, Func, norm
from ..sym import App, Rat, Sym, subst

UNIT_FAMILIES = {
    'meter': ({'meter', 'meters', 'm'}, Fraction(1)),
    'kilometer': ({'kilometer', 'kilometers', 'km'}, Fraction(1000)),
    'foot': ({'foot', 'feet', 'ft'}, Fraction('0.3048')),
    'mile': ({'miles', 'mls', 'ml'}, Fraction('1609.344')),
}


def check_metrics(prog, rep):
    m = prog.module('proximity')
    entry = 'metrics'
    P = {n: Rat.sym(n) for n in ('x1', 'x2', 'y1', 'y2', 'radius')}
    sp = Spec(prog, dict(P, PI=Rat.sym('pi')))
    specs = {
        'euclidean_distance': 'sqrt((x1 - x2) ** 2 + (y1 - y2) ** 2)',
        'manhattan_distance': 'abs(x1 - x2) + abs(y1 - y2)',
        'great_circle_distance': 'radius * 2 * arcsin(sqrt(sin((y2 * PI / 180 - y1 * PI / 180) / 2) ** 2 + '
                                 'cos(y1 * PI / 180) * cos(y2 * PI / 180) * sin((x2 * PI / 180 - x1 * PI / 180) / 2) ** 2))',
    }
    for name, text in specs.items():
        f = m.funcs.get(name)
        if f is None:
            raise AnalysisIncomplete('proximity.%s not found' % name)
        if f.params[:4] != ['x1', 'x2', 'y1', 'y2']:
            rep.add('V1', f, entry, '%s%s' % (name, tuple(f.params)), f.node.lineno, False,
                    'the public signature is (x1, x2, y1, y2)')
            continue
        k = interpret(prog, f)
        got = k.returns[-1][0] if k.returns else None
        want = sp.expr(text)
        ok = isinstance(got, Rat) and approx_equal(got, want, tol=0)
        rep.add('V1', f, entry, '%s = %s' % (name, show(got, 200)), f.node.lineno, ok,
                'must equal %s (a norm of the coordinate differences / the haversine formula with latitude from y and '
                'longitude from x): symmetry, identity of indiscernibles and the triangle inequality then hold by '
                'theorem' % text)
        if name == 'great_circle_distance':
            # default radius
            d = f.defaults().get('radius')
            rep.add('V2', f, entry, 'radius default %s' % (norm(d) if d is not None else None), f.node.lineno,
                    d is not None and const(d) == 6378137, 'the sphere radius defaults to 6378137 m')
            # range guards
            want_g = {}
            for p, lim in (('x1', 180), ('x2', 180), ('y1', 90), ('y2', 90)):
                want_g[p] = {cond_key(cmp_cond('>', P[p], Rat.const(lim))), cond_key(cmp_cond('<', P[p], Rat.const(-lim)))}
            found = {}
            for gs, node in k.raises:
                last = gs[-1] if gs else None
                if last is not None and last[0] == 'or':
                    keys = {cond_key(x) for x in last[1:]}
                    for p, w in want_g.items():
                        if keys == w:
                            found[p] = node
            for p in want_g:
                rep.add('V2', f, entry, 'range guard for %s' % p, found[p].lineno if p in found else f.node.lineno, p in found,
                        'longitudes outside [-180, 180] and latitudes outside [-90, 90] must be rejected '
                        '(%s: raise iff %s > %d or %s < -%d)' % (p, p, 180 if p[0] == 'x' else 90, p, 180 if p[0] == 'x' else 90))
            # the value is returned only when no guard fired
            rep.add('V2', f, entry, 'result returned under all four range conditions', f.node.lineno,
                    len(k.returns) == 1 and len(k.returns[0][1]) >= 4, 'no return path bypasses the range checks')
    # dispatch
    d = m.funcs.get('_distance')
    if d is None:
        raise AnalysisIncomplete('proximity._distance not found')
    consts = {}
    for n in ('EUCLIDEAN', 'GREAT_CIRCLE', 'MANHATTAN'):
        v = m.assigns.get(n, [])
        consts[n] = const(v[0]) if len(v) == 1 else None
    rep.add('V3', m, entry, 'metric constants %s' % consts, 1, len(set(consts.values())) == 3 and None not in consts.values(),
            'the three metric constants must be distinct')
    want_map = {'EUCLIDEAN': 'euclidean_distance', 'GREAT_CIRCLE': 'great_circle_distance', 'MANHATTAN': 'manhattan_distance'}
    got_map = {}
    node = [n for n in d.node.body if isinstance(n, ast.If)]
    cur = node[0] if node else None
    seen_consts = set()
    while cur is not None:
        t = norm(cur.test).replace(' ', '')
        for cn in want_map:
            if t in ('metric==%s' % cn, '%s==metric' % cn):
                for c in calls(ast.Module(body=cur.body, type_ignores=[])):
                    got_map[cn] = (norm(c.func), [norm(a) for a in c.args])
                seen_consts.add(cn)
        if len(cur.orelse) == 1 and isinstance(cur.orelse[0], ast.If):
            cur = cur.orelse[0]
        else:
            rest = set(want_map) - seen_consts
            if len(rest) == 1:
                for c in calls(ast.Module(body=cur.orelse, type_ignores=[])):
                    got_map[rest.pop()] = (norm(c.func), [norm(a) for a in c.args])
            cur = None
    for cn, fn in want_map.items():
        g = got_map.get(cn)
        ok = g is not None and g[0] == fn and g[1] == ['x1', 'x2', 'y1', 'y2']
        rep.add('V3', d, entry, '%s -> %s' % (cn, g), d.node.lineno, ok,
                'metric constant %s must be routed to %s(x1, x2, y1, y2)' % (cn, fn))
    # string -> constant mapping
    mp = m.funcs.get('_distance_metric_mapping')
    if mp is not None:
        pairs = {}
        for s in mp.own_nodes():
            if isinstance(s, ast.Assign) and isinstance(s.targets[0], ast.Subscript):
                pairs[const(s.targets[0].slice)] = norm(s.value)
        rep.add('V3', mp, entry, 'DISTANCE_METRICS %s' % sorted(pairs.items()), mp.node.lineno,
                pairs == {'EUCLIDEAN': 'EUCLIDEAN', 'GREAT_CIRCLE': 'GREAT_CIRCLE', 'MANHATTAN': 'MANHATTAN'},
                'each metric name must map to its own constant')


def check_units(prog, rep):
    m = prog.module('convolution')
    entry = 'kernels'
    vals = m.assigns.get('UNITS', [])
    if len(vals) != 1 or not isinstance(vals[0], ast.Dict):
        raise AnalysisIncomplete('convolution.UNITS not found as a dict literal')
    consts = {}
    for n, v in m.assigns.items():
        if len(v) == 1 and isinstance(const(v[0]), (int, float)):
            consts[n] = Fraction(str(const(v[0])))
    table = {}
    for k, v in zip(vals[0].keys, vals[0].values):
        key = const(k)
        val = consts.get(v.id) if isinstance(v, ast.Name) else (Fraction(str(const(v))) if const(v) is not None else None)
        table[key] = val
    for fam, (aliases, factor) in UNIT_FAMILIES.items():
        for a in sorted(aliases):
            rep.add('U1', m, entry, 'UNITS[%r] = %s' % (a, table.get(a)), vals[0].lineno, table.get(a) == factor,
                    'unit alias %r must convert with the SI factor %s of %s' % (a, factor, fam))
    extra = set(table) - set().union(*[a for a, f in UNIT_FAMILIES.values()])
    rep.add('U1', m, entry, 'no other units: %s' % sorted(extra), vals[0].lineno, not extra, 'unexpected unit aliases')
    tm = m.funcs.get('_to_meters')
    ok = tm is not None and len(tm.node.body) == 1 and norm(tm.node.body[0]).replace(' ', '') in (
        'returnd*UNITS[unit]', 'returnUNITS[unit]*d')
    rep.add('U1', tm or m, entry, '_to_meters = d * UNITS[unit]', tm.node.lineno if tm else 1, ok, 'metres = value times the unit factor')
    gd = m.funcs.get('_get_distance')
    if gd is None:
        raise AnalysisIncomplete('_get_distance not found')
    raises = {}
    for i in [n for n in gd.own_nodes() if isinstance(n, ast.If) and any(isinstance(x, ast.Raise) for x in n.body)]:
        raises[norm(i.test).replace(' ', '')] = i
    need = {'distance<=0': 'non-positive distances are rejected', 'not_is_numeric(number)': 'non-numeric distances are rejected',
            'unitnotinUNITS': 'unknown units are rejected', 'len(splits)notin[1,2]': 'malformed strings are rejected'}
    for t, why in need.items():
        rep.add('U2', gd, entry, 'raise if %s' % t, raises[t].lineno if t in raises else gd.node.lineno, t in raises, why)
    ok = any(isinstance(s, ast.Assign) and norm(s).replace(' ', '') == 'unit=unit.lower()' for s in gd.own_nodes())
    rep.add('U2', gd, entry, 'unit lower-cased', gd.node.lineno, ok, 'units are case-insensitive')
    rets = [n for n in gd.own_nodes() if isinstance(n, ast.Return)]
    ok = len(rets) == 1 and any(isinstance(s, ast.Assign) and norm(s).replace(' ', '') == 'meters=_to_meters(distance,unit)' for s in gd.own_nodes()) \
        and norm(rets[0].value) == 'meters'
    rep.add('U2', gd, entry, 'returns _to_meters(distance, unit)', gd.node.lineno, ok, 'the parsed distance is converted to metres')
    cc = m.funcs.get('calc_cellsize')
    if cc is not None:
        t = [norm(s).replace(' ', '') for s in cc.own_nodes() if isinstance(s, (ast.Assign, ast.Return))]
        ok = 'cellsize_x,cellsize_y=get_dataarray_resolution(raster)' in t and 'cellsize_x=_to_meters(cellsize_x,unit)' in t and \
            'cellsize_y=_to_meters(cellsize_y,unit)' in t and 'return(cellsize_x,np.abs(cellsize_y))' in t
        rep.add('U3', cc, entry, 'calc_cellsize: (x, y) resolution converted to metres', cc.node.lineno, ok,
                'cell sizes are taken as (x, y) from the resolution helper and converted with the raster\'s unit')


def check_kernels(prog, rep):
    m = prog.module('convolution')
    entry = 'kernels'
    f = m.funcs.get('_ellipse_kernel')
    if f is None:
        raise AnalysisIncomplete('_ellipse_kernel not found')
    hw, hh = f.params[:2]
    grids = {}
    for s in f.node.body:
        if isinstance(s, ast.Assign) and isinstance(s.targets[0], ast.Name):
            v = s.value
            col = False
            if isinstance(v, ast.Subscript) and norm(v.slice).replace(' ', '') == '(slice(None,None,None),None)':
                col = True
                v = v.value
            if isinstance(v, ast.Subscript) and norm(v.slice).replace(' ', '') in (':,None', '(:,None)'):
                col = True
                v = v.value
            if isinstance(v, ast.Call) and short(v) == 'linspace' and len(v.args) == 3:
                grids[s.targets[0].id] = ([norm(a).replace(' ', '') for a in v.args], col, s)
    sub = None
    for s in f.node.body:
        if isinstance(s, ast.Assign) and isinstance(s.value, ast.Subscript) and isinstance(s.value.value, ast.Call) and \
                short(s.value.value) == 'linspace':
            v = s.value.value
            txt = norm(s.value.slice).replace(' ', '')
            grids[s.targets[0].id] = ([norm(a).replace(' ', '') for a in v.args], txt in (':,None', '(:,None)', '(slice(None,None,None),None)'), s)
    # x: row vector over columns with half_w; y: column vector over rows with half_h
    xs = [(n, g) for n, g in grids.items() if not g[1]]
    ys = [(n, g) for n, g in grids.items() if g[1]]
    okx = len(xs) == 1 and xs[0][1][0] == ['-' + hw, hw, '2*%s+1' % hw]
    oky = len(ys) == 1 and ys[0][1][0] == ['-' + hh, hh, '2*%s+1' % hh]
    rep.add('E1', f, entry, 'grids %s' % {n: (g[0], 'column vector' if g[1] else 'row vector') for n, g in grids.items()},
            f.node.lineno, okx and oky,
            'x must run over the columns as linspace(-half_w, half_w, 2*half_w+1) and y over the rows (column vector) as '
            'linspace(-half_h, half_h, 2*half_h+1): symmetric odd grids, width with the column axis')
    if not (okx and oky):
        return
    xn, yn = xs[0][0], ys[0][0]
    comp = None
    for s in f.node.body:
        if isinstance(s, ast.Assign) and isinstance(s.value, ast.Compare):
            comp = s
    if comp is None:
        rep.add('E1', f, entry, 'ellipse inequality', f.node.lineno, None, 'comparison not found')
        return
    env = {xn: Rat.sym('X'), yn: Rat.sym('Y'), hw: Rat.sym('W'), hh: Rat.sym('H')}
    sp = Spec(prog, env, m)
    c = sp.it.cond_of(sp.it.ev(comp.value), comp.value)
    X, Y, W, H = Rat.sym('X'), Rat.sym('Y'), Rat.sym('W'), Rat.sym('H')
    want = cmp_cond('<=', (X * H) ** 2 + (Y * W) ** 2, (W * H) ** 2)
    ok = cond_key(c) == cond_key(want)
    rep.add('E1', f, entry, norm(comp), comp.lineno, ok,
            'the mask must be (x*half_h)^2 + (y*half_w)^2 <= (half_w*half_h)^2, i.e. (x/half_w)^2 + (y/half_h)^2 <= 1 '
            'without division; got %s' % cond_repr(c)[:160])
    if c[0] == 'cmp':
        flipx = subst(c[3], lambda a: -Rat.atom(a) if a == Sym('X') else None) == c[3]
        flipy = subst(c[3], lambda a: -Rat.atom(a) if a == Sym('Y') else None) == c[3]
        rep.add('E2', f, entry, 'parity of the mask condition in x and y', comp.lineno, flipx and flipy,
                'the condition must be even in both coordinates: the kernel is symmetric under both axis flips')
    rets = [n for n in f.own_nodes() if isinstance(n, ast.Return)]
    ok = len(rets) == 1 and norm(rets[0].value).replace(' ', '') in ('%s.astype(float)' % norm(comp.targets[0]),)
    rep.add('E1', f, entry, norm(rets[0]) if rets else 'return', f.node.lineno, ok, 'the boolean mask is returned as 0/1 floats')
    # circle_kernel
    ck = m.funcs.get('circle_kernel')
    t = [norm(s).replace(' ', '') for s in ck.own_nodes() if isinstance(s, ast.Assign)]
    ok = 'r=_get_distance(str(radius))' in t and 'kernel_half_w=int(r/cellsize_x)' in t and 'kernel_half_h=int(r/cellsize_y)' in t \
        and 'kernel=_ellipse_kernel(kernel_half_w,kernel_half_h)' in t
    rep.add('E3', ck, entry, 'circle_kernel half sizes', ck.node.lineno, ok,
            'half width = int(radius / cellsize_x), half height = int(radius / cellsize_y), passed as (half_w, half_h)')
    ak = m.funcs.get('annulus_kernel')
    t = [norm(s).replace(' ', '') for s in ak.own_nodes() if isinstance(s, ast.Assign)]
    ok = 'kernel_outer=circle_kernel(cellsize_x,cellsize_y,outer_radius)' in t and \
        'kernel_inner=circle_kernel(cellsize_x,cellsize_y,inner_radius)' in t and \
        'pad_vals=np.array(kernel_outer.shape)-np.array(kernel_inner.shape)' in t and 'kernel=kernel_outer-pad_kernel' in t
    rep.add('E4', ak, entry, 'annulus = outer circle - padded inner circle', ak.node.lineno, ok,
            'the annulus is the outer circle minus the inner circle padded to the outer shape')
    pads = [c for c in calls(ak.node) if short(c) == 'pad']
    okp = False
    if len(pads) == 1:
        pw = kw(pads[0], 'pad_width') or (pads[0].args[1] if len(pads[0].args) > 1 else None)
        if pw is not None:
            tt = norm(pw).replace(' ', '')
            okp = tt == '((pad_vals[0]//2,pad_vals[0]//2),(pad_vals[1]//2,pad_vals[1]//2))'
        cv = kw(pads[0], 'constant_values')
        okp = okp and norm(pads[0].args[0]) == 'kernel_inner' and (cv is None or const(cv) == 0) and \
            const(kw(pads[0], 'mode'), 'constant') == 'constant'
    rep.add('E4', ak, entry, norm(pads[0])[:140] if pads else 'np.pad call', ak.node.lineno, okp,
            'the inner circle must be centred: equal zero pads before and after on each axis (rows with the row '
            'difference, columns with the column difference)')
    cu = m.funcs.get('custom_kernel')
    t = {norm(i.test).replace(' ', ''): i for i in cu.own_nodes() if isinstance(i, ast.If)}
    ok1 = any(k == 'notisinstance(kernel,np.ndarray)' and any(isinstance(x, ast.Raise) for x in i.body) for k, i in t.items())
    ok2 = any(k in ('rows%2==0orcols%2==0', '(rows%2==0orcols%2==0)') and any(isinstance(x, ast.Raise) for x in i.body) for k, i in t.items())
    rep.add('E5', cu, entry, 'custom_kernel validation', cu.node.lineno, ok1 and ok2,
            'custom kernels must be ndarrays of odd shape on both axes')


def check(prog, rep):
    check_metrics(prog, rep)
    check_units(prog, rep)
    check_kernels(prog, rep)
    rep.floor('V1', 3)
    rep.floor('V2', 6)
    rep.floor('V3', 4)
    rep.floor('U1', 12)
    rep.floor('U2', 5)
    rep.floor('E1', 3)
