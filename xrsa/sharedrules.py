"""Rules on shared helpers (utils.validate_arrays) used by several properties, and float provenance of dask inputs."""
import ast

from .astutil import calls, const, kw, short
from .program import AnalysisIncomplete, BackendTable, Ext, Func, Partial, SelectedBackend, norm

FLOAT_T = {"'f4'", "'f8'", "'float32'", "'float64'", 'np.float32', 'np.float64', 'float', 'numpy.float32',
           'numpy.float64', "'f'", "'d'", 'np.float16', 'np.double', 'np.single'}


def float_dtype_expr(prog, f, e, depth=0):
    """does the expression name a floating dtype?  `np.float32`, 'f4', `np.dtype('float32')`, `np.dtype(np.float64)`, or a
    module-level / local name bound once to one of these (`_FLOAT32 = np.dtype('float32')`)"""
    t = norm(e)
    if t in FLOAT_T:
        return True
    if isinstance(e, ast.Call) and t.split('(')[0] in ('np.dtype', 'numpy.dtype') and len(e.args) == 1 and not e.keywords:
        return float_dtype_expr(prog, f, e.args[0], depth + 1)
    if isinstance(e, ast.Name) and depth < 3:
        r = prog.resolve_name(f, f.module, e.id) if f is not None else None
        if isinstance(r, tuple) and r and r[0] == 'local' and isinstance(r[2], ast.AST):
            return float_dtype_expr(prog, r[1], r[2], depth + 1)
        if isinstance(r, tuple) and r and r[0] == 'modvalue' and isinstance(r[3], ast.AST):
            return float_dtype_expr(prog, None, r[3], depth + 1) if not isinstance(r[3], ast.Name) else False
    return False


def check_validate_arrays(prog, rep, rule, entry):
    """validate_arrays(*arrays): equal shapes, equal array types, and - for dask - every array rechunked to the
    first array's full chunk layout whenever the layouts differ.  Read on the inlined view (a check moved into a helper is
    seen in place); the loops over "every further array" may be index loops (`for i in range(1, len(arrays))`, element
    `arrays[i]`) or element loops (`for other in arrays[1:]`, also through a local holding the slice)."""
    from .inline import inline_view
    f0 = prog.func('utils', 'validate_arrays')
    f = inline_view(prog, f0)
    va = f.vararg
    if va is None:
        rep.add(rule, f, entry, 'validate_arrays signature', f.node.lineno, None, 'expected *arrays')
        return
    src = [n for n in f.own_nodes()]
    # names of the first array and of the slice of the further ones
    firsts, rests = {'%s[0]' % va}, {'%s[1:]' % va}
    for n in src:
        if isinstance(n, ast.Assign):
            pairs = []
            t0 = n.targets[0]
            if isinstance(t0, ast.Name):
                pairs = [(t0, n.value)]
            elif isinstance(t0, ast.Tuple) and isinstance(n.value, ast.Tuple) and len(t0.elts) == len(n.value.elts):
                pairs = list(zip(t0.elts, n.value.elts))
            elif isinstance(t0, (ast.Tuple, ast.List)) and len(t0.elts) == 2 and isinstance(t0.elts[0], ast.Name) and \
                    isinstance(t0.elts[1], ast.Starred) and isinstance(t0.elts[1].value, ast.Name) and norm(n.value) == va:
                # first, *others = arrays
                firsts.add(t0.elts[0].id)
                rests.add(t0.elts[1].value.id)
            for t_, v_ in pairs:
                if isinstance(t_, ast.Name) and norm(v_).replace(' ', '') == '%s[0]' % va:
                    firsts.add(t_.id)
                if isinstance(t_, ast.Name) and norm(v_).replace(' ', '') == '%s[1:]' % va:
                    rests.add(t_.id)
    # loops over all further arrays -> (loop, text of the element)
    loops = []
    for lp in [n for n in src if isinstance(n, ast.For)]:
        it = norm(lp.iter).replace(' ', '')
        if it == 'range(1,len(%s))' % va and isinstance(lp.target, ast.Name):
            loops.append((lp, '%s[%s]' % (va, lp.target.id)))
        elif it in rests and isinstance(lp.target, ast.Name):
            loops.append((lp, lp.target.id))

    def mentions(t, name, attr):
        t = t.replace(' ', '')
        return ('%s.data.%s' % (name, attr)) in t or ('%s.%s' % (name, attr)) in t
    shape_ok = type_ok = False
    for lp, E in loops:
        for n in ast.walk(lp):
            if isinstance(n, ast.If) and any(isinstance(x, ast.Raise) for x in n.body):
                t = norm(n.test)
                if any(mentions(t, F, 'shape') for F in firsts) and mentions(t, E, 'shape'):
                    shape_ok = True
                if 'isinstance' in t and 'type(' in t and any(('%s.data' % F) in t.replace(' ', '') for F in firsts) and ('%s.data' % E) in t.replace(' ', ''):
                    type_ok = True
    rep.add(rule, f0, entry, 'validate_arrays: shape and type checks over all arrays', f0.node.lineno,
            shape_ok and type_ok, 'every further array must be checked for equal shape and equal array type '
            '(shape check: %s, type check: %s)' % (shape_ok, type_ok))
    # chunk alignment
    ok = False
    why = 'no rechunk of the further arrays to the first array\'s chunks found'
    for n in src:
        if isinstance(n, ast.Assign) and isinstance(n.value, ast.Call) and short(n.value) == 'rechunk':
            tgt = norm(n.targets[0]).replace(' ', '')
            arg = norm(n.value.args[0]).replace(' ', '') if n.value.args else ''
            want_args = {'%s.chunks' % F for F in firsts} | {'%s.data.chunks' % F for F in firsts}
            inloops = [(lp, E) for lp, E in loops if n in list(ast.walk(lp))]
            loop_ok = bool(inloops)
            E = inloops[0][1] if inloops else None
            good_target = E is not None and tgt == '%s.data' % E and norm(n.value.func).replace(' ', '') in ('%s.data.rechunk' % E,)
            good_arg = arg in want_args
            cond_ok = True
            cond_txt = None
            for i in [x for x in src if isinstance(x, ast.If)]:
                if n in list(ast.walk(i)) and 'chunk' in norm(i.test):
                    cond_txt = norm(i.test).replace(' ', '')
                    allowed = set()
                    for F in firsts:
                        for a_ in (F, F + '.data'):
                            for b_ in ((E, E + '.data') if E else ()):
                                allowed.add('%s.chunks!=%s.chunks' % (a_, b_))
                                allowed.add('%s.chunks!=%s.chunks' % (b_, a_))
                                allowed.add('not%s.chunks==%s.chunks' % (a_, b_))
                                allowed.add('not%s.chunks==%s.chunks' % (b_, a_))
                    cond_ok = cond_txt in allowed
            ok = good_target and good_arg and cond_ok and loop_ok
            why = 'target %s, rechunk(%s), condition %s, loop over all: %s' % (tgt, arg, cond_txt, loop_ok)
    rep.add(rule, f0, entry, 'validate_arrays: dask arrays rechunked to the first array\'s chunks', f0.node.lineno, ok,
            'multi-raster ops pair blocks positionally: whenever the full chunk layouts (.chunks) differ, every further '
            'array must be rechunked to the first array\'s .chunks - comparing only the largest chunk (chunksize) or '
            'number of blocks lets misaligned layouts through; ' + why)


# ------------------------------------------------------------------------------------------- float provenance
class FloatProv:
    """Is an array expression guaranteed to be of floating dtype?  (needed wherever NaN is used as a halo value)"""
    def __init__(self, prog):
        self.prog = prog
        self.callers = None

    def build_callers(self):
        self.callers = {}
        prog = self.prog
        for f in prog.all_funcs():
            for n in f.own_nodes():
                if not isinstance(n, ast.Call):
                    continue
                t = prog.resolve_callable(f, f.module, n.func)
                targets = []
                if isinstance(t, SelectedBackend):
                    t = t.table
                    for slot, expr in t.entries.items():
                        targets.append(prog.resolve_callable(t.scope, f.module, expr))
                else:
                    targets.append(t)
                for tt in targets:
                    pre_kw = {}
                    npos = 0
                    while isinstance(tt, Partial):
                        pre_kw.update(tt.keywords)
                        npos += len(tt.args)
                        tt = tt.target
                    if isinstance(tt, Func) and tt.is_lambda and isinstance(tt.node.body, ast.Call):
                        # lambda *args: g(*args, k=v)
                        g = prog.resolve_callable(tt, tt.module, tt.node.body.func)
                        if isinstance(g, Func) and any(isinstance(a, ast.Starred) for a in tt.node.body.args):
                            tt = g
                    if isinstance(tt, Func):
                        bind = {}
                        for p, a in zip(tt.params[npos:], n.args):
                            bind[p] = a
                        for k in n.keywords:
                            if k.arg:
                                bind[k.arg] = k.value
                        self.callers.setdefault(id(tt), []).append((f, bind))

    def is_float(self, f, e, depth=0, seen=None):
        seen = seen if seen is not None else set()
        key = (id(f), norm(e))
        if key in seen:
            return True      # coinductive: a cycle adds no counter-example
        if depth > 10:
            return False
        seen = seen | {key}
        if isinstance(e, ast.Call):
            nm = short(e)
            if nm == 'astype' and e.args:
                return float_dtype_expr(self.prog, f, e.args[0])
            t = self.prog.resolve_callable(f, f.module, e.func)
            if isinstance(t, Ext) and t.dotted.split('.')[-1] == 'DataArray' and e.args:
                return self.is_float(f, e.args[0], depth + 1, seen)
            if nm in ('nanmean', 'mean', 'sqrt', 'nanstd', 'std', 'true_divide', 'linspace'):
                return True
            tt = t
            while isinstance(tt, Partial):
                tt = tt.target
            if isinstance(tt, Func) and e.args:
                # a helper that casts: every return value is floating whatever it is given
                rets = [r for r in tt.own_nodes() if isinstance(r, ast.Return) and r.value is not None] if not tt.is_lambda else []
                if rets and all(isinstance(r.value, ast.Call) and short(r.value) == 'astype' and r.value.args and
                                float_dtype_expr(self.prog, tt, r.value.args[0]) for r in rets):
                    return True
                # package functions that transform an array keep (or widen) the dtype of their first argument
                return self.is_float(f, e.args[0], depth + 1, seen)
            if isinstance(t, (BackendTable, SelectedBackend)) and e.args:
                return self.is_float(f, e.args[0], depth + 1, seen)
            if nm in ('rechunk', 'copy', 'ravel', 'reshape') and isinstance(e.func, ast.Attribute):
                return self.is_float(f, e.func.value, depth + 1, seen)
            return False
        if isinstance(e, ast.BinOp):
            if isinstance(e.op, ast.Div):
                return True
            return self.is_float(f, e.left, depth + 1, seen) or self.is_float(f, e.right, depth + 1, seen)
        if isinstance(e, ast.Attribute) and e.attr in ('data', 'values'):
            return self.is_float(f, e.value, depth + 1, seen)
        if isinstance(e, ast.Constant):
            return isinstance(e.value, float)
        if isinstance(e, ast.Name):
            vals = f.local_assigns().get(e.id)
            if vals:
                good = []
                for v in vals:
                    if isinstance(v, ast.AST):
                        good.append(self.is_float(f, v, depth + 1, seen))
                    elif isinstance(v, tuple) and v[0] == 'aug':
                        good.append(True)
                    else:
                        good.append(False)
                if e.id in f.params:
                    good.append(self.param_float(f, e.id, depth + 1, seen))
                # flow-insensitive: every definition must be float, except that an earlier non-float definition is
                # fine when a float re-definition (`data = data.astype(float32)`) textually precedes the use
                if all(good):
                    return True
                casts = [v for v in vals if isinstance(v, ast.AST) and isinstance(v, ast.Call) and short(v) == 'astype'
                         and v.args and float_dtype_expr(self.prog, f, v.args[0]) and norm(v.func.value) == e.id]
                if casts and getattr(casts[0], 'lineno', 10**9) < getattr(e, 'lineno', 0):
                    return True
                return False
            if e.id in f.params:
                return self.param_float(f, e.id, depth + 1, seen)
            return False
        return False

    def param_float(self, f, p, depth, seen):
        if self.callers is None:
            self.build_callers()
        cs = self.callers.get(id(f), [])
        if not cs:
            return False
        for caller, bind in cs:
            a = bind.get(p)
            if a is None:
                return False
            if not self.is_float(caller, a, depth + 1, seen):
                return False
        return True


def check_sentinels(prog, rep, m, names, rule='M7-sentinel'):
    """M7: numeric parameters (soil factor, nodata, contrast ...) reach the formula as given: no truthiness test of a
    parameter with a non-None default (`if not nodata:` / `nodata or x` conflates the legitimate value 0 with
    'absent') and no rewrite of such a parameter under a test of its own value"""
    for name in names:
        pub = m.funcs.get(name)
        if pub is None:
            continue
        defaults = pub.defaults()
        numeric = [p for p in pub.params if p in defaults and isinstance(defaults[p], ast.Constant) and
                   isinstance(defaults[p].value, (int, float)) and not isinstance(defaults[p].value, bool)]
        bad = []
        for n in pub.own_nodes():
            tests = []
            if isinstance(n, (ast.If, ast.IfExp, ast.While)):
                tests.append(n.test)
            if isinstance(n, ast.BoolOp):
                tests.extend(n.values[:-1])
            for t in tests:
                t0 = t.operand if isinstance(t, ast.UnaryOp) and isinstance(t.op, ast.Not) else t
                if isinstance(t0, ast.Name) and t0.id in numeric:
                    bad.append((n.lineno, 'truthiness test of `%s`' % t0.id))
        rep.add(rule, pub, name, 'numeric parameters %s are used as given' % numeric, pub.node.lineno, not bad,
                'a numeric parameter must not be tested for truthiness: 0 is a legitimate value (nodata = 0, soil factor = 0) '
                'and would be replaced like "absent": %s' % bad, trivial=not numeric)




def _layout_of(prog, f, base, depth=0, _callers=None):
    """the `*_like` allocation call that gives the array `base` of function f its memory layout, following a parameter to the
    argument at every call site of f inside the program unit (up to 3 levels); None when no such allocation is found (the
    array has a layout of its own: np.zeros(shape) ..., or its origin is not visible)."""
    import ast as _ast
    from .program import norm as _norm, Func as _Func, Partial as _Partial
    allocs = [v for v in f.local_assigns().get(base, []) if isinstance(v, _ast.Call)]
    like = [v for v in allocs if _norm(v.func).split('.')[-1].endswith('_like')]
    if like:
        return like[0]
    if prog is None or base not in f.params or depth >= 3:
        return None
    for h in prog.all_funcs():
        if h is f or not prog.same_unit(f.module, h.module):
            continue
        for c in h.own_nodes():
            if not isinstance(c, _ast.Call):
                continue
            nm = c.func.id if isinstance(c.func, _ast.Name) else (c.func.attr if isinstance(c.func, _ast.Attribute) else None)
            if nm != f.name:
                continue
            g = prog.resolve_callable(h, h.module, c.func)
            while isinstance(g, _Partial):
                g = g.target
            if g is not f or any(isinstance(a, _ast.Starred) for a in c.args):
                continue
            b = dict(zip(f.params, c.args))
            b.update({k.arg: k.value for k in c.keywords if k.arg})
            a = b.get(base)
            if isinstance(a, _ast.Name):
                r = _layout_of(prog, h, a.id, depth + 1)
                if r is not None:
                    return r
    return None


def flat_alias_of_like(f, prog=None):
    """[(store node, alias name, base name, alias assignment, allocation or None)] for stores made through a flattened alias
    (`x = out.ravel()` / `out.reshape(-1)` / `out.flatten()`) of an array that follows the input's memory layout (allocated
    by a `*_like` constructor) or that is always a copy (`flatten`).  `ravel` / `reshape(-1)` give a view only for a
    C-contiguous array: for a column-major input the alias is a copy and every store through it is lost.  With `prog`, the
    stores may sit in a helper of the unit that f calls with the array (the helper's parameter is followed back to the
    allocation at the call sites), and an array f itself received is followed to its callers."""
    import ast as _ast
    from .program import Func as _Func, Partial as _Partial
    out = []
    scopes = [f]
    if prog is not None:
        seen = {id(f)}
        work = [f]
        while work:
            h = work.pop()
            for c in h.own_nodes():
                if isinstance(c, _ast.Call) and isinstance(c.func, (_ast.Name, _ast.Attribute)):
                    g = prog.resolve_callable(h, h.module, c.func)
                    while isinstance(g, _Partial):
                        g = g.target
                    if isinstance(g, _Func) and id(g) not in seen and not g.is_lambda and prog.same_unit(f.module, g.module):
                        seen.add(id(g))
                        scopes.append(g)
                        work.append(g)
    for g in scopes:
        flat = {}
        for n in g.own_nodes():
            if isinstance(n, _ast.Assign) and isinstance(n.targets[0], _ast.Name) and isinstance(n.value, _ast.Call) and \
                    isinstance(n.value.func, _ast.Attribute) and n.value.func.attr in ('ravel', 'reshape', 'flatten') and \
                    isinstance(n.value.func.value, _ast.Name):
                if n.value.func.attr == 'reshape' and not (len(n.value.args) == 1 and _flat_shape(n.value.args[0])):
                    continue
                flat[n.targets[0].id] = (n.value.func.value.id, n)
        for x in g.own_nodes():
            if isinstance(x, _ast.Subscript) and isinstance(x.ctx, _ast.Store) and isinstance(x.value, _ast.Name) and x.value.id in flat:
                base, node = flat[x.value.id]
                like = _layout_of(prog, g, base)
                if like is not None or node.value.func.attr == 'flatten':
                    out.append((x, x.value.id, base, node, like))
    return out


def _flat_shape(e):
    import ast as _ast
    from .program import norm as _norm
    return _norm(e) in ('-1', '(-1,)', '[-1]')


VALUE_CHANGERS = ('nan_to_num', 'clip', 'round', 'around', 'rint', 'abs', 'absolute', 'trunc', 'floor', 'ceil', 'fillna', 'where',
                  'maximum', 'minimum', 'fmax', 'fmin', 'sort', 'unique', 'interp')


def check_dispatch_passthrough(prog, rep, rule, pub, entry=None):
    """A public wrapper around the backend dispatch (`mapper(agg)(agg.data, ...)`; `return DataArray(out, ...)`) is glue:
    the backend function gets the rasters' own cells and its result is what the caller gets.  Decided on the wrapper terms
    (wterm.py) of the public function, whatever its locals and helpers are called:

    * every returned value wraps the dispatch result itself - not a function of it (`nan_to_num(out)`, `clip`), and no path
      returns something computed without the backend function (a "fast path" has no kernel behind it);
    * a raster argument of the dispatch is the raster's data as given or a dtype cast of it - not pushed through a
      value-changing function first.

    Only wrappers that have this shape give obligations (others - hillshade's own isinstance dispatch, the zonal functions -
    are covered by their own rules); the callers put a floor on the count."""
    from .wterm import WT, key as tkey, show as tshow, walk as twalk
    entry = entry or pub.name
    w = WT(prog)
    try:
        ret = w.run(pub)
    except Exception:      # noqa - the terms are best effort; no verdict without them
        return 0

    def leaves(t_):
        if isinstance(t_, tuple) and t_ and t_[0] == 'phi':
            return leaves(t_[2]) + leaves(t_[3])
        return [t_] if t_ is not None else []

    def is_dispatch(t_):
        return isinstance(t_, tuple) and t_ and t_[0] == 'call' and isinstance(t_[1], tuple) and t_[1] and t_[1][0] == 'call' and \
            len(t_[1][2]) == 1 and not t_[1][3]

    def data_of(lf):
        if isinstance(lf, tuple) and lf and lf[0] == 'call' and str(lf[1]).endswith('DataArray'):
            return lf[2][0] if lf[2] else dict(lf[3]).get('data')
        return None
    lfs = leaves(ret)
    disp = [d_ for d_ in (data_of(lf) for lf in lfs) if d_ is not None and is_dispatch(d_)]
    inner = [x for lf in lfs for x in twalk(lf) if is_dispatch(x)]
    if not inner:
        return 0                       # not a dispatch wrapper
    n = 0
    bad = []
    for lf in lfs:
        d_ = data_of(lf)
        if d_ is not None and is_dispatch(d_):
            continue
        if any(is_dispatch(x) for x in twalk(lf)):
            bad.append('the backend result is post-processed before it is returned: %s' % tshow(d_ if d_ is not None else lf, 90))
        else:
            bad.append('a path returns a value the backend function never saw: %s' % tshow(d_ if d_ is not None else lf, 90))
    n += 1
    rep.add(rule, pub, entry, '%s returns the backend result as it is' % pub.name, pub.node.lineno, not bad,
            'the wrapper hands back what the backend function computed, on every path; ' + '; '.join(bad[:2]))
    rasters = set()
    for d_ in inner:
        for a_ in list(d_[2]) + [v_ for k_, v_ in d_[3]]:
            for x in twalk(a_):
                if isinstance(x, tuple) and len(x) == 2 and x[0] == 'data' and isinstance(x[1], tuple) and x[1][0] == 'param':
                    rasters.add(x[1][1])
    for d_ in inner[:1]:
        for i_, a_ in enumerate(list(d_[2]) + [v_ for k_, v_ in d_[3]]):
            base = a_
            while isinstance(base, tuple) and base and base[0] == 'cast':
                base = base[1]
            if isinstance(base, tuple) and len(base) == 2 and base[0] == 'data' and base[1][0] == 'param':
                n += 1
                rep.add(rule, pub, entry, 'backend argument %d = %s' % (i_, tshow(a_, 70)), pub.node.lineno, True, '')
                continue
            # the rasters are also what the backend is selected on (`mapper(agg)`): a DataArray method applied to one of them
            # before `.data` is taken (`agg.where(agg != void).data`) changes the cells just the same
            sel = {y[1] for y in twalk(d_[1][2][0]) if isinstance(y, tuple) and len(y) == 2 and y[0] == 'param' and isinstance(y[1], str)}
            hits = [x for x in twalk(a_) if isinstance(x, tuple) and len(x) >= 3 and x[0] == 'call' and
                    str(x[1] if not isinstance(x[1], tuple) else x[1][-1]).split('.')[-1] in VALUE_CHANGERS and
                    any(isinstance(y, tuple) and len(y) == 2 and ((y[0] == 'data' and isinstance(y[1], tuple) and y[1][0] == 'param') or
                                                                  (y[0] == 'param' and y[1] in sel)) for y in twalk(x))]
            if hits:
                n += 1
                rep.add(rule, pub, entry, 'backend argument %d = %s' % (i_, tshow(a_, 70)), pub.node.lineno, False,
                        'the backend function must see the raster\'s own cells: here they pass through `%s` first' %
                        str(hits[0][1] if not isinstance(hits[0][1], tuple) else hits[0][1][-1]))
    return n


def check_values_keep_dtype(prog, rep, rule, pub, entry=None):
    """A caller's value parameter that is compared with raster cells - a nodata sentinel, a list of barrier / target /
    excluded values, zone ids - reaches the kernels in its own dtype.  Squeezing it into the *raster's* dtype
    (`np.asarray(values).astype(raster.dtype)`, `np.array(values, dtype=raster.data.dtype)`) makes a value the dtype cannot
    hold wrap or truncate onto a legitimate cell value: -1 is 255 on uint8, -9999 is 241, 0.5 is 0, NaN is INT_MIN.
    Decided on the wrapper terms of the public function (helpers evaluated in place): no cast term whose operand comes from a
    non-raster parameter alone and whose dtype is `<raster parameter>[.data].dtype`.  One obligation per function."""
    from .wterm import WT, walk as twalk, mentions, show as tshow
    entry = entry or pub.name
    params = list(pub.params) + list(getattr(pub, 'kwonly', []))
    terms = []
    got_any = False
    # the public function as written, and with the dispatch followed into the numpy and into the dask function (a cast made in
    # one backend's function only is a cast all the same)
    for backend in (None, 'numpy', 'dask'):
        w = WT(prog, backend=backend)
        try:
            ret = w.run(pub)
        except Exception:      # noqa - the terms are best effort; no verdict without them
            continue
        got_any = True
        terms += list(w.env.values()) + ([ret] if ret is not None else [])
        for c in w.calls:
            terms.extend(c.args)
            kws = c.kwargs.items() if isinstance(c.kwargs, dict) else c.kwargs
            terms.extend(v for _, v in kws)
            if isinstance(c.result, tuple):
                terms.append(c.result)      # the call itself (inside arithmetic a call is only an atom)
        for tgt, val, _g, _n in w.stores:
            terms.extend([tgt, val])
    if not got_any:
        return 0
    rasters = set()
    for t in terms:
        for x in twalk(t):
            if isinstance(x, tuple) and len(x) >= 2 and x[0] in ('data', 'coord') and isinstance(x[1], tuple) and x[1][:1] == ('param',):
                rasters.add(x[1][1])
            if isinstance(x, tuple) and len(x) == 3 and x[0] == 'attr' and isinstance(x[1], tuple) and x[1][:1] == ('param',) and \
                    x[2] in ('dims', 'coords', 'attrs', 'shape', 'chunks'):
                rasters.add(x[1][1])
    if not rasters:
        return 0
    values = [p for p in params if p not in rasters]
    # parameters that only select a coordinate by name (`raster.coords[ydim]`) are not values
    dimnames = set()
    for t in terms:
        for x in twalk(t):
            if isinstance(x, tuple) and len(x) == 3 and x[0] == 'index' and isinstance(x[1], tuple) and x[1][:1] == ('attr',) and \
                    len(x[1]) == 3 and x[1][2] == 'coords':
                dimnames.update(q for q in params if mentions(x[2], ('param', q)))     # also `coords[ydim if ydim else dims[-2]]`

    def raster_dtype(d):
        if not (isinstance(d, tuple) and len(d) == 3 and d[0] == 'attr' and d[2] == 'dtype'):
            return None
        r = d[1]
        if isinstance(r, tuple) and r[0] == 'data':
            r = r[1]
        if isinstance(r, tuple) and r[:1] == ('param',) and r[1] in rasters:
            return r[1]
        # the dtype of something taken from the raster alone - a coordinate vector (`raster.coords[ydim].data.dtype`)
        own = [q for q in rasters if mentions(d[1], ('param', q))]
        if len(own) == 1 and not any(mentions(d[1], ('param', v)) for v in values if v not in dimnames):
            return own[0]
        return None
    NARROW = {'float32': 'float32', 'f4': 'float32', 'single': 'float32', 'float16': 'float16', 'f2': 'float16', 'half': 'float16',
              'int32': 'int32', 'i4': 'int32', 'int16': 'int16', 'i2': 'int16', 'int8': 'int8', 'i1': 'int8',
              'uint32': 'uint32', 'u4': 'uint32', 'uint16': 'uint16', 'u2': 'uint16', 'uint8': 'uint8', 'u1': 'uint8', 'intc': 'int32'}

    def narrow_dtype(d):
        # a fixed dtype narrower than Python's own numbers (float64 / int64), by value: np.float32, 'f4', np.dtype('float32')
        if not isinstance(d, tuple) or not d:
            return None
        if d[0] == 'global' and isinstance(d[1], str):
            return NARROW.get(d[1].split('.')[-1])
        if d[0] == 'const' and isinstance(d[1], str):
            return NARROW.get(d[1].lstrip('<>=|'))
        if d[0] == 'call' and str(d[1]).endswith('dtype') and len(d) > 2 and len(d[2]) == 1:
            return narrow_dtype(d[2][0])
        return None
    bad = []
    narrow = []
    seen = set()
    for t in terms:
        for x in twalk(t):
            if not isinstance(x, tuple) or not x:
                continue
            opnd = dt = None
            if x[0] == 'cast' and len(x) == 3:
                opnd, dt = x[1], x[2]
            elif x[0] == 'call' and x[1] in ('numpy.array', 'numpy.asarray', 'numpy.asanyarray', 'numpy.ascontiguousarray') and len(x) >= 4 and x[2]:
                kws = dict(x[3]) if not isinstance(x[3], dict) else x[3]
                opnd, dt = x[2][0], kws.get('dtype', x[2][1] if len(x[2]) > 1 else None)
            elif x[0] == 'call' and isinstance(x[1], tuple) and x[1][0] == 'method' and x[1][2] == 'type' and len(x[2]) == 1:
                opnd, dt = x[2][0], x[1][1]                  # raster.dtype.type(value): the scalar constructor of the raster's dtype
            if opnd is None or dt is None:
                continue
            r = raster_dtype(dt)
            if r is None:
                nd = narrow_dtype(dt)
                if nd is not None and not any(mentions(opnd, ('param', q)) for q in rasters):
                    src = [v for v in values if v not in dimnames and mentions(opnd, ('param', v))]
                    if src and repr(x) not in seen:
                        seen.add(repr(x))
                        narrow.append((src[0], nd, tshow(x, 140)))
                continue
            if any(mentions(opnd, ('param', q)) for q in rasters):
                continue
            src = [v for v in values if mentions(opnd, ('param', v))]
            if src and repr(x) not in seen:
                seen.add(repr(x))
                bad.append((src[0], r, tshow(x, 140)))
    rep.add(rule, pub, entry, "the caller's value parameters reach the kernels in their own dtype", pub.node.lineno, not bad and not narrow,
            'a value parameter is cast to the dtype of the raster it is compared with, or to a fixed dtype narrower than the numbers '
            'the caller can pass: %s - a value that dtype cannot hold wraps, truncates or is rounded onto another value (-1 is 255 on '
            'uint8, 0.5 is 0, NaN is INT_MIN, 0.1 as float32 is not the 0.1 of a float64 raster)'
            % '; '.join(['`%s` squeezed into the dtype of `%s` or of its coordinates (%s)' % b for b in bad[:2]] +
                        ['`%s` squeezed into %s (%s)' % b for b in narrow[:2]]), trivial=not values)
    return 1


def check_value_truthiness(prog, rep, rule, pub, entry=None):
    """A parameter that carries a caller's VALUE - a number (nodata, an angle, a distance, a seed, a sample size), a list of
    values or ids - is never used as a truth value, neither in the public function nor in any function of its module that
    the value is handed on to (followed by name binding through the module's calls, partials and delayed wrappers).
    `x = x or default`, `if not x:`, `if x:` treat the legitimate values 0 / 0.0 / [] like "not given": a light from due
    north (azimuth 0), nodata 0, seed 0, an empty selection.  The absent marker is `None` and is tested with `is None`.
    Parameters whose default is a bool or a string (flags, names, option strings) are not values; GPU functions are not
    looked at.  One obligation per public function."""
    from .zonalrules import nodata_params
    entry = entry or pub.name
    defaults = pub.defaults()
    values = []
    for p in list(pub.params) + list(getattr(pub, 'kwonly', [])):
        d = defaults.get(p)
        if isinstance(d, ast.Constant) and isinstance(d.value, (bool, str)):
            continue
        if d is None and p in (pub.params[0],):
            continue                      # the raster itself
        if p in ('name', 'self'):
            continue
        values.append(p)
    bad = []
    m = pub.module
    funcs = [g for g in m.allfuncs if not g.is_lambda and not any(t in g.name for t in ('cupy', 'gpu', 'cuda'))]

    def truth_uses(t_, names):
        if isinstance(t_, ast.Name) and t_.id in names:
            return [t_]
        if isinstance(t_, ast.UnaryOp) and isinstance(t_.op, ast.Not):
            return truth_uses(t_.operand, names)
        if isinstance(t_, ast.BoolOp):
            return [u for v_ in t_.values for u in truth_uses(v_, names)]
        return []
    for p in values:
        for g in funcs:
            names = (nodata_params(prog, g, p) & set(g.params + g.kwonly)) | ({p} if g is pub else set())
            if g is not pub and not names:
                continue
            # annotated / defaulted as a flag in the helper itself: not a value there
            gd = g.defaults()
            names = {n_ for n_ in names if not (isinstance(gd.get(n_), ast.Constant) and isinstance(gd.get(n_).value, (bool, str)))}
            if not names:
                continue
            for n in g.own_nodes():
                tests = []
                if isinstance(n, (ast.If, ast.IfExp, ast.While)):
                    tests.append(n.test)
                elif isinstance(n, ast.BoolOp) and not any(n is getattr(x, 'test', None) for x in g.own_nodes()):
                    tests.extend(n.values[:-1] if isinstance(n.op, ast.Or) else n.values)
                for t_ in tests:
                    for u in truth_uses(t_, names):
                        key_ = (g.qualname, u.lineno, u.id)
                        if key_ not in [b_[0] for b_ in bad]:
                            bad.append((key_, '`%s` in %s (line %d): %s' % (u.id, g.name, u.lineno, norm(t_)[:60])))
    rep.add(rule, pub, entry, "caller's values %s are never used as truth values" % values, pub.node.lineno, not bad,
            'a value parameter is tested for truthiness - 0, 0.0 and an empty list are legitimate values and would be treated like '
            '"not given" (the absent marker is None, tested with `is None`): ' + '; '.join(b_[1] for b_ in bad[:3]), trivial=not values)
    return 1
