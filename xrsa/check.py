"""CLI: python -m xrsa.check Cxx [--tier quick|thorough] | --replay <file>"""
import argparse
import importlib
import json
import os
import sys
import traceback

from .program import AnalysisIncomplete, Program
from .report import Report


def run(prop, tier, seed):
    cmd = '/venv/bin/python -m xrsa.check %s --tier %s' % (prop, tier)
    try:
        mod = importlib.import_module('xrsa.props.' + prop)
    except ImportError as e:
        print('ANALYSIS-ERROR property=%s no checker module: %s' % (prop, e))
        return 2
    rep = Report(prop, tier)
    try:
        prog = Program()
        rep.coverage_extra['units_parsed'] = len(prog.modules)
        rep.coverage_extra['functions'] = sum(1 for _ in prog.all_funcs())
        mod.check(prog, rep)
        if tier == 'thorough':
            if hasattr(mod, 'thorough'):
                mod.thorough(prog, rep)
            from . import thorough as _th
            _th.self_validate(prop, rep)
            _th.replay_assets(prop, rep)
    except AnalysisIncomplete as e:
        print('ANALYSIS-INCOMPLETE property=%s %s' % (prop, e))
        rep.notes.append('incomplete: %s' % e)
        rc = rep.finish(seed, cmd)
        return 1 if rc == 1 else 2      # violations found before the analysis stopped are still violations
    except Exception:
        print('ANALYSIS-ERROR property=%s' % prop)
        traceback.print_exc(file=sys.stdout)
        return 2
    return rep.finish(seed, cmd)


def main(argv=None):
    # fixed hash seed: set/dict iteration order of symbolic atoms is then identical on every run
    if os.environ.get('PYTHONHASHSEED') != '0' and argv is None:
        env = dict(os.environ, PYTHONHASHSEED='0')
        os.execve(sys.executable, [sys.executable, '-m', 'xrsa.check'] + sys.argv[1:], env)
    ap = argparse.ArgumentParser()
    ap.add_argument('prop', nargs='?')
    ap.add_argument('--tier', default=os.environ.get('VERIF_TIER', 'quick'))
    ap.add_argument('--replay')
    a = ap.parse_args(argv)
    seed = int(os.environ.get('VERIF_SEED', '0') or 0)
    if a.replay:
        ob = json.load(open(a.replay))
        prop = ob['property']
        rc = run(prop, 'quick', seed)
        return rc
    if not a.prop:
        ap.error('property id required')
    return run(a.prop, a.tier if a.tier in ('quick', 'thorough') else 'quick', seed)


if __name__ == '__main__':
    sys.exit(main())
