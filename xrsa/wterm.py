"""Wrapper terms: a small symbolic evaluator for the Python-level wrappers around the kernels.

The wrappers (`_viewshed_cpu`, `a_star_search`, `regions`, `trim`, `_process`, ...) are glue: they unpack shapes and
coordinates, compute a few scalars and hand them to a kernel.  A rule about that glue must not depend on local names,
on tuple-vs-separate assignments, on positional-vs-keyword arguments or on whether a few statements were moved into a
private helper.  `WT.run(f)` evaluates the statements of `f` into **terms** over the function's parameters:

    ('param', name) ('const', v) ('tuple', items) ('attr', t, name) ('index', t, idx) ('slice', lo, hi, step)
    ('call', callee, args, kwargs) ('arith', Rat) ('cmp', op, a, b) ('bool', op, items) ('not', t) ('phi', c, a, b)
    ('coord', t, dim) ('data', t) ('lambda', text) ('iter', t)

* private module-level helpers (not jitted, not public API) are evaluated in place with their parameters bound, to a
  small depth, so a value computed in a helper and the same value computed inline are the same term;
* arithmetic is kept in the exact rational normal form of sym.py over the non-arithmetic sub-terms, so
  `(x1 - x0) / (w - 1)` equals `(x0 - x1) / (1 - w)`;
* a few xarray spellings are canonicalised: `.values/.data/.to_numpy()` -> ('data', t); `t.indexes.get(d)`,
  `t.indexes[d]`, `t.coords[d]`, `t[d]`, `t.<d>` for d in x/y -> ('coord', t, d); `a, b = t.shape` -> index 0 / 1;
* calls of jitted kernels (and of anything else that is not evaluated in place) are recorded in `calls` with their
  arguments bound to the callee's parameter names - positional or keyword makes no difference;
* attribute / subscript stores are recorded in `stores` (what is written where, in program order, with the branch
  conditions they are under), `raises` likewise.

Expected terms are built by evaluating *specification text* with the same evaluator (`WT.expr`), so a rule reads
"the kernel's ew_res argument is `(xc[-1] - xc[0]) / (raster.shape[1] - 1)`" and is compared by term equality."""
import ast
import copy

from .program import Ext, Func, Partial, norm
from .sym import Rat, Sym

DATA_ATTRS = ('values', 'data')
MAX_HELPER_STMTS = 60


def key(t):
    return repr(t)


def is_arith(t):
    return isinstance(t, tuple) and t and t[0] == 'arith'


def to_rat(t):
    """Rat of a term: numbers and arithmetic terms as they are, anything else an atom named by its canonical text"""
    if is_arith(t):
        return t[1]
    if isinstance(t, tuple) and t and t[0] == 'const' and isinstance(t[1], (int, float)) and not isinstance(t[1], bool):
        from fractions import Fraction
        v = t[1]
        if isinstance(v, float) and v != v:
            return Rat.sym('nan')
        return Rat.const(Fraction(v) if isinstance(v, int) else Fraction(str(v)))
    nm = '<' + key(t) + '>'
    ATOMS[nm] = t
    return Rat.atom(Sym(nm))


ATOMS = {}      # atom name -> the term it stands for (so that arithmetic can be taken apart again)


def atom_term(a):
    """the term behind an atom of an arithmetic term (None for anything else)"""
    return ATOMS.get(getattr(a, 'name', None))


def single_atom_term(r):
    """the term t when the Rat r is exactly the atom standing for t"""
    if isinstance(r, Rat) and r.d.is_const() and len(r.n.t) == 1:
        (mm, c), = r.n.t.items()
        if len(mm) == 1 and mm[0][1] == 1 and c == r.d.const_value():
            return atom_term(mm[0][0])
    return None


def from_rat(r):
    if r.is_const():
        v = r.const_value()
        return ('const', int(v) if v.denominator == 1 else float(v))
    # a single atom stands for the term it was made from: keep the arithmetic wrapper (terms are compared by key)
    return ('arith', r)


class Call:
    """a recorded call: callee (Func / Ext / text), arguments bound to parameter names, positional list, guards"""
    def __init__(self, callee, bound, args, kwargs, node, guards, scope, result):
        self.callee, self.bound, self.args, self.kwargs = callee, bound, args, kwargs
        self.node, self.guards, self.scope, self.result = node, guards, scope, result

    @property
    def name(self):
        c = self.callee
        return c.name if isinstance(c, Func) else (c.dotted if isinstance(c, Ext) else str(c))


class WT:
    def __init__(self, prog, depth=3, inline_public=False, keep=(), backend=None, two_d=None):
        self.prog = prog
        self.noserial = False       # True: two calls of a package function with equal arguments are the same term (pure helpers)
        self.two_d = two_d          # predicate on terms: values known to be 2-D arrays (`.shape` is then a pair of extents)
        self.backend = backend      # 'numpy' / 'dask': `mapper(agg)(..)` on an ArrayTypeFunctionMapping calls that backend's function
        self.maxdepth = depth
        self.keep = set(keep)       # functions recorded as calls instead of being evaluated in place
        self.calls = []
        self.stores = []      # (target term, value term, guards, node)
        self.raises = []      # (guards, node)
        self.guards = []
        self.serial = 0

    # ------------------------------------------------------------------ entry points
    def run(self, f, env=None, depth=0):
        env = dict(env) if env is not None else {p: ('param', p) for p in f.params + f.kwonly}
        d = f.defaults() if hasattr(f, 'defaults') else {}
        for p in f.params + f.kwonly:
            if p not in env and p in d:
                env[p] = self.ev(f, d[p], {}, depth)
        env, ret = self.block(f, f.node.body, env, depth)
        self.env = env
        return ret

    def expr(self, text, env, scope):
        """term of specification text under env (names -> terms)"""
        return self.ev(scope, ast.parse(text.strip(), mode='eval').body, dict(env), self.maxdepth)   # no helper inlining needed

    # ------------------------------------------------------------------ expressions
    def ev(self, f, e, env, depth):
        m = getattr(self, 'e_' + type(e).__name__, None)
        if m is None:
            return ('other', norm(e))
        return m(f, e, env, depth)

    def e_Name(self, f, e, env, depth):
        if e.id in env:
            return env[e.id]
        if e.id in ('True', 'False', 'None'):
            return ('const', {'True': True, 'False': False, 'None': None}[e.id])
        # module-level constant
        vals = f.module.assigns.get(e.id, []) if f is not None else []
        if len(vals) == 1 and isinstance(vals[0], ast.Constant):
            return ('const', vals[0].value)
        # a module-level name for a library constant / dtype (`_F32 = np.float32`, `_FILL = np.nan`, `_T = np.dtype('f4')`): the
        # thing it names
        if len(vals) == 1 and isinstance(vals[0], ast.AST) and depth < self.maxdepth + 2:
            v0 = vals[0]
            simple = isinstance(v0, ast.Attribute) and isinstance(v0.value, ast.Name) and v0.value.id in ('np', 'numpy', 'da', 'math')
            dtc = isinstance(v0, ast.Call) and isinstance(v0.func, ast.Attribute) and v0.func.attr == 'dtype' and len(v0.args) == 1 and \
                isinstance(v0.args[0], (ast.Constant, ast.Attribute))
            if simple:
                return self.ev(f, v0, {}, depth + 1)
            if dtc:
                return self.ev(f, v0.args[0], {}, depth + 1)
        return ('global', e.id)

    def e_Constant(self, f, e, env, depth):
        return ('const', e.value)

    def e_Tuple(self, f, e, env, depth):
        return ('tuple', tuple(self.ev(f, x, env, depth) for x in e.elts))

    e_List = e_Tuple

    def e_BinOp(self, f, e, env, depth):
        a, b = self.ev(f, e.left, env, depth), self.ev(f, e.right, env, depth)
        op = type(e.op).__name__
        if op in ('Add', 'Sub', 'Mult', 'Div'):
            ra, rb = to_rat(a), to_rat(b)
            try:
                r = {'Add': ra + rb, 'Sub': ra - rb, 'Mult': ra * rb, 'Div': (ra / rb) if not (rb.is_const() and rb.const_value() == 0) else None}[op]
            except ZeroDivisionError:
                r = None
            if r is not None:
                return from_rat(r)
        if op == 'Pow' and b == ('const', 2):
            ra = to_rat(a)
            return from_rat(ra * ra)
        if op in ('Pow', 'FloorDiv', 'Mod', 'LShift') and a[0] == 'const' and b[0] == 'const' and all(
                isinstance(x[1], int) and not isinstance(x[1], bool) for x in (a, b)):
            # integer constants are folded: 2 ** 20 is 1048576
            try:
                if op == 'Pow' and 0 <= b[1] <= 64:
                    return ('const', a[1] ** b[1])
                if op == 'LShift' and 0 <= b[1] <= 64:
                    return ('const', a[1] << b[1])
                if op in ('FloorDiv', 'Mod') and b[1] != 0:
                    return ('const', a[1] // b[1] if op == 'FloorDiv' else a[1] % b[1])
            except Exception:      # noqa
                pass
        return ('bin', op, a, b)

    def e_UnaryOp(self, f, e, env, depth):
        v = self.ev(f, e.operand, env, depth)
        if isinstance(e.op, ast.USub):
            return from_rat(-to_rat(v))
        if isinstance(e.op, ast.UAdd):
            return v
        if isinstance(e.op, ast.Not):
            return neg(v)
        return ('un', type(e.op).__name__, v)

    def e_BoolOp(self, f, e, env, depth):
        items = tuple(self.ev(f, x, env, depth) for x in e.values)
        return ('bool', 'and' if isinstance(e.op, ast.And) else 'or', tuple(sorted(items, key=key)))

    def e_Compare(self, f, e, env, depth):
        left = self.ev(f, e.left, env, depth)
        parts = []
        for op, rhs in zip(e.ops, e.comparators):
            right = self.ev(f, rhs, env, depth)
            parts.append(cmp_term(type(op).__name__, left, right))
            left = right
        return parts[0] if len(parts) == 1 else ('bool', 'and', tuple(sorted(parts, key=key)))

    def e_IfExp(self, f, e, env, depth):
        c = self.ev(f, e.test, env, depth)
        a, b = self.ev(f, e.body, env, depth), self.ev(f, e.orelse, env, depth)
        return a if a == b else ('phi', c, a, b)

    def e_Slice(self, f, e, env, depth):
        g = lambda x: self.ev(f, x, env, depth) if x is not None else None   # noqa
        return ('slice', g(e.lower), g(e.upper), g(e.step))

    def e_Dict(self, f, e, env, depth):
        if any(k is None for k in e.keys):
            return ('other', norm(e))
        items = [(self.ev(f, k, env, depth), self.ev(f, v, env, depth)) for k, v in zip(e.keys, e.values)]
        return ('dict', tuple(sorted(items, key=key)))

    def _items(self, it):
        """the items of a literal iterable term: tuple, enumerate(tuple), zip(tuples), range(const) - else None"""
        if it[0] == 'tuple':
            return list(it[1])
        if it[0] == 'call' and it[1] in ('builtins.enumerate', ('global', 'enumerate')) and it[2] and it[2][0][0] == 'tuple':
            return [('tuple', (('const', i), x)) for i, x in enumerate(it[2][0][1])]
        if it[0] == 'call' and it[1] in ('builtins.zip', ('global', 'zip')) and it[2] and all(a[0] == 'tuple' for a in it[2]):
            return [('tuple', tuple(xs)) for xs in zip(*[a[1] for a in it[2]])]
        if it[0] == 'call' and it[1] in ('builtins.range', ('global', 'range')) and len(it[2]) == 1 and it[2][0][0] == 'const' and \
                isinstance(it[2][0][1], int) and 0 <= it[2][0][1] <= 8:
            return [('const', i) for i in range(it[2][0][1])]
        return None

    def e_ListComp(self, f, e, env, depth):
        if len(e.generators) == 1 and not e.generators[0].ifs:
            g = e.generators[0]
            items = self._items(self.ev(f, g.iter, env, depth))
            if items is not None and len(items) <= 8:
                out = []
                for it in items:
                    e2 = dict(env)
                    self.assign(f, g.target, it, e2, depth, e)
                    out.append(self.ev(f, e.elt, e2, depth))
                return ('tuple', tuple(out))
        return ('other', norm(e))

    e_GeneratorExp = e_ListComp

    def e_Lambda(self, f, e, env, depth):
        return ('lambda', norm(e))

    def e_Attribute(self, f, e, env, depth):
        if isinstance(e.value, ast.Name) and ('%s.%s' % (e.value.id, e.attr)) in env:
            return env['%s.%s' % (e.value.id, e.attr)]      # an attribute that was re-assigned earlier in this function
        v = self.ev(f, e.value, env, depth)
        if e.attr in DATA_ATTRS:
            return ('data', v)
        if e.attr in ('x', 'y') and not (isinstance(v, tuple) and v[0] in ('global', 'module')):
            return ('coord', v, e.attr)
        if isinstance(v, tuple) and v[0] == 'global':
            return ('global', v[1] + '.' + e.attr)
        if e.attr in ('shape', 'ndim', 'size'):
            while isinstance(v, tuple) and v and v[0] == 'cast':
                v = v[1]            # a dtype conversion keeps the shape
        if e.attr == 'shape' and self.two_d is not None and self.two_d(v):
            return ('tuple', (('index', ('attr', v, 'shape'), ('const', 0)), ('index', ('attr', v, 'shape'), ('const', 1))))
        return ('attr', v, e.attr)

    def e_Subscript(self, f, e, env, depth):
        base = self.ev(f, e.value, env, depth)
        idx = self.ev(f, e.slice, env, depth)
        if base[0] == 'tuple' and idx[0] == 'const' and isinstance(idx[1], int) and -len(base[1]) <= idx[1] < len(base[1]):
            return base[1][idx[1]]
        if base[0] == 'phi' and idx[0] == 'const' and isinstance(idx[1], int) and idx[1] >= 0 and base[2][0] in ('tuple', 'phi') and base[3][0] in ('tuple', 'phi'):
            def _len(t_):
                return len(t_[1]) if t_[0] == 'tuple' else (_len(t_[2]) if t_[0] == 'phi' and _len(t_[2]) == _len(t_[3]) else None)
            n_ = _len(base)
            if n_ is not None and idx[1] < n_:
                return _component(base, idx[1], n_)
        if idx[0] == 'const' and idx[1] in ('x', 'y') and (base[0] in ('param',) or (base[0] == 'attr' and base[2] in ('coords', 'indexes'))):
            return ('coord', base[1] if base[0] == 'attr' else base, idx[1])
        if base[0] == 'tuple' and idx[0] == 'slice' and all(x is None or (x[0] == 'const' and isinstance(x[1], int)) for x in idx[1:]):
            sl = slice(*[None if x is None else x[1] for x in idx[1:]])
            return ('tuple', tuple(base[1][sl]))
        return ('index', base, idx)

    def e_Call(self, f, e, env, depth):
        # spelled-out canonical forms
        fn = e.func
        args = []
        for a in e.args:
            if not isinstance(a, ast.Starred):
                args.append(self.ev(f, a, env, depth))
                continue
            # f(*pair): a literal tuple is spliced in; so is the result of a package function that always returns a tuple
            # of one known length (`*get_dataarray_resolution(raster)`)
            sv = self.ev(f, a.value, env, depth)
            if sv[0] == 'tuple':
                args.extend(sv[1])
            elif sv[0] == 'call' and isinstance(sv[1], str):
                tf = next((c_.callee for c_ in self.calls if c_.result == sv and isinstance(c_.callee, Func)), None)
                rets = [r_ for r_ in tf.own_nodes() if isinstance(r_, ast.Return)] if tf is not None else []
                ns = {len(r_.value.elts) for r_ in rets if isinstance(r_.value, ast.Tuple)}
                if rets and len(ns) == 1 and all(isinstance(r_.value, ast.Tuple) for r_ in rets):
                    args.extend(('index', sv, ('const', i_)) for i_ in range(ns.pop()))
        kwargs = {k.arg: self.ev(f, k.value, env, depth) for k in e.keywords if k.arg}
        for k in e.keywords:
            if k.arg is None:
                # f(**opts): a dict built by `dict(a=.., b=..)` or a literal with constant string keys is spliced in
                dv = self.ev(f, k.value, env, depth)
                if isinstance(dv, tuple) and dv and dv[0] == 'call' and dv[1] in (('global', 'dict'), 'builtins.dict') and not dv[2]:
                    for k_, v_ in dv[3]:
                        kwargs.setdefault(k_, v_)
                elif isinstance(dv, tuple) and dv and dv[0] == 'dict':
                    for k_, v_ in dv[1]:
                        if isinstance(k_, tuple) and k_[0] == 'const' and isinstance(k_[1], str):
                            kwargs.setdefault(k_[1], v_)
        if isinstance(fn, ast.Attribute):
            recv = self.ev(f, fn.value, env, depth)
            if fn.attr == 'to_numpy' and not args:
                return ('data', recv)
            if fn.attr == 'get' and recv[0] == 'attr' and recv[2] in ('indexes', 'coords') and len(args) == 1 and \
                    args[0][0] == 'const' and args[0][1] in ('x', 'y'):
                return ('coord', recv[1], args[0][1])
            if fn.attr == 'astype' and args:
                return ('cast', recv, args[0])
        if isinstance(fn, ast.Name) and fn.id == 'slice' and fn.id not in env and 1 <= len(args) <= 3:
            a = args + [None] * (3 - len(args))
            return ('slice', None, a[0], None) if len(args) == 1 else ('slice', a[0], a[1], a[2])
        if isinstance(fn, ast.Name) and fn.id in ('tuple', 'list') and fn.id not in env and len(args) == 1 and args[0][0] == 'tuple':
            return args[0]
        target = None
        if isinstance(fn, ast.Name) and isinstance(env.get(fn.id), tuple) and env[fn.id] and env[fn.id][0] == 'phi' and f is not None:
            # a callable chosen by a selector (`kernel = _select(dtype); kernel(x)`): the call is made on either branch
            def fref(t_):
                return isinstance(t_, tuple) and len(t_) == 2 and t_[0] == 'global' and isinstance(f.module.funcs.get(t_[1]), Func)
            ph = env[fn.id]
            if (fref(ph[2]) and ph[3] is None) or (fref(ph[3]) and ph[2] is None):
                # the other branch of the selector raises: one candidate, under the selector's condition
                br, g_ = (ph[2], ph[1]) if ph[3] is None else (ph[3], neg(ph[1]))
                e2 = copy.copy(e)
                e2.func = ast.copy_location(ast.Name(id=br[1], ctx=ast.Load()), fn)
                env2 = dict(env)
                env2.pop(br[1], None)
                saved_ = self.guards
                self.guards = saved_ + [g_]
                out_ = self.e_Call(f, e2, env2, depth)
                self.guards = saved_
                return out_
            if fref(ph[2]) and fref(ph[3]):
                outs = []
                saved_ = self.guards
                for br, g_ in ((ph[2], ph[1]), (ph[3], neg(ph[1]))):
                    e2 = copy.copy(e)
                    e2.func = ast.copy_location(ast.Name(id=br[1], ctx=ast.Load()), fn)
                    env2 = dict(env)
                    env2.pop(br[1], None)
                    self.guards = saved_ + [g_]
                    outs.append(self.e_Call(f, e2, env2, depth))
                self.guards = saved_
                return outs[0] if outs[0] == outs[1] else ('phi', ph[1], outs[0], outs[1])
        if isinstance(fn, ast.Name) and isinstance(env.get(fn.id), tuple) and env[fn.id][0] == 'localfunc' and depth < self.maxdepth:
            # a nested function: evaluated in the environment it closes over
            lf = env[fn.id][2]
            if lf is not None and lf in self.keep:
                bound = self.bind(lf, args, kwargs) or {}
                self.serial += 1
                res = ('call', lf.qualname, tuple(args), tuple(sorted(kwargs.items()))) + (() if self.noserial else (self.serial,))
                self.calls.append(Call(lf, bound, args, kwargs, e, list(self.guards), f, res))
                return res
            if lf is not None and not (lf.vararg or lf.kwarg):
                bound = self.bind(lf, args, kwargs)
                if bound is not None:
                    inner = dict(env)
                    inner.update(self.with_defaults(lf, bound, depth))
                    saved = self.guards
                    e2, ret = self.block(lf, lf.node.body, inner, depth + 1)
                    self.guards = saved
                    if ret is not None:
                        return ret
        if f is not None and not (isinstance(fn, ast.Name) and fn.id in env):
            try:
                target = self.prog.resolve_callable(f, f.module, fn)
            except Exception:      # noqa - resolution is best effort here
                target = None
        if self.backend and f is not None and (isinstance(fn, ast.Call) or (
                isinstance(fn, ast.Name) and isinstance(env.get(fn.id), tuple) and env[fn.id] and env[fn.id][0] == 'call' and
                isinstance(env[fn.id][1], tuple) and env[fn.id][1][:2] == ('call', ('global', 'ArrayTypeFunctionMapping')))):
            # the dispatch idiom: ArrayTypeFunctionMapping(numpy_func=.., dask_func=..)(agg)(args): the chosen backend's function
            # (also through a local: `backend_func = mapper(agg); backend_func(args)`)
            if isinstance(fn, ast.Name):
                mv = env[fn.id][1]
            else:
                mv = self.ev(f, fn.func, env, depth) if not isinstance(fn.func, ast.Name) else env.get(fn.func.id)
            if isinstance(mv, tuple) and mv[0] == 'call' and mv[1] == ('global', 'ArrayTypeFunctionMapping'):
                bt = dict(mv[3]).get(self.backend + '_func')
                if isinstance(bt, tuple) and bt[0] == 'global' and isinstance(f.module.funcs.get(bt[1]), Func):
                    target = f.module.funcs[bt[1]]
        while isinstance(target, Partial):
            for k_, v_ in target.keywords.items():
                kwargs.setdefault(k_, self.ev(target.scope if hasattr(target, 'scope') else f, v_, env, depth) if isinstance(v_, ast.AST) else v_)
            target = target.target
        if isinstance(target, Func) and not target.is_lambda:
            bound = self.bind(target, args, kwargs)
            if target.jit is None and depth < self.maxdepth and self.inlinable(target) and bound is not None and target not in self.keep:
                saved = self.guards
                ret = self.run(target, self.with_defaults(target, bound, depth), depth + 1)
                self.guards = saved
                if ret is not None:
                    return ret
            self.serial += 1
            # canonical call term of a package function: leading parameters given by keyword are written positionally
            # (`f(data=d, kernel=k)` is `f(d, k)`), so terms do not depend on how the arguments were passed
            cargs, ckw = list(args), dict(kwargs)
            if bound is not None and not target.vararg:
                for p_ in target.params[len(cargs):]:
                    if p_ in ckw and not (isinstance(ckw[p_], tuple) and ckw[p_] and ckw[p_][0] == 'dict'):
                        cargs.append(ckw.pop(p_))
                    else:
                        break
            res = ('call', target.qualname, tuple(cargs), tuple(sorted(ckw.items()))) + (() if self.noserial else (self.serial,))
            self.calls.append(Call(target, bound or {}, args, kwargs, e, list(self.guards), f, res))
            return res
        callee = target.dotted if isinstance(target, Ext) else (self.ev(f, fn, env, depth) if not isinstance(fn, ast.Name) else
                                                                 (env[fn.id] if isinstance(env.get(fn.id), tuple) and env[fn.id] and env[fn.id][0] == 'call'
                                                                  else ('global', fn.id)))      # a local that holds a callable built by a call (`f = mapper(agg); f(x)`)
        if isinstance(callee, tuple) and callee[0] == 'attr':
            callee = ('method', callee[1], callee[2])
        res = ('call', callee, tuple(args), tuple(sorted(kwargs.items())))
        self.calls.append(Call(target if isinstance(target, Ext) else callee, {}, args, kwargs, e, list(self.guards), f, res))
        return res

    def inlinable(self, t):
        if t.parent is not None or t.node.decorator_list:
            return False
        n = sum(1 for x in ast.walk(t.node) if isinstance(x, ast.stmt))
        return n <= MAX_HELPER_STMTS and not any(isinstance(x, (ast.Yield, ast.YieldFrom, ast.Global, ast.Nonlocal)) for x in ast.walk(t.node))

    def bind(self, t, args, kwargs):
        if t.vararg or len(args) > len(t.params):
            return None
        b = dict(zip(t.params, args))
        extra = []
        for k_, v_ in kwargs.items():
            if k_ in b:
                return None
            if k_ not in t.params + t.kwonly:
                if not t.kwarg:
                    return None
                extra.append((('const', k_), v_))        # collected by the callee's **kwargs
                continue
            b[k_] = v_
        if t.kwarg:
            b[t.kwarg] = ('dict', tuple(sorted(extra, key=key)))
        return b

    def with_defaults(self, t, bound, depth):
        env = dict(bound)
        d = t.defaults()
        for p in t.params + t.kwonly:
            if p not in env:
                env[p] = self.ev(t, d[p], {}, depth) if p in d else ('unbound', p)
        return env

    # ------------------------------------------------------------------ statements
    def block(self, f, stmts, env, depth):
        ret = None
        for s in stmts:
            if isinstance(s, ast.Assign):
                v = self.ev(f, s.value, env, depth)
                for t in s.targets:
                    self.assign(f, t, v, env, depth, s)
            elif isinstance(s, ast.AnnAssign) and s.value is not None:
                self.assign(f, s.target, self.ev(f, s.value, env, depth), env, depth, s)
            elif isinstance(s, ast.AugAssign):
                cur = self.ev(f, s.target, env, depth)
                v = self.ev(f, ast.BinOp(left=s.target, op=s.op, right=s.value), env, depth)
                self.assign(f, s.target, v, env, depth, s)
            elif isinstance(s, ast.Expr) and isinstance(s.value, ast.Call) and isinstance(s.value.func, ast.Attribute) and \
                    s.value.func.attr == 'append' and isinstance(s.value.func.value, ast.Name) and \
                    isinstance(env.get(s.value.func.value.id), tuple) and env[s.value.func.value.id][0] == 'tuple' and len(s.value.args) == 1:
                nm_ = s.value.func.value.id          # a literal list that grows: still a literal list
                env[nm_] = ('tuple', env[nm_][1] + (self.ev(f, s.value.args[0], env, depth),))
            elif isinstance(s, ast.Expr) and isinstance(s.value, ast.Call) and isinstance(s.value.func, ast.Attribute) and \
                    s.value.func.attr == 'fill' and len(s.value.args) == 1 and not s.value.keywords:
                # `a.fill(v)` is the whole-array store `a[:] = v`
                self.stores.append((('index', self.ev(f, s.value.func.value, env, depth), ('slice', None, None, None)),
                                    self.ev(f, s.value.args[0], env, depth), list(self.guards), s))
            elif isinstance(s, ast.Expr):
                self.ev(f, s.value, env, depth)
            elif isinstance(s, ast.If):
                c = self.ev(f, s.test, env, depth)
                saved = self.guards
                self.guards = saved + [c]
                e1, r1 = self.block(f, s.body, dict(env), depth)
                self.guards = saved + [neg(c)]
                e2, r2 = self.block(f, s.orelse, dict(env), depth)
                self.guards = saved
                t1, t2 = terminates(s.body), terminates(s.orelse)
                if t1 and not t2:
                    env.clear()
                    env.update(e2)
                    self.guards = saved + [neg(c)] if not r1 else saved
                elif t2 and not t1:
                    env.clear()
                    env.update(e1)
                else:
                    for k_ in set(e1) | set(e2):
                        a, b_ = e1.get(k_, _attr_default(k_, e1)), e2.get(k_, _attr_default(k_, e2))
                        env[k_] = a if a == b_ else ('phi', c, a, b_)
                if r1 is not None or r2 is not None:
                    if r1 is not None and r2 is not None:
                        ret = r1 if r1 == r2 else ('phi', c, r1, r2)
                        break
                    # one branch returns: the rest of the block yields the other value - and runs only when that branch
                    # was not taken
                    saved_g = self.guards
                    self.guards = saved + [neg(c) if r1 is not None else c]
                    rest_env, rest_ret = self.block(f, stmts[stmts.index(s) + 1:], env, depth)
                    self.guards = saved_g
                    a, b_ = (r1, rest_ret) if r1 is not None else (rest_ret, r2)
                    ret = a if a == b_ else ('phi', c, a, b_)
                    env.update(rest_env)
                    break
            elif isinstance(s, ast.Return):
                ret = self.ev(f, s.value, env, depth) if s.value is not None else ('const', None)
                break
            elif isinstance(s, ast.Raise):
                self.raises.append((list(self.guards), s))
                break
            elif isinstance(s, ast.For) and self._items(self.ev(f, s.iter, env, depth)) is not None and \
                    len(self._items(self.ev(f, s.iter, env, depth))) <= 8 and not s.orelse and \
                    not any(isinstance(x, (ast.Break, ast.Continue)) for x in ast.walk(s)):
                # a loop over a short literal collection is written out
                for it_ in self._items(self.ev(f, s.iter, env, depth)):
                    self.assign(f, s.target, it_, env, depth, s)
                    e1, r1 = self.block(f, s.body, env, depth)
                    if r1 is not None:
                        ret = r1
                        break
                if ret is not None:
                    break
            elif isinstance(s, (ast.For, ast.While)):
                # glue loops are rare: the body is evaluated once with the loop variable as an element of the iterable
                if isinstance(s, ast.For):
                    it = self.ev(f, s.iter, env, depth)
                    self.assign(f, s.target, ('iter', it), env, depth, s)
                saved = self.guards
                self.guards = saved + [('loop', getattr(s, 'lineno', 0))]
                before = dict(env)
                e1, r1 = self.block(f, s.body, env, depth)
                for k_ in e1:
                    if before.get(k_) != e1[k_]:
                        env[k_] = ('loopout', k_, getattr(s, 'lineno', 0))
                self.guards = saved
            elif isinstance(s, (ast.With, ast.Try)):
                e1, r1 = self.block(f, s.body, env, depth)
                if r1 is not None:
                    ret = r1
                    break
            elif isinstance(s, (ast.FunctionDef, ast.ClassDef, ast.Import, ast.ImportFrom, ast.Pass, ast.Assert, ast.Delete,
                                ast.Global, ast.Nonlocal, ast.Continue, ast.Break)):
                if isinstance(s, ast.FunctionDef):
                    lf_ = f.children.get(s.name) if hasattr(f, 'children') else None
                    env[s.name] = ('localfunc', s.name, lf_)
                    # a closure that only forwards to a package function is the functools.partial it spells
                    from .dasksites import _forwarding
                    pt = _forwarding(self.prog, lf_) if lf_ is not None else None
                    if pt is not None and pt is not lf_ and isinstance(pt.target, Func):
                        kws_ = {k_: self.ev(f, v_, env, depth) for k_, v_ in pt.keywords.items()}
                        lead_ = [self.ev(f, a_, env, depth) for a_ in pt.args]
                        res_ = ('call', 'functools.partial', (('global', pt.target.name),) + tuple(lead_), tuple(sorted(kws_.items())))
                        self.calls.append(Call('functools.partial', {}, [('global', pt.target.name)] + lead_, kws_, s, list(self.guards), f, res_))
                        env[s.name] = res_
                continue
        return env, ret

    def assign(self, f, t, v, env, depth, node):
        if isinstance(t, ast.Name):
            env[t.id] = v
        elif isinstance(t, (ast.Tuple, ast.List)):
            for i, x in enumerate(t.elts):
                if isinstance(x, ast.Starred):
                    continue
                if v[0] == 'tuple' and len(v[1]) == len(t.elts):
                    self.assign(f, x, v[1][i], env, depth, node)
                else:
                    self.assign(f, x, _component(v, i, len(t.elts)), env, depth, node)
        elif isinstance(t, (ast.Attribute, ast.Subscript)):
            self.stores.append((self.ev(f, t, env, depth), v, list(self.guards), node))
            # `x.values = x.values.astype(..)`: later reads of x.values see the new value
            if isinstance(t, ast.Attribute) and isinstance(t.value, ast.Name):
                env['%s.%s' % (t.value.id, t.attr)] = v


def _component(v, i, n):
    """component i of an n-tuple valued term: through conditional values (`phi(c, (a, b), (a2, b2))[0]` = `phi(c, a, a2)`)"""
    if v is None:
        return None
    if v[0] == 'tuple' and len(v[1]) == n:
        return v[1][i]
    if v[0] == 'phi':
        a, b = _component(v[2], i, n), _component(v[3], i, n)
        if a is None or b is None:
            return a if b is None else b        # the other branch does not return (it raises)
        return a if a == b else ('phi', v[1], a, b)
    return ('index', v, ('const', i))


def _attr_default(k_, env):
    """value of a re-assignable attribute (`raster.data`) on a branch that did not assign it"""
    if '.' in k_:
        nm, attr = k_.split('.', 1)
        if nm in env and '.' not in attr:
            return ('data', env[nm]) if attr in DATA_ATTRS else ('attr', env[nm], attr)
    return ('undef',)


def terminates(stmts):
    return bool(stmts) and isinstance(stmts[-1], (ast.Return, ast.Raise, ast.Continue, ast.Break))


def neg(t):
    if isinstance(t, tuple) and t and t[0] == 'not':
        return t[1]
    if isinstance(t, tuple) and t and t[0] == 'cmp':
        flip = {'Eq': 'NotEq', 'NotEq': 'Eq', 'Is': 'IsNot', 'IsNot': 'Is', 'In': 'NotIn', 'NotIn': 'In'}
        if t[1] in flip:
            return ('cmp', flip[t[1]], t[2], t[3])
    if isinstance(t, tuple) and t and t[0] == 'const' and isinstance(t[1], bool):
        return ('const', not t[1])
    return ('not', t)


def cmp_term(op, a, b):
    """comparison in a canonical orientation: Gt/GtE are written as Lt/LtE, symmetric operators order their operands"""
    if op in ('Gt', 'GtE'):
        op, a, b = {'Gt': 'Lt', 'GtE': 'LtE'}[op], b, a
    if op in ('Eq', 'NotEq', 'Is', 'IsNot') and key(a) > key(b):
        a, b = b, a
    return ('cmp', op, a, b)


def walk(t):
    """all sub-terms"""
    yield t
    if isinstance(t, tuple):
        for x in t:
            if isinstance(x, tuple):
                for y in walk(x):
                    yield y
    if is_arith(t):
        for a in t[1].atoms():
            if isinstance(a, Sym) and a.name.startswith('<'):
                yield ('atomtext', a.name)


def mentions(t, sub):
    ks = key(sub)
    return any(key(x) == ks for x in walk(t)) or ('<' + ks + '>') in key(t)


def show(t, n=160):
    s = key(t)
    return s if len(s) <= n else s[:n - 3] + '...'


def eval_term(t, env):
    """exact value of a scalar term under {parameter name: Fraction}; `env['__terms__']` may bind whole sub-terms by
    key (a shape extent, an isinstance test); raises ValueError when it cannot"""
    from fractions import Fraction
    bound = env.get('__terms__') or {}
    if key(t) in bound:
        return Fraction(bound[key(t)])
    hook = env.get('__hook__')
    if hook is not None:
        hv = hook(t)
        if hv is not None:
            return Fraction(hv)
    if t[0] == 'bin' and t[1] in ('Mod', 'FloorDiv'):
        a, b = eval_term(t[2], env), eval_term(t[3], env)
        if b == 0:
            raise ValueError('division by zero')
        return Fraction(a % b) if t[1] == 'Mod' else Fraction(a // b)
    if t[0] == 'const' and isinstance(t[1], (int, float)) and not isinstance(t[1], bool):
        return Fraction(t[1]) if isinstance(t[1], int) else Fraction(str(t[1]))
    if t[0] == 'param' and t[1] in env:
        return Fraction(env[t[1]])
    if t[0] == 'arith':
        from .sym import subst
        def f(a):
            if isinstance(a, Sym) and a.name.startswith("<('param', '") and a.name.endswith("')>"):
                nm = a.name[len("<('param', '"):-3]
                if nm in env:
                    return Rat.const(Fraction(env[nm]))
            if isinstance(a, Sym) and a.name.startswith('<') and a.name[1:-1] in bound:
                return Rat.const(Fraction(bound[a.name[1:-1]]))
            at = atom_term(a)
            if at is not None and not (at[0] == 'param' and at[1] not in env):
                try:
                    return Rat.const(eval_term(at, env))       # an atom standing for a call / index term: evaluated in turn
                except ValueError:
                    return None
            return None
        r = subst(t[1], f)
        if r.is_const():
            return r.const_value()
        raise ValueError('unbound atoms in %s' % key(t))
    if t[0] == 'phi':
        return eval_term(t[2] if eval_cond(t[1], env) else t[3], env)
    if t[0] == 'call' and t[1] in ('builtins.max', 'builtins.min', ('global', 'max'), ('global', 'min'), 'numpy.maximum', 'numpy.minimum') and len(t[2]) == 2:
        vals = [eval_term(x, env) for x in t[2]]
        return max(vals) if 'max' in str(t[1]) else min(vals)
    if t[0] == 'call' and t[1] in ('builtins.float', ('global', 'float'), 'numpy.float64') and len(t[2]) == 1:
        return eval_term(t[2][0], env)
    if t[0] == 'call' and t[1] in ('builtins.int', ('global', 'int'), 'builtins.round', ('global', 'round'), 'numpy.round', 'numpy.rint',
                                   'numpy.around', 'numpy.floor', 'math.floor', 'numpy.ceil', 'math.ceil', 'numpy.trunc', 'math.trunc',
                                   'builtins.abs', ('global', 'abs'), 'numpy.abs', 'numpy.absolute') and len(t[2]) == 1 and not t[3]:
        import math
        v = eval_term(t[2][0], env)
        nm = t[1][1] if isinstance(t[1], tuple) else t[1].split('.')[-1]
        return Fraction({'int': math.trunc, 'trunc': math.trunc, 'round': round, 'rint': round, 'around': round, 'floor': math.floor,
                         'ceil': math.ceil, 'abs': abs, 'absolute': abs}[nm](v))
    raise ValueError('cannot evaluate %s' % key(t)[:80])


def eval_cond(c, env):
    if c[0] == 'cmp' and c[1] in ('In', 'NotIn'):
        if c[3][0] != 'tuple':
            raise ValueError('membership in a non-literal collection')
        a = eval_term(c[2], env)
        r = any(a == eval_term(x, env) for x in c[3][1])
        return r if c[1] == 'In' else not r
    if c[0] == 'cmp':
        a, b = eval_term(c[2], env), eval_term(c[3], env)
        if c[1] not in ('Lt', 'LtE', 'Eq', 'NotEq'):
            raise ValueError('comparison %s' % c[1])
        return {'Lt': a < b, 'LtE': a <= b, 'Eq': a == b, 'NotEq': a != b}[c[1]]
    if c[0] == 'not':
        return not eval_cond(c[1], env)
    if c[0] == 'bool':
        vals = [eval_cond(x, env) for x in c[2]]
        return all(vals) if c[1] == 'and' else any(vals)
    if c[0] == 'const':
        return bool(c[1])
    if key(c) in (env.get('__terms__') or {}):
        return bool(env['__terms__'][key(c)])
    raise ValueError('cannot evaluate %s' % key(c)[:80])


def leaves(t):
    """the non-arithmetic, non-constant building blocks of a term (parameters, coordinate arrays, shapes ...)"""
    out = set()
    for x in walk(t):
        if isinstance(x, tuple) and x and x[0] in ('param', 'global', 'coord'):
            out.add(key(x))
        if isinstance(x, tuple) and x and x[0] == 'atomtext':
            for nm in ('param', 'coord'):
                pass
    return out


def unwrap_dask(t):
    """the array a dask wrapper holds: da.from_array(X, ...) -> X, X.rechunk(..) -> X, the same under both branches of a phi"""
    while True:
        if t[0] == 'call' and t[1] in ('dask.array.from_array', 'dask.array.asarray') and t[2]:
            t = t[2][0]
        elif t[0] == 'call' and isinstance(t[1], tuple) and t[1][0] == 'method' and t[1][2] in ('rechunk', 'persist'):
            t = t[1][1]
        elif t[0] == 'phi':
            a, b = unwrap_dask(t[2]), unwrap_dask(t[3])
            if key(a) != key(b):
                return t
            t = a
        else:
            return t


def resolve(t, decide):
    """t with every phi whose condition `decide` can settle (True / False; None = unknown) replaced by the chosen
    branch; conditions are resolved first, `x is None` / `x is not None` on a resolved non-parameter term is settled
    by what the term is"""
    if not isinstance(t, tuple) or not t:
        return t
    if t[0] == 'arith':
        from .sym import subst

        def f(a):
            at = atom_term(a)
            if at is None:
                return None
            r2 = resolve(at, decide)
            return to_rat(r2) if key(r2) != key(at) else None
        return from_rat(subst(t[1], f))
    if t[0] == 'phi':
        c = resolve(t[1], decide)
        d = decide(c)
        if d is None and c[0] == 'cmp' and c[1] in ('Is', 'IsNot') and ('const', None) in (c[2], c[3]):
            other = c[3] if c[2] == ('const', None) else c[2]
            if other == ('const', None):
                d = c[1] == 'Is'
            elif other[0] in ('call', 'data', 'index', 'tuple', 'cast'):
                d = c[1] == 'IsNot'
        if d is None and c[0] == 'const':
            d = bool(c[1])
        if d is True:
            return resolve(t[2], decide)
        if d is False:
            return resolve(t[3], decide)
        return ('phi', c, resolve(t[2], decide), resolve(t[3], decide))
    return tuple(resolve(x, decide) if isinstance(x, tuple) else x for x in t)
