"""Source-level normal forms applied to every module when it is loaded (before any rule looks at it).

N1 - *a test held in a local*.  `ok = a < b and c; ...; if ok:` and `if a < b and c:` are one program when nothing the test
reads changes between the assignment and the `if`.  Rules that classify `if` tests (finiteness filters, NaN guards, bounds
tests, backend tests) would otherwise have to chase every name.  Here the name is put back: in the test of an `if` /
conditional expression, a local that is assigned exactly once in the function, from a pure expression (comparisons,
boolean / arithmetic operators, names, constants, attribute and subscript reads, and calls of a short list of pure
predicates), is replaced by that expression - provided that

* the assignment comes before the test in the text and none of the names the expression reads (a subscripted array counts
  as read as a whole) is assigned, augmented, deleted or used as a loop target between the two, and
* if the test sits in a loop that does not also contain the assignment, none of those names is assigned anywhere in that
  loop (the expression would otherwise be re-evaluated on changed values, the local was not).

The assignment itself stays where it is.  Line numbers of the `if` are kept.  Nothing else is changed."""
import ast
import copy

PURE_CALLS = {'isnan', 'isfinite', 'isinf', 'len', 'isinstance', 'abs', 'any', 'all', 'issubdtype', 'logical_and', 'logical_or', 'logical_not',
              'bool', 'int', 'float', 'min', 'max', 'callable', 'hasattr', 'is_cupy_array', 'has_cuda', 'is_cupy_backed', 'is_dask_cupy',
              'startswith', 'endswith', 'lower', 'get', 'keys'}


def _own(fnode):
    """nodes of the function excluding nested function / lambda / class bodies"""
    out = []
    stack = list(ast.iter_child_nodes(fnode))
    while stack:
        n = stack.pop()
        out.append(n)
        if isinstance(n, (ast.FunctionDef, ast.AsyncFunctionDef, ast.Lambda, ast.ClassDef)):
            continue
        stack.extend(ast.iter_child_nodes(n))
    return out


def _pure(e):
    for x in ast.walk(e):
        if isinstance(x, (ast.Compare, ast.BoolOp, ast.UnaryOp, ast.BinOp, ast.Name, ast.Constant, ast.Attribute, ast.Subscript, ast.Tuple,
                          ast.Load, ast.operator, ast.unaryop, ast.boolop, ast.cmpop, ast.Slice, ast.List, ast.IfExp, ast.keyword)):
            continue
        if isinstance(x, ast.Call):
            f = x.func
            nm = f.attr if isinstance(f, ast.Attribute) else (f.id if isinstance(f, ast.Name) else None)
            if nm in PURE_CALLS:
                continue
            return False
        return False
    return True


def _written_names(stmt_nodes):
    """names assigned / augmented / deleted / used as loop targets / subscripted-stored in the given nodes -> [(name, lineno)]"""
    out = []
    for n in stmt_nodes:
        if isinstance(n, ast.Name) and isinstance(n.ctx, (ast.Store, ast.Del)):
            out.append((n.id, n.lineno))
        elif isinstance(n, (ast.Subscript, ast.Attribute)) and isinstance(n.ctx, (ast.Store, ast.Del)):
            b = n
            while isinstance(b, (ast.Subscript, ast.Attribute)):
                b = b.value
            if isinstance(b, ast.Name):
                out.append((b.id, n.lineno))
        elif isinstance(n, ast.Call) and isinstance(n.func, ast.Attribute) and n.func.attr in (
                'append', 'extend', 'sort', 'fill', 'pop', 'remove', 'insert', 'clear', 'update', 'add', 'reverse', 'resize', 'setdefault'):
            b = n.func.value
            while isinstance(b, (ast.Subscript, ast.Attribute)):
                b = b.value
            if isinstance(b, ast.Name):
                out.append((b.id, n.lineno))
    return out


def inline_test_locals(fnode):
    own = _own(fnode)
    a = fnode.args
    params = {x.arg for x in a.posonlyargs + a.args + a.kwonlyargs} | ({a.vararg.arg} if a.vararg else set()) | ({a.kwarg.arg} if a.kwarg else set())
    written = _written_names(own)
    stores = {}
    for nm, ln in written:
        stores.setdefault(nm, []).append(ln)
    # single plain assignments `name = <pure expr>`
    defs = {}
    for n in own:
        if isinstance(n, ast.Assign) and len(n.targets) == 1 and isinstance(n.targets[0], ast.Name):
            nm = n.targets[0].id
            if nm not in params and len(stores.get(nm, [])) == 1 and _pure(n.value) and not isinstance(n.value, (ast.Name, ast.Constant)):
                defs[nm] = n
    if not defs:
        return 0
    # parents, to find the loops around a node
    parent = {}
    for n in [fnode] + own:
        for c in ast.iter_child_nodes(n):
            parent[id(c)] = n

    def loops_of(n):
        out = []
        p = parent.get(id(n))
        while p is not None and p is not fnode:
            if isinstance(p, (ast.For, ast.While)):
                out.append(p)
            p = parent.get(id(p))
        return out
    count = 0

    def usable(name_node, test_holder):
        d = defs.get(name_node.id)
        if d is None or d.lineno >= test_holder.lineno:
            return None
        reads = {x.id for x in ast.walk(d.value) if isinstance(x, ast.Name)}
        for nm in reads:
            if any(d.lineno < ln <= test_holder.lineno for ln in stores.get(nm, [])):
                return None
        dl = {id(l) for l in loops_of(d)}
        for lp in loops_of(test_holder):
            if id(lp) in dl:
                continue
            inside = _written_names(list(ast.walk(lp)))
            if any(nm in reads for nm, ln in inside):
                return None
        return d.value

    class Sub(ast.NodeTransformer):
        def __init__(self, holder):
            self.holder = holder

        def visit_Name(self, n):
            nonlocal count
            if isinstance(n.ctx, ast.Load):
                v = usable(n, self.holder)
                if v is not None:
                    count += 1
                    return ast.copy_location(copy.deepcopy(v), n)
            return n

        def visit_Call(self, n):
            return n           # only the boolean skeleton of the test: names inside calls are left alone

        def visit_Compare(self, n):
            return n

        def visit_Subscript(self, n):
            return n

    for n in own:
        if isinstance(n, (ast.If, ast.IfExp)):
            for _ in range(3):          # a named test may itself be built from named tests
                before = count
                n.test = Sub(n).visit(n.test)
                if count == before:
                    break
    return count


def normalise_module(tree):
    n = 0
    for node in ast.walk(tree):
        if isinstance(node, (ast.FunctionDef, ast.AsyncFunctionDef)):
            n += inline_test_locals(node)
    if n:
        ast.fix_missing_locations(tree)
    return n


# ---------------------------------------------------------------------------------------------------------------- N2
def _literal(e):
    try:
        v = ast.literal_eval(e)
    except Exception:
        return _NO
    ok = lambda x: isinstance(x, (int, float, str, bool, type(None)))       # noqa
    if ok(v) or (isinstance(v, (tuple, list)) and all(ok(x) for x in v)):
        return v
    return _NO


_NO = object()


def mark_module_constants(modules):
    """N2 - *a literal held in a module-level name*.  `VIEWPOINT_ANG = 180` ... `f(VIEWPOINT_ANG)` and `f(180)` are one
    program when the name is bound exactly once, at module level, to a literal (number, string, None, bool or a tuple / list
    of these) and no function rebinds it (`global`).  The tree is not rewritten (rules that identify records or tables by
    the names of their constants keep seeing the names): every *read* of such a name inside a function that does not shadow
    it gets the attribute `_xrsa_const` with the literal's value, which `astutil.const` returns.  Names imported from another
    module of the package (`from .x import LIMIT`) are followed one step.  `modules`: name -> program.Module."""
    table = {}
    for mn, m in modules.items():
        binds = {}
        for st in m.tree.body:
            tg = []
            if isinstance(st, ast.Assign):
                tg = [t for t in st.targets]
            elif isinstance(st, (ast.AnnAssign, ast.AugAssign)):
                tg = [st.target]
            for t in tg:
                for x in ast.walk(t):
                    if isinstance(x, ast.Name):
                        binds.setdefault(x.id, []).append(st)
        for n in ast.walk(m.tree):
            if isinstance(n, (ast.Global, ast.Nonlocal)):
                for nm in n.names:
                    binds.setdefault(nm, []).append(n)
            if isinstance(n, (ast.FunctionDef, ast.ClassDef)) and n in m.tree.body:
                binds.setdefault(n.name, []).append(n)
        consts = {}
        for nm, sts in binds.items():
            if len(sts) == 1 and isinstance(sts[0], ast.Assign) and len(sts[0].targets) == 1 and isinstance(sts[0].targets[0], ast.Name):
                v = _literal(sts[0].value)
                if v is not _NO:
                    consts[nm] = v
        table[mn] = consts
    n_marked = 0
    for mn, m in modules.items():
        consts = dict(table[mn])
        for local, imp in m.imports.items():
            if imp[0] == 'attr' and imp[1] in table and imp[2] in table[imp[1]] and local not in consts:
                consts[local] = table[imp[1]][imp[2]]
        if not consts:
            continue
        for fn in [x for x in ast.walk(m.tree) if isinstance(x, (ast.FunctionDef, ast.AsyncFunctionDef, ast.Lambda))]:
            a = fn.args
            shadow = {x.arg for x in a.posonlyargs + a.args + a.kwonlyargs} | ({a.vararg.arg} if a.vararg else set()) | ({a.kwarg.arg} if a.kwarg else set())
            for x in ast.walk(fn):
                if isinstance(x, ast.Name) and isinstance(x.ctx, (ast.Store, ast.Del)):
                    shadow.add(x.id)
            for x in ast.walk(fn):
                if isinstance(x, ast.Name) and isinstance(x.ctx, ast.Load) and x.id in consts and x.id not in shadow:
                    x._xrsa_const = consts[x.id]
                    n_marked += 1
    return n_marked

