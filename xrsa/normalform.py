"""Source-level normal forms applied to every module when it is loaded (before any rule looks at it).

N1 - *a test held in a local*.  `ok = a < b and c; ...; if ok:` and `if a < b and c:` are one program when nothing the test
reads changes between the assignment and the `if`.  Rules that classify `if` tests (finiteness filters, NaN guards, bounds
tests, backend tests) would otherwise have to chase every name.  Here the name is put back: in the test of an `if` /
conditional expression, a local that is assigned exactly once in the function, from a pure expression (comparisons,
boolean / arithmetic operators, names, constants, attribute and subscript reads, and calls of a short list of pure
predicates), is replaced by that expression - provided that

* the assignment comes before the test in the text and none of the names the expression reads (a subscripted array counts
  as read as a whole) is assigned, augmented, deleted or used as a loop target between the two, and
* if the test sits in a loop that does not also contain the assignment, none of those names is assigned anywhere in that
  loop (the expression would otherwise be re-evaluated on changed values, the local was not).

The assignment itself stays where it is.  Line numbers of the `if` are kept.  Nothing else is changed."""
import ast
import copy

PURE_CALLS = {'isnan', 'isfinite', 'isinf', 'len', 'isinstance', 'abs', 'any', 'all', 'issubdtype', 'logical_and', 'logical_or', 'logical_not',
              'bool', 'int', 'float', 'min', 'max', 'callable', 'hasattr', 'is_cupy_array', 'has_cuda', 'is_cupy_backed', 'is_dask_cupy',
              'startswith', 'endswith', 'lower', 'get', 'keys'}


def _own(fnode):
    """nodes of the function excluding nested function / lambda / class bodies"""
    out = []
    stack = list(ast.iter_child_nodes(fnode))
    while stack:
        n = stack.pop()
        out.append(n)
        if isinstance(n, (ast.FunctionDef, ast.AsyncFunctionDef, ast.Lambda, ast.ClassDef)):
            continue
        stack.extend(ast.iter_child_nodes(n))
    return out


def _pure(e):
    for x in ast.walk(e):
        if isinstance(x, (ast.Compare, ast.BoolOp, ast.UnaryOp, ast.BinOp, ast.Name, ast.Constant, ast.Attribute, ast.Subscript, ast.Tuple,
                          ast.Load, ast.operator, ast.unaryop, ast.boolop, ast.cmpop, ast.Slice, ast.List, ast.IfExp, ast.keyword)):
            continue
        if isinstance(x, ast.Call):
            f = x.func
            nm = f.attr if isinstance(f, ast.Attribute) else (f.id if isinstance(f, ast.Name) else None)
            if nm in PURE_CALLS:
                continue
            return False
        return False
    return True


def _written_names(stmt_nodes):
    """names assigned / augmented / deleted / used as loop targets / subscripted-stored in the given nodes -> [(name, lineno)]"""
    out = []
    for n in stmt_nodes:
        if isinstance(n, ast.Name) and isinstance(n.ctx, (ast.Store, ast.Del)):
            out.append((n.id, n.lineno))
        elif isinstance(n, (ast.Subscript, ast.Attribute)) and isinstance(n.ctx, (ast.Store, ast.Del)):
            b = n
            while isinstance(b, (ast.Subscript, ast.Attribute)):
                b = b.value
            if isinstance(b, ast.Name):
                out.append((b.id, n.lineno))
        elif isinstance(n, ast.Call) and isinstance(n.func, ast.Attribute) and n.func.attr in (
                'append', 'extend', 'sort', 'fill', 'pop', 'remove', 'insert', 'clear', 'update', 'add', 'reverse', 'resize', 'setdefault'):
            b = n.func.value
            while isinstance(b, (ast.Subscript, ast.Attribute)):
                b = b.value
            if isinstance(b, ast.Name):
                out.append((b.id, n.lineno))
    return out


def inline_test_locals(fnode):
    own = _own(fnode)
    a = fnode.args
    params = {x.arg for x in a.posonlyargs + a.args + a.kwonlyargs} | ({a.vararg.arg} if a.vararg else set()) | ({a.kwarg.arg} if a.kwarg else set())
    written = _written_names(own)
    stores = {}
    for nm, ln in written:
        stores.setdefault(nm, []).append(ln)
    # single plain assignments `name = <pure expr>`
    defs = {}
    for n in own:
        if isinstance(n, ast.Assign) and len(n.targets) == 1 and isinstance(n.targets[0], ast.Name):
            nm = n.targets[0].id
            if nm not in params and len(stores.get(nm, [])) == 1 and _pure(n.value) and not isinstance(n.value, (ast.Name, ast.Constant)):
                defs[nm] = n
    if not defs:
        return 0
    # parents, to find the loops around a node
    parent = {}
    for n in [fnode] + own:
        for c in ast.iter_child_nodes(n):
            parent[id(c)] = n

    def loops_of(n):
        out = []
        p = parent.get(id(n))
        while p is not None and p is not fnode:
            if isinstance(p, (ast.For, ast.While)):
                out.append(p)
            p = parent.get(id(p))
        return out
    count = 0

    def usable(name_node, test_holder):
        d = defs.get(name_node.id)
        if d is None or d.lineno >= test_holder.lineno:
            return None
        reads = {x.id for x in ast.walk(d.value) if isinstance(x, ast.Name)}
        for nm in reads:
            if any(d.lineno < ln <= test_holder.lineno for ln in stores.get(nm, [])):
                return None
        dl = {id(l) for l in loops_of(d)}
        for lp in loops_of(test_holder):
            if id(lp) in dl:
                continue
            inside = _written_names(list(ast.walk(lp)))
            if any(nm in reads for nm, ln in inside):
                return None
        return d.value

    class Sub(ast.NodeTransformer):
        def __init__(self, holder):
            self.holder = holder

        def visit_Name(self, n):
            nonlocal count
            if isinstance(n.ctx, ast.Load):
                v = usable(n, self.holder)
                if v is not None:
                    count += 1
                    return ast.copy_location(copy.deepcopy(v), n)
            return n

        def visit_Call(self, n):
            return n           # only the boolean skeleton of the test: names inside calls are left alone

        def visit_Compare(self, n):
            return n

        def visit_Subscript(self, n):
            return n

    for n in own:
        if isinstance(n, (ast.If, ast.IfExp)):
            for _ in range(3):          # a named test may itself be built from named tests
                before = count
                n.test = Sub(n).visit(n.test)
                if count == before:
                    break
    return count


# ---------------------------------------------------------------------------------------------------------------- N3
def counted_while_to_for(fnode):
    """N3 - *a counted `while`*.

        i = A                          for i in range(A, B, c):
        while i < B and C:      ==         if not (C): break
            BODY                           BODY
            i += c

    when `i` is a plain local that is assigned before the loop (only plain statements that do not mention it in between), incremented by a positive integer constant in
    exactly one top-level statement of the body (BODY = PRE; i += c; POST with no `continue` of this loop in PRE - it would
    skip the increment - and no use of `i` in POST), no
    name that B reads is assigned in the loop, the loop has no `else`, and `i` is not read after the loop before it is
    assigned again.  `i <= B` is range(A, B + 1, c); a decrement with `i > B` is range(A, B, -c), with `i >= B`
    range(A, B - 1, -c).  Further conjuncts of the test become a leading `if not (...): break`.  The initialisation stays
    where it is (harmless) and line numbers are kept.  Returns the number of loops rewritten."""
    count = 0

    def names_loaded(nodes, name):
        return any(isinstance(x, ast.Name) and x.id == name and isinstance(x.ctx, ast.Load) for n_ in nodes for x in ast.walk(n_))

    def own_level(body):
        """statements of the loop body at this loop's level (not descending into nested loops / functions)"""
        out, stack = [], list(body)
        while stack:
            n_ = stack.pop()
            out.append(n_)
            if isinstance(n_, (ast.For, ast.While, ast.AsyncFor, ast.FunctionDef, ast.AsyncFunctionDef, ast.Lambda, ast.ClassDef)):
                continue            # a `continue` inside a nested loop belongs to that loop
            for ch in ast.iter_child_nodes(n_):
                stack.append(ch)
        return out

    def rewrite(stmts):
        nonlocal count
        for k, s_ in enumerate(stmts):
            for fld in ('body', 'orelse', 'finalbody'):
                sub = getattr(s_, fld, None)
                if isinstance(sub, list) and sub and isinstance(sub[0], ast.stmt):
                    rewrite(sub)
            for h in getattr(s_, 'handlers', []) or []:
                rewrite(h.body)
            if not (isinstance(s_, ast.While) and not s_.orelse and k > 0 and s_.body):
                continue
            # the counter of the test, and its initialisation: the nearest preceding statement that mentions it (plain
            # statements that do not mention the counter may stand in between)
            t0_ = s_.test.values[0] if isinstance(s_.test, ast.BoolOp) and isinstance(s_.test.op, ast.And) else s_.test
            if not (isinstance(t0_, ast.Compare) and isinstance(t0_.left, ast.Name)):
                continue
            i = t0_.left.id
            init = None
            for q in range(k - 1, -1, -1):
                if any(isinstance(x, ast.Name) and x.id == i for x in ast.walk(stmts[q])):
                    init = stmts[q]
                    break
                if not isinstance(stmts[q], (ast.Assign, ast.AnnAssign, ast.Expr, ast.Pass)):
                    break
            if not (isinstance(init, ast.Assign) and len(init.targets) == 1 and isinstance(init.targets[0], ast.Name) and init.targets[0].id == i
                    and not any(isinstance(x, ast.Name) and x.id == i for x in ast.walk(init.value))):
                continue
            test = s_.test
            conj = list(test.values) if isinstance(test, ast.BoolOp) and isinstance(test.op, ast.And) else [test]
            c0 = conj[0]
            if not (isinstance(c0, ast.Compare) and len(c0.ops) == 1 and isinstance(c0.left, ast.Name) and c0.left.id == i and
                    isinstance(c0.ops[0], (ast.Lt, ast.LtE, ast.Gt, ast.GtE))):
                continue
            B = c0.comparators[0]
            # the increment: the only top-level statement of the body that assigns the counter
            incs = [q for q, b_ in enumerate(s_.body) if (isinstance(b_, ast.AugAssign) and isinstance(b_.target, ast.Name) and b_.target.id == i) or
                    (isinstance(b_, ast.Assign) and len(b_.targets) == 1 and isinstance(b_.targets[0], ast.Name) and b_.targets[0].id == i)]
            if len(incs) != 1:
                continue
            tpos = incs[0]
            last = s_.body[tpos]
            step = None
            if isinstance(last, ast.AugAssign) and isinstance(last.target, ast.Name) and last.target.id == i and \
                    isinstance(last.op, (ast.Add, ast.Sub)) and isinstance(last.value, ast.Constant) and isinstance(last.value.value, int) and \
                    not isinstance(last.value.value, bool) and last.value.value > 0:
                step = last.value.value if isinstance(last.op, ast.Add) else -last.value.value
            elif isinstance(last, ast.Assign) and len(last.targets) == 1 and isinstance(last.targets[0], ast.Name) and last.targets[0].id == i and \
                    isinstance(last.value, ast.BinOp) and isinstance(last.value.op, (ast.Add, ast.Sub)) and isinstance(last.value.left, ast.Name) and \
                    last.value.left.id == i and isinstance(last.value.right, ast.Constant) and isinstance(last.value.right.value, int) and \
                    not isinstance(last.value.right.value, bool) and last.value.right.value > 0:
                step = last.value.right.value if isinstance(last.value.op, ast.Add) else -last.value.right.value
            if step is None:
                continue
            up = isinstance(c0.ops[0], (ast.Lt, ast.LtE))
            if up != (step > 0):
                continue
            # BODY = PRE; i += c; POST: PRE must not `continue` (the increment would be skipped), POST must not read the counter
            pre_, post_ = s_.body[:tpos], s_.body[tpos + 1:]
            rest = pre_ + post_
            if any(isinstance(x, ast.Continue) for x in own_level(pre_)):
                continue
            if any(isinstance(x, ast.Name) and x.id == i for n_ in post_ for x in ast.walk(n_)):
                continue
            allin = [x for n_ in rest for x in ast.walk(n_)]
            if any(isinstance(x, ast.Name) and x.id == i and isinstance(x.ctx, (ast.Store, ast.Del)) for x in allin):
                continue
            breads = {x.id for x in ast.walk(B) if isinstance(x, ast.Name)}
            if any(isinstance(x, ast.Name) and x.id in breads and isinstance(x.ctx, (ast.Store, ast.Del)) for x in allin) or \
                    any(isinstance(x, ast.Call) for x in ast.walk(B) if not (isinstance(x, ast.Call) and isinstance(x.func, ast.Name) and x.func.id == 'len')):
                continue
            # `i` after the loop: not read before it is assigned again (in this statement list)
            used_after = False
            for t_ in stmts[k + 1:]:
                if isinstance(t_, ast.Assign) and len(t_.targets) == 1 and isinstance(t_.targets[0], ast.Name) and t_.targets[0].id == i and \
                        not names_loaded([t_.value], i):
                    break
                occ = sorted((x for x in ast.walk(t_) if isinstance(x, ast.Name) and x.id == i), key=lambda x: (x.lineno, x.col_offset))
                if occ and isinstance(occ[0].ctx, ast.Store) and not isinstance(t_, ast.AugAssign):
                    # the first thing a later statement does with the name is to assign it (a `for i in ...` further down)
                    if any(isinstance(x, ast.For) and x.target is occ[0] for x in ast.walk(t_)):
                        break
                if occ and any(isinstance(x.ctx, ast.Load) for x in occ):
                    used_after = True
                    break
            if used_after:
                continue
            one = ast.Constant(value=1)
            if isinstance(c0.ops[0], ast.LtE):
                stop = ast.BinOp(left=copy.deepcopy(B), op=ast.Add(), right=one)
            elif isinstance(c0.ops[0], ast.GtE):
                stop = ast.BinOp(left=copy.deepcopy(B), op=ast.Sub(), right=one)
            else:
                stop = copy.deepcopy(B)
            if isinstance(stop, ast.BinOp) and isinstance(stop.left, ast.Constant) and isinstance(stop.left.value, int):
                stop = ast.Constant(value=stop.left.value + (1 if isinstance(stop.op, ast.Add) else -1))
            args = [copy.deepcopy(init.value), stop] + ([ast.Constant(value=step)] if step != 1 else [])
            if step == 1 and isinstance(init.value, ast.Constant) and init.value.value == 0:
                args = [stop]
            if step < 0:
                args[-1] = ast.UnaryOp(op=ast.USub(), operand=ast.Constant(value=-step))
            body = list(rest)
            if len(conj) > 1:
                cond = conj[1] if len(conj) == 2 else ast.BoolOp(op=ast.And(), values=conj[1:])
                neg = cond.operand if isinstance(cond, ast.UnaryOp) and isinstance(cond.op, ast.Not) else ast.UnaryOp(op=ast.Not(), operand=cond)
                body.insert(0, ast.copy_location(ast.If(test=neg, body=[ast.copy_location(ast.Break(), s_)], orelse=[]), s_))
            if not body:
                body = [ast.copy_location(ast.Pass(), s_)]
            new = ast.For(target=ast.Name(id=i, ctx=ast.Store()), iter=ast.Call(func=ast.Name(id='range', ctx=ast.Load()), args=args, keywords=[]),
                          body=body, orelse=[], type_comment=None)
            stmts[k] = ast.copy_location(new, s_)
            ast.fix_missing_locations(stmts[k])
            count += 1
    rewrite(fnode.body)
    return count


# ---------------------------------------------------------------------------------------------------------------- N4
def flat_index_to_nested(fnode):
    """N4 - *one loop over a flat cell index*.

        for k in range(R * C):             for y in range(R):
            y = k // C             ==          for x in range(C):
            x = k % C                              BODY
            BODY

    when the bound is the product of two extents (written in place or held in a local assigned once from the product), the
    first statements of the body derive the two indices from `k` by `//` and `%` with the SAME second extent (or by
    `divmod(k, C)`), `k` is used nowhere else in the loop nor after it, the two indices are not assigned again in BODY, the
    loop has no `else` and BODY has no `break` of this loop (it would leave one loop instead of two).  Row-major order is
    kept.  Returns the number of loops rewritten."""
    count = 0
    assigns = {}
    for n_ in _own(fnode):
        if isinstance(n_, ast.Assign) and len(n_.targets) == 1 and isinstance(n_.targets[0], ast.Name):
            assigns.setdefault(n_.targets[0].id, []).append(n_.value)
        elif isinstance(n_, (ast.AugAssign,)) and isinstance(n_.target, ast.Name):
            assigns.setdefault(n_.target.id, []).append(None)

    def product(e):
        if isinstance(e, ast.Name) and len(assigns.get(e.id, [])) == 1 and assigns[e.id][0] is not None:
            e = assigns[e.id][0]
        if isinstance(e, ast.BinOp) and isinstance(e.op, ast.Mult):
            return e.left, e.right
        return None

    def own_level(body):
        out, stack = [], list(body)
        while stack:
            n_ = stack.pop()
            out.append(n_)
            if isinstance(n_, (ast.For, ast.While, ast.AsyncFor, ast.FunctionDef, ast.AsyncFunctionDef, ast.Lambda, ast.ClassDef)):
                continue
            stack.extend(ast.iter_child_nodes(n_))
        return out

    def rewrite(stmts):
        nonlocal count
        for k_, s_ in enumerate(stmts):
            for fld in ('body', 'orelse', 'finalbody'):
                sub = getattr(s_, fld, None)
                if isinstance(sub, list) and sub and isinstance(sub[0], ast.stmt):
                    rewrite(sub)
            if not (isinstance(s_, ast.For) and not s_.orelse and isinstance(s_.target, ast.Name) and isinstance(s_.iter, ast.Call) and
                    isinstance(s_.iter.func, ast.Name) and s_.iter.func.id in ('range', 'prange') and len(s_.iter.args) == 1 and not s_.iter.keywords):
                continue
            pr = product(s_.iter.args[0])
            if pr is None:
                continue
            R, C = pr
            k = s_.target.id
            yname = xname = None
            used = 0
            dump = ast.dump
            for b_ in s_.body[:2]:
                if isinstance(b_, ast.Assign) and len(b_.targets) == 1 and isinstance(b_.targets[0], ast.Name) and isinstance(b_.value, ast.BinOp) and \
                        isinstance(b_.value.left, ast.Name) and b_.value.left.id == k and dump(b_.value.right) == dump(C):
                    if isinstance(b_.value.op, ast.FloorDiv) and yname is None:
                        yname, used = b_.targets[0].id, used + 1
                    elif isinstance(b_.value.op, ast.Mod) and xname is None:
                        xname, used = b_.targets[0].id, used + 1
                elif isinstance(b_, ast.Assign) and len(b_.targets) == 1 and isinstance(b_.targets[0], ast.Tuple) and len(b_.targets[0].elts) == 2 and \
                        all(isinstance(x, ast.Name) for x in b_.targets[0].elts) and isinstance(b_.value, ast.Call) and \
                        isinstance(b_.value.func, ast.Name) and b_.value.func.id == 'divmod' and len(b_.value.args) == 2 and \
                        isinstance(b_.value.args[0], ast.Name) and b_.value.args[0].id == k and dump(b_.value.args[1]) == dump(C) and used == 0:
                    yname, xname = b_.targets[0].elts[0].id, b_.targets[0].elts[1].id
                    used = 1
                    break
            if yname is None or xname is None or yname == xname:
                continue
            body = s_.body[used:]
            allin = [x for n_ in body for x in ast.walk(n_)]
            if any(isinstance(x, ast.Name) and x.id == k for x in allin):
                continue
            if any(isinstance(x, ast.Name) and x.id in (yname, xname) and isinstance(x.ctx, (ast.Store, ast.Del)) for x in allin):
                continue
            if any(isinstance(x, ast.Break) for x in own_level(body)):
                continue
            # extents must not be assigned in the body
            ext = {x.id for e_ in (R, C) for x in ast.walk(e_) if isinstance(x, ast.Name)}
            if any(isinstance(x, ast.Name) and x.id in ext and isinstance(x.ctx, (ast.Store, ast.Del)) for x in allin):
                continue
            if any(isinstance(x, ast.Name) and x.id == k and isinstance(x.ctx, ast.Load) for t_ in stmts[k_ + 1:] for x in ast.walk(t_)):
                continue
            fn = s_.iter.func.id
            inner = ast.For(target=ast.Name(id=xname, ctx=ast.Store()),
                            iter=ast.Call(func=ast.Name(id=fn, ctx=ast.Load()), args=[copy.deepcopy(C)], keywords=[]),
                            body=body or [ast.Pass()], orelse=[], type_comment=None)
            outer = ast.For(target=ast.Name(id=yname, ctx=ast.Store()),
                            iter=ast.Call(func=ast.Name(id=fn, ctx=ast.Load()), args=[copy.deepcopy(R)], keywords=[]),
                            body=[ast.copy_location(inner, s_)], orelse=[], type_comment=None)
            stmts[k_] = ast.copy_location(outer, s_)
            ast.fix_missing_locations(stmts[k_])
            count += 1
    rewrite(fnode.body)
    return count


# ---------------------------------------------------------------------------------------------------------------- N5
def index_fetch_to_element_loop(fnode):
    """N5 - *an index used only to fetch the element*.

        for k in range(len(S)):        ==      for x in S:
            x = S[k]                               BODY
            BODY

    when the bound is `len(S)` (in place, or a local assigned once from it) of a plain name S, the first statement of the
    body fetches `S[k]` into a plain local, `k` is used nowhere else in the loop nor after it, neither S nor the local is
    assigned in BODY, and the loop has no `else`.  Only in plain Python functions (not in jitted kernels, where index loops
    are the idiom the kernel rules read).  Returns the number of loops rewritten."""
    if any(isinstance(d_, (ast.Name, ast.Attribute, ast.Call)) and any(t_ in ast.dump(d_) for t_ in ("jit", "cuda")) for d_ in fnode.decorator_list):
        return 0
    count = 0
    assigns = {}
    for n_ in _own(fnode):
        if isinstance(n_, ast.Assign) and len(n_.targets) == 1 and isinstance(n_.targets[0], ast.Name):
            assigns.setdefault(n_.targets[0].id, []).append(n_.value)
        elif isinstance(n_, ast.AugAssign) and isinstance(n_.target, ast.Name):
            assigns.setdefault(n_.target.id, []).append(None)

    def len_of(e):
        if isinstance(e, ast.Name) and len(assigns.get(e.id, [])) == 1 and assigns[e.id][0] is not None:
            e = assigns[e.id][0]
        if isinstance(e, ast.Call) and isinstance(e.func, ast.Name) and e.func.id == 'len' and len(e.args) == 1 and isinstance(e.args[0], ast.Name):
            return e.args[0].id
        return None

    def rewrite(stmts):
        nonlocal count
        for k_, s_ in enumerate(stmts):
            for fld in ('body', 'orelse', 'finalbody'):
                sub = getattr(s_, fld, None)
                if isinstance(sub, list) and sub and isinstance(sub[0], ast.stmt):
                    rewrite(sub)
            if not (isinstance(s_, ast.For) and not s_.orelse and isinstance(s_.target, ast.Name) and isinstance(s_.iter, ast.Call) and
                    isinstance(s_.iter.func, ast.Name) and s_.iter.func.id == 'range' and len(s_.iter.args) == 1 and not s_.iter.keywords and s_.body):
                continue
            S = len_of(s_.iter.args[0])
            k = s_.target.id
            b0 = s_.body[0]
            if S is None or not (isinstance(b0, ast.Assign) and len(b0.targets) == 1 and isinstance(b0.targets[0], ast.Name) and
                                 isinstance(b0.value, ast.Subscript) and isinstance(b0.value.value, ast.Name) and b0.value.value.id == S and
                                 isinstance(b0.value.slice, ast.Name) and b0.value.slice.id == k):
                continue
            x = b0.targets[0].id
            body = s_.body[1:]
            allin = [y for n_ in body for y in ast.walk(n_)]
            if any(isinstance(y, ast.Name) and y.id == k for y in allin):
                continue
            if any(isinstance(y, ast.Name) and y.id in (S, x) and isinstance(y.ctx, (ast.Store, ast.Del)) for y in allin):
                continue
            if any(isinstance(y, ast.Name) and y.id == k and isinstance(y.ctx, ast.Load) for t_ in stmts[k_ + 1:] for y in ast.walk(t_)):
                continue
            new = ast.For(target=ast.Name(id=x, ctx=ast.Store()), iter=ast.Name(id=S, ctx=ast.Load()), body=body or [ast.Pass()], orelse=[], type_comment=None)
            stmts[k_] = ast.copy_location(new, s_)
            ast.fix_missing_locations(stmts[k_])
            count += 1
    rewrite(fnode.body)
    return count


# ---------------------------------------------------------------------------------------------------------------- N8
NP_PURE = {'isfinite', 'isnan', 'isinf', 'unique', 'where', 'abs', 'absolute', 'sqrt', 'sum', 'nansum', 'nanmin', 'nanmax', 'nanmean', 'nanstd',
           'min', 'max', 'mean', 'std', 'logical_and', 'logical_or', 'logical_not', 'array', 'asarray', 'arange', 'dtype', 'astype', 'ravel',
           'reshape', 'flatten', 'copy', 'zeros', 'ones', 'empty', 'full', 'zeros_like', 'empty_like', 'full_like', 'ones_like', 'concatenate',
           'hstack', 'vstack', 'stack', 'tile', 'repeat', 'linspace', 'percentile', 'nanpercentile', 'radians', 'degrees', 'sin', 'cos',
           'arctan', 'arctan2', 'arcsin', 'tan', 'float32', 'float64', 'int32', 'int64', 'int8', 'uint8', 'finfo', 'iinfo', 'issubdtype',
           'partial', 'tuple', 'list', 'dict', 'range', 'enumerate', 'zip', 'sorted', 'round', 'floor', 'ceil', 'items', 'values', 'keys',
           'searchsorted', 'argsort', 'argmin', 'argmax', 'nonzero', 'flatnonzero', 'compress', 'extract', 'take', 'diff', 'cumsum', 'any', 'all',
           'rechunk', 'to_delayed', 'from_array', 'squeeze', 'transpose', 'sel', 'isel', 'get', 'type'}


def _pure8(e):
    for x in ast.walk(e):
        if isinstance(x, (ast.Compare, ast.BoolOp, ast.UnaryOp, ast.BinOp, ast.Name, ast.Constant, ast.Attribute, ast.Subscript, ast.Tuple,
                          ast.Load, ast.operator, ast.unaryop, ast.boolop, ast.cmpop, ast.Slice, ast.List, ast.IfExp, ast.keyword, ast.Dict)):
            continue
        if isinstance(x, ast.Call):
            f = x.func
            nm = f.attr if isinstance(f, ast.Attribute) else (f.id if isinstance(f, ast.Name) else None)
            if nm in PURE_CALLS or nm in NP_PURE:
                continue
            return False
        return False
    return True


def propagate_name_aliases(fnode):
    """N8b - `b = a` with both `a` (a local assigned once, or a parameter that is never assigned) and `b` (assigned once)
    plain names: `b` is another name for the same object from then on; every read of `b` is written `a` and the
    assignment is removed.  Names of nested scopes, `global` / `nonlocal` names are left alone."""
    total = 0
    for _ in range(50):
        own = _own(fnode)
        a = fnode.args
        params = {x.arg for x in a.posonlyargs + a.args + a.kwonlyargs} | ({a.vararg.arg} if a.vararg else set()) | ({a.kwarg.arg} if a.kwarg else set())
        banned = set()
        for n in own:
            if isinstance(n, (ast.Global, ast.Nonlocal)):
                banned |= set(n.names)
            if isinstance(n, (ast.Lambda, ast.FunctionDef, ast.AsyncFunctionDef)):
                banned |= {x.id for x in ast.walk(n) if isinstance(x, ast.Name)}
        stores = {}
        for n in own:
            if isinstance(n, ast.Name) and isinstance(n.ctx, (ast.Store, ast.Del)):
                stores[n.id] = stores.get(n.id, 0) + 1
        parent = {}
        for n in [fnode] + own:
            for c in ast.iter_child_nodes(n):
                parent[id(c)] = n
        done = False
        for n in own:
            if isinstance(n, ast.Assign) and len(n.targets) == 1 and isinstance(n.targets[0], ast.Name) and isinstance(n.value, ast.Name):
                b, src = n.targets[0].id, n.value.id
                if b == src or b in banned or src in banned or b in params or stores.get(b) != 1:
                    continue
                if not ((src in params and not stores.get(src)) or (src not in params and stores.get(src) == 1)):
                    continue
                pn = parent.get(id(n))
                if pn is not fnode:
                    continue            # only aliases made at the top level of the function (they dominate every later read)
                for x in own:
                    if isinstance(x, ast.Name) and x.id == b and isinstance(x.ctx, ast.Load):
                        x.id = src
                fnode.body[:] = [s_ for s_ in fnode.body if s_ is not n] or [ast.Pass()]
                total += 1
                done = True
                break
        if not done:
            break
    return total


def inline_single_use_locals(fnode):
    """N8 - *a named intermediate*.  `t = <pure expression>; ... f(t) ...` and `... f(<pure expression>) ...` are one program
    when the local is assigned exactly once, read exactly once (not inside a nested function, lambda or comprehension), the
    expression is pure (operators, names, attribute / subscript reads, calls of a list of value-only functions), nothing it
    reads is written between the assignment and the read, and the read is not in a loop that the assignment is outside of
    while something it reads is written in that loop.  The read is replaced by the expression and the assignment removed.
    Parameters, names used in `global` / `nonlocal` statements and names that are deleted are left alone.  Returns the number
    of locals substituted."""
    total = 0
    for _round in range(300):
        own = _own(fnode)
        a = fnode.args
        params = {x.arg for x in a.posonlyargs + a.args + a.kwonlyargs} | ({a.vararg.arg} if a.vararg else set()) | ({a.kwarg.arg} if a.kwarg else set())
        banned = set()
        for n in own:
            if isinstance(n, (ast.Global, ast.Nonlocal)):
                banned |= set(n.names)
        # names read inside nested scopes / comprehensions are left alone
        for n in own:
            # (list / set / dict comprehensions are evaluated on the spot: a pure expression may be moved into them)
            if isinstance(n, (ast.Lambda, ast.FunctionDef, ast.AsyncFunctionDef, ast.GeneratorExp)):
                banned |= {x.id for x in ast.walk(n) if isinstance(x, ast.Name)}
        written = _written_names(own)
        stores = {}
        for nm, ln in written:
            stores.setdefault(nm, []).append(ln)
        loads = {}
        for n in own:
            if isinstance(n, ast.Name) and isinstance(n.ctx, ast.Load):
                loads.setdefault(n.id, []).append(n)
        parent = {}
        for n in [fnode] + own:
            for c in ast.iter_child_nodes(n):
                parent[id(c)] = n

        def stmt_of(n):
            while n is not None and not isinstance(n, ast.stmt):
                n = parent.get(id(n))
            return n

        def loops_of(n):
            out = []
            p = parent.get(id(n))
            while p is not None and p is not fnode:
                if isinstance(p, (ast.For, ast.While)):
                    out.append(p)
                p = parent.get(id(p))
            return out
        done = 0
        for n in list(own):
            if not (isinstance(n, ast.Assign) and len(n.targets) == 1 and isinstance(n.targets[0], ast.Name)):
                continue
            nm = n.targets[0].id
            if nm in params or nm in banned or len(stores.get(nm, [])) != 1 or len(loads.get(nm, [])) != 1 or not _pure8(n.value) or \
                    isinstance(n.value, ast.Constant):
                continue
            use = loads[nm][0]
            holder = stmt_of(use)
            if holder is None or holder is n or n.lineno >= holder.lineno or getattr(use, 'lineno', 0) < n.lineno:
                continue
            # the header of a loop / with is not a place to move an expression into; augmented targets are not reads to replace
            if isinstance(holder, (ast.For, ast.While, ast.With)) and any(use is x for x in ast.walk(holder.iter if isinstance(holder, ast.For) else
                                                                                             (holder.test if isinstance(holder, ast.While) else holder))):
                if not isinstance(holder, ast.For):
                    continue
            reads = {x.id for x in ast.walk(n.value) if isinstance(x, ast.Name)}
            # (a store made by the reading statement itself happens after its right-hand side has been evaluated)
            own_store_ok = isinstance(holder, (ast.Assign, ast.AugAssign, ast.Return, ast.Expr)) and \
                getattr(holder, 'end_lineno', holder.lineno) == holder.lineno
            if any((n.lineno < ln < holder.lineno) or (ln == holder.lineno and not own_store_ok) for r_ in reads for ln in stores.get(r_, [])):
                continue
            # an assignment that sits in a branch / loop the read is not in does not dominate it
            pn, ph = parent.get(id(n)), None
            anc = set()
            q = parent.get(id(holder))
            while q is not None:
                anc.add(id(q))
                q = parent.get(id(q))
            if id(pn) not in anc and pn is not fnode:
                continue
            dl = {id(l) for l in loops_of(n)}
            bad = False
            for lp in loops_of(holder):
                if id(lp) in dl:
                    continue
                inside = _written_names(list(ast.walk(lp)))
                if any(w in reads for w, ln in inside):
                    bad = True
            if bad:
                continue
            # substitute and remove the assignment
            par_use = parent.get(id(use))
            new = ast.copy_location(copy.deepcopy(n.value), use)
            replaced = False
            for fld, val in ast.iter_fields(par_use):
                if val is use:
                    setattr(par_use, fld, new)
                    replaced = True
                elif isinstance(val, list):
                    for i_, v_ in enumerate(val):
                        if v_ is use:
                            val[i_] = new
                            replaced = True
            if not replaced:
                continue
            for fld, val in ast.iter_fields(pn):
                if isinstance(val, list) and any(v_ is n for v_ in val):
                    val[:] = [v_ for v_ in val if v_ is not n] or [ast.copy_location(ast.Pass(), n)]
            done += 1
            break            # positions changed: recompute the tables
        total += done
        if not done:
            break
    return total


# ---------------------------------------------------------------------------------------------------------------- N7
class _MaskSelect(ast.NodeTransformer):
    """N7 - `np.compress(mask, x)` / `np.extract(mask, x)` with a mask computed from x itself (it has x's shape) is `x[mask]`"""
    def __init__(self):
        self.count = 0

    def visit_Call(self, n):
        self.generic_visit(n)
        if isinstance(n.func, ast.Attribute) and n.func.attr in ('compress', 'extract') and isinstance(n.func.value, ast.Name) and \
                n.func.value.id in ('np', 'numpy') and len(n.args) == 2 and not n.keywords and isinstance(n.args[1], ast.Name) and \
                any(isinstance(x, ast.Name) and x.id == n.args[1].id for x in ast.walk(n.args[0])):
            self.count += 1
            return ast.copy_location(ast.Subscript(value=n.args[1], slice=n.args[0], ctx=ast.Load()), n)
        return n


# ---------------------------------------------------------------------------------------------------------------- N9
def dissolve_namedtuples(tree):
    """N9 - *a private record*.  A `typing.NamedTuple` class of the module is a tuple with named positions: `Cls(a, b)` /
    `Cls(x=a, y=b)` is written as the tuple `(a, b)` in field order, and `v.x` on a local `v` that is assigned once - from
    such a constructor call or from a call of a module function all of whose returns are such constructor calls - is
    written `v[0]`.  (Unpacking `p, q = v` already reads the same.)  Returns the number of rewrites."""
    classes = {}
    for node in tree.body:
        if isinstance(node, ast.ClassDef) and any((isinstance(b, ast.Name) and b.id == 'NamedTuple') or
                                                  (isinstance(b, ast.Attribute) and b.attr == 'NamedTuple') for b in node.bases):
            fields = [st.target.id for st in node.body if isinstance(st, ast.AnnAssign) and isinstance(st.target, ast.Name)]
            if fields and not any(isinstance(st, (ast.FunctionDef, ast.AsyncFunctionDef)) for st in node.body):
                classes[node.name] = fields
    if not classes:
        return 0
    count = 0

    def as_tuple(call):
        f = call.func
        nm = f.id if isinstance(f, ast.Name) else None
        if nm in classes and len(call.args) == 1 and isinstance(call.args[0], ast.Starred) and not call.keywords:
            return nm, call.args[0].value          # Cls(*t): the record is the tuple t itself
        if nm not in classes or any(isinstance(a, ast.Starred) for a in call.args) or any(k.arg is None for k in call.keywords):
            return None
        fields = classes[nm]
        vals = dict(zip(fields, call.args))
        for k in call.keywords:
            if k.arg not in fields or k.arg in vals:
                return None
            vals[k.arg] = k.value
        if set(vals) != set(fields):
            return None
        return nm, ast.copy_location(ast.Tuple(elts=[vals[x] for x in fields], ctx=ast.Load()), call)
    funcs = [n_ for n_ in ast.walk(tree) if isinstance(n_, (ast.FunctionDef, ast.AsyncFunctionDef))]
    # which functions return a record (every return is a constructor call of one class)
    returns_rec = {}
    for fn in funcs:
        rets = [x for x in _own(fn) if isinstance(x, ast.Return)]
        kinds = set()
        for r in rets:
            t = as_tuple(r.value) if isinstance(r.value, ast.Call) else None
            kinds.add(t[0] if t else None)
        if rets and len(kinds) == 1 and None not in kinds:
            returns_rec[fn.name] = next(iter(kinds))
    # locals that hold a record
    for fn in funcs:
        stores = {}
        for x in _own(fn):
            if isinstance(x, ast.Name) and isinstance(x.ctx, ast.Store):
                stores[x.id] = stores.get(x.id, 0) + 1
        recs = {}
        for x in _own(fn):
            if isinstance(x, ast.Assign) and len(x.targets) == 1 and isinstance(x.targets[0], ast.Name) and stores.get(x.targets[0].id) == 1 and \
                    isinstance(x.value, ast.Call) and isinstance(x.value.func, ast.Name):
                cn = x.value.func.id
                if cn in classes and as_tuple(x.value) is not None:
                    recs[x.targets[0].id] = cn
                elif cn in returns_rec:
                    recs[x.targets[0].id] = returns_rec[cn]
        if recs:
            class _F(ast.NodeTransformer):
                def visit_Attribute(self, n_):
                    nonlocal count
                    self.generic_visit(n_)
                    if isinstance(n_.value, ast.Name) and n_.value.id in recs and isinstance(n_.ctx, ast.Load) and n_.attr in classes[recs[n_.value.id]]:
                        count += 1
                        return ast.copy_location(ast.Subscript(value=n_.value, slice=ast.Constant(value=classes[recs[n_.value.id]].index(n_.attr)),
                                                               ctx=ast.Load()), n_)
                    return n_
            for st in fn.body:
                _F().visit(st)
    # the constructor calls themselves
    class _C(ast.NodeTransformer):
        def visit_Call(self, n_):
            nonlocal count
            self.generic_visit(n_)
            t = as_tuple(n_)
            if t is not None:
                count += 1
                return t[1]
            return n_
    for fn in funcs:
        for st in fn.body:
            _C().visit(st)
    if count:
        ast.fix_missing_locations(tree)
    return count


# ---------------------------------------------------------------------------------------------------------------- N10
def inline_compiled_regex(tree):
    """N10 - `_RE = re.compile(PATTERN)` at module level (bound once, no flags) and `_RE.split(s)` is `re.split(PATTERN, s)`"""
    pats, stores = {}, {}
    for st in tree.body:
        if isinstance(st, ast.Assign):
            for t in st.targets:
                if isinstance(t, ast.Name):
                    stores[t.id] = stores.get(t.id, 0) + 1
    for st in tree.body:
        if isinstance(st, ast.Assign) and len(st.targets) == 1 and isinstance(st.targets[0], ast.Name) and stores.get(st.targets[0].id) == 1 and \
                isinstance(st.value, ast.Call) and isinstance(st.value.func, ast.Attribute) and st.value.func.attr == 'compile' and \
                isinstance(st.value.func.value, ast.Name) and st.value.func.value.id == 're' and len(st.value.args) == 1 and not st.value.keywords and \
                isinstance(st.value.args[0], ast.Constant) and isinstance(st.value.args[0].value, str):
            pats[st.targets[0].id] = st.value.args[0]
    if not pats:
        return 0
    count = 0

    class _R(ast.NodeTransformer):
        def visit_Call(self, n_):
            nonlocal count
            self.generic_visit(n_)
            f = n_.func
            if isinstance(f, ast.Attribute) and isinstance(f.value, ast.Name) and f.value.id in pats and \
                    f.attr in ('split', 'match', 'search', 'findall', 'fullmatch', 'sub', 'finditer'):
                count += 1
                return ast.copy_location(ast.Call(func=ast.Attribute(value=ast.Name(id='re', ctx=ast.Load()), attr=f.attr, ctx=ast.Load()),
                                                  args=[copy.deepcopy(pats[f.value.id])] + list(n_.args), keywords=list(n_.keywords)), n_)
            return n_
    for st in tree.body:
        if isinstance(st, (ast.FunctionDef, ast.AsyncFunctionDef, ast.ClassDef)):
            _R().visit(st)
    if count:
        ast.fix_missing_locations(tree)
    return count


# ---------------------------------------------------------------------------------------------------------------- N11
def positional_calls(tree):
    """N11 - a call of a module-level function of the same module with leading parameters passed by keyword
    (`_trim(excludes=v, data=d)`) is written positionally in the callee's parameter order (`_trim(d, v)`); keywords that do
    not continue the positional prefix stay keywords.  (The inverse of the mechanical variant `keywordise`.)"""
    sigs = {}
    for st in tree.body:
        if isinstance(st, (ast.FunctionDef, ast.AsyncFunctionDef)) and not st.args.vararg:
            sigs[st.name] = [a.arg for a in st.args.posonlyargs + st.args.args]
    count = 0

    class _P(ast.NodeTransformer):
        def visit_Call(self, n_):
            nonlocal count
            self.generic_visit(n_)
            if isinstance(n_.func, ast.Name) and n_.func.id in sigs and n_.keywords and not any(isinstance(a, ast.Starred) for a in n_.args) and \
                    not any(k.arg is None for k in n_.keywords):
                params = sigs[n_.func.id]
                kws = {k.arg: k for k in n_.keywords}
                args = list(n_.args)
                moved = 0
                for p_ in params[len(args):]:
                    if p_ in kws:
                        args.append(kws.pop(p_).value)
                        moved += 1
                    else:
                        break
                if moved:
                    n_.args = args
                    n_.keywords = [k for k in n_.keywords if k.arg in kws]
                    count += 1
            return n_
    for st in tree.body:
        if isinstance(st, (ast.FunctionDef, ast.AsyncFunctionDef, ast.ClassDef)):
            _P().visit(st)
    return count


# ---------------------------------------------------------------------------------------------------------------- N12
def unpack_projected_tuples(tree):
    """N12 - `t = f(..)` with f a module function all of whose returns are tuples of one length n, `t` assigned once and read
    only as `t[0]` .. `t[n-1]` (constant indices): written as the unpacking `t_0, .., t_{n-1} = f(..)` with the reads
    replaced by those names.  (After N9 this is how the fields of a returned record are read.)"""
    arity = {}
    for st in tree.body:
        if isinstance(st, (ast.FunctionDef, ast.AsyncFunctionDef)):
            rets = [x for x in _own(st) if isinstance(x, ast.Return)]
            lens = {len(r.value.elts) if isinstance(r.value, ast.Tuple) else None for r in rets}
            if rets and len(lens) == 1 and None not in lens:
                arity[st.name] = next(iter(lens))
    if not arity:
        return 0
    count = 0
    for fn in [n_ for n_ in ast.walk(tree) if isinstance(n_, (ast.FunctionDef, ast.AsyncFunctionDef))]:
        own = _own(fn)
        taken = {x.id for x in own if isinstance(x, ast.Name)} | {a.arg for a in fn.args.args}
        stores = {}
        for x in own:
            if isinstance(x, ast.Name) and isinstance(x.ctx, ast.Store):
                stores[x.id] = stores.get(x.id, 0) + 1
        parent = {}
        for n_ in [fn] + own:
            for c in ast.iter_child_nodes(n_):
                parent[id(c)] = n_
        for a in list(own):
            if not (isinstance(a, ast.Assign) and len(a.targets) == 1 and isinstance(a.targets[0], ast.Name) and isinstance(a.value, ast.Call) and
                    isinstance(a.value.func, ast.Name) and a.value.func.id in arity and stores.get(a.targets[0].id) == 1):
                continue
            t = a.targets[0].id
            n = arity[a.value.func.id]
            uses = [x for x in own if isinstance(x, ast.Name) and x.id == t and isinstance(x.ctx, ast.Load)]
            ok = bool(uses)
            for u in uses:
                par = parent.get(id(u))
                if not (isinstance(par, ast.Subscript) and par.value is u and isinstance(par.ctx, ast.Load) and isinstance(par.slice, ast.Constant) and
                        isinstance(par.slice.value, int) and 0 <= par.slice.value < n):
                    ok = False
            if not ok:
                continue
            names = []
            for i in range(n):
                nm = '%s_%d' % (t, i)
                while nm in taken:
                    nm += '_'
                taken.add(nm)
                names.append(nm)
            for u in uses:
                par = parent[id(u)]
                gp = parent.get(id(par))
                new = ast.copy_location(ast.Name(id=names[par.slice.value], ctx=ast.Load()), par)
                for fld, val in ast.iter_fields(gp):
                    if val is par:
                        setattr(gp, fld, new)
                    elif isinstance(val, list):
                        for i_, v_ in enumerate(val):
                            if v_ is par:
                                val[i_] = new
            a.targets[0] = ast.copy_location(ast.Tuple(elts=[ast.Name(id=x, ctx=ast.Store()) for x in names], ctx=ast.Store()), a.targets[0])
            count += 1
    if count:
        ast.fix_missing_locations(tree)
    return count


def normalise_module(tree):
    n = 0
    n += dissolve_namedtuples(tree)
    n += unpack_projected_tuples(tree)
    n += positional_calls(tree)
    n += inline_compiled_regex(tree)
    ms = _MaskSelect()
    ms.visit(tree)
    n += ms.count
    for node in ast.walk(tree):
        if isinstance(node, (ast.FunctionDef, ast.AsyncFunctionDef)):
            n += counted_while_to_for(node)
    for node in ast.walk(tree):
        if isinstance(node, (ast.FunctionDef, ast.AsyncFunctionDef)):
            n += flat_index_to_nested(node)
    for node in ast.walk(tree):
        if isinstance(node, (ast.FunctionDef, ast.AsyncFunctionDef)):
            n += index_fetch_to_element_loop(node)
    import os
    if os.environ.get('XRSA_NO_N8') != '1':
        for node in ast.walk(tree):
            if isinstance(node, (ast.FunctionDef, ast.AsyncFunctionDef)):
                n += propagate_name_aliases(node)
                n += inline_single_use_locals(node)
        ms2 = _MaskSelect()          # a mask that was held in a local is now written in place: N7 once more
        ms2.visit(tree)
        n += ms2.count
    for node in ast.walk(tree):
        if isinstance(node, (ast.FunctionDef, ast.AsyncFunctionDef)):
            n += inline_test_locals(node)
    if n:
        ast.fix_missing_locations(tree)
    return n


# ---------------------------------------------------------------------------------------------------------------- N2
def _literal(e):
    t_ = ast.unparse(e).replace(' ', '') if isinstance(e, ast.AST) else ''
    if t_ in ('np.nan', 'numpy.nan', 'np.NaN', 'math.nan', "float('nan')", 'np.NAN'):
        return float('nan')
    if t_ in ('np.inf', 'numpy.inf', 'math.inf', "float('inf')"):
        return float('inf')
    if t_ in ('-np.inf', '-numpy.inf', '-math.inf', "float('-inf')", "-float('inf')"):
        return float('-inf')
    try:
        v = ast.literal_eval(e)
    except Exception:
        return _NO
    ok = lambda x: isinstance(x, (int, float, str, bool, type(None)))       # noqa
    if ok(v) or (isinstance(v, (tuple, list)) and all(ok(x) for x in v)):
        return v
    return _NO


_NO = object()


def mark_module_constants(modules):
    """N2 - *a literal held in a module-level name*.  `VIEWPOINT_ANG = 180` ... `f(VIEWPOINT_ANG)` and `f(180)` are one
    program when the name is bound exactly once, at module level, to a literal (number, string, None, bool or a tuple / list
    of these) and no function rebinds it (`global`).  The tree is not rewritten (rules that identify records or tables by
    the names of their constants keep seeing the names): every *read* of such a name inside a function that does not shadow
    it gets the attribute `_xrsa_const` with the literal's value, which `astutil.const` returns.  Names imported from another
    module of the package (`from .x import LIMIT`) are followed one step.  `modules`: name -> program.Module."""
    table = {}
    for mn, m in modules.items():
        binds = {}
        for st in m.tree.body:
            tg = []
            if isinstance(st, ast.Assign):
                tg = [t for t in st.targets]
            elif isinstance(st, (ast.AnnAssign, ast.AugAssign)):
                tg = [st.target]
            for t in tg:
                for x in ast.walk(t):
                    if isinstance(x, ast.Name):
                        binds.setdefault(x.id, []).append(st)
        for n in ast.walk(m.tree):
            if isinstance(n, (ast.Global, ast.Nonlocal)):
                for nm in n.names:
                    binds.setdefault(nm, []).append(n)
            if isinstance(n, (ast.FunctionDef, ast.ClassDef)) and n in m.tree.body:
                binds.setdefault(n.name, []).append(n)
        consts = {}
        for nm, sts in binds.items():
            if len(sts) == 1 and isinstance(sts[0], ast.Assign) and len(sts[0].targets) == 1 and isinstance(sts[0].targets[0], ast.Name):
                v = _literal(sts[0].value)
                if v is not _NO:
                    consts[nm] = v
        table[mn] = consts
    n_marked = 0
    for mn, m in modules.items():
        consts = dict(table[mn])
        for local, imp in m.imports.items():
            if imp[0] == 'attr' and imp[1] in table and imp[2] in table[imp[1]] and local not in consts:
                consts[local] = table[imp[1]][imp[2]]
        if not consts:
            continue
        for fn in [x for x in ast.walk(m.tree) if isinstance(x, (ast.FunctionDef, ast.AsyncFunctionDef, ast.Lambda))]:
            a = fn.args
            shadow = {x.arg for x in a.posonlyargs + a.args + a.kwonlyargs} | ({a.vararg.arg} if a.vararg else set()) | ({a.kwarg.arg} if a.kwarg else set())
            for x in ast.walk(fn):
                if isinstance(x, ast.Name) and isinstance(x.ctx, (ast.Store, ast.Del)):
                    shadow.add(x.id)
            for x in ast.walk(fn):
                if isinstance(x, ast.Name) and isinstance(x.ctx, ast.Load) and x.id in consts and x.id not in shadow:
                    x._xrsa_const = consts[x.id]
                    n_marked += 1
    return n_marked

