"""Engine D/E core - flow-sensitive may-alias + mutation analysis with interprocedural summaries.

Abstract value of a name: set of roots it may share memory with:
  ('param', name) | ('global', module, name) | ('capt', name)  (a variable of an enclosing function) | ('fresh',)
Mutation events: (root, ast node, kind text).  Summaries are computed bottom-up with a recursion guard.
"""
import ast

from .program import BackendTable, Ext, Func, Partial, SelectedBackend, norm

FRESH = frozenset()
OBJ, CONT, MEM, CMEM = 'obj', 'cont', 'mem', 'cmem'
# LAZY: result of `x.astype(dtype)` without copy=: a copy for NumPy arrays, but the SAME lazy array for a dask array
# that already has that dtype - its blocks are then the caller's blocks.  It counts as sharing memory only where blocks
# are handed to a block function (map_blocks / map_overlap callbacks), nowhere else.
LAZY = 'lazy'
LSTORE = 'lstore'


def lower(vals, to=MEM):
    """derived value: shares memory with, but is not, the root object"""
    return frozenset((r, LAZY if lv == LAZY else to) for r, lv in vals)


def elems(vals):
    """element of a container / index into an object"""
    return frozenset((r, LAZY if lv == LAZY else OBJ if lv == CONT else MEM) for r, lv in vals)


def contain(vals):
    """a new container holding these values"""
    return frozenset((r, LAZY if lv == LAZY else CONT if lv in (OBJ, CONT) else CMEM) for r, lv in vals)


def unlazy(vals):
    return frozenset((r, MEM if lv == LAZY else lv) for r, lv in vals)

# attribute / method vocabulary -------------------------------------------------------------------------
ALIAS_ATTRS = {'data', 'values', 'T', 'real', 'imag', 'flat', 'variable', '_data', 'coords', 'attrs', 'dims',
               'indexes', 'chunks', 'loc', 'iloc', 'at', 'mT'}
ALIAS_METHODS = {'ravel', 'reshape', 'view', 'squeeze', 'transpose', 'swapaxes', 'isel', 'sel', 'rechunk',
                 'persist', 'get', 'item', 'to_numpy', 'to_delayed', 'compute', 'diagonal', 'asformat',
                 'expand_dims', 'rename', 'drop_vars', 'reset_coords', 'chunk', 'map_blocks', 'map_overlap',
                 '__getitem__', 'items', 'keys', 'values', 'setdefault'}
FRESH_METHODS = {'copy', 'flatten', 'astype', 'tolist', 'sum', 'mean', 'min', 'max', 'std', 'var', 'any', 'all',
                 'argsort', 'argmin', 'argmax', 'nonzero', 'round', 'clip', 'cumsum', 'to_dataset', 'to_dataframe',
                 'format', 'split', 'strip', 'lower', 'upper', 'join', 'index', 'count', 'isin', 'ptp', 'dot',
                 'repeat', 'take', 'tobytes', 'conj', 'fillna', 'where', 'isnull', 'notnull', 'interp', 'dropna',
                 'stack', 'unstack', 'groupby', 'to_numpy_copy', 'startswith', 'endswith', 'issubset', 'union',
                 'raster', 'line', 'points', 'is_integer', 'total_seconds', 'arange', 'zeros', 'ones', 'empty', 'full',
                 'linspace', 'nanmin', 'nanmax', 'nanmean', 'nanstd', 'percentile', 'nanpercentile', 'concatenate',
                 'unique', 'array', 'zeros_like', 'empty_like', 'meshgrid', 'isnan', 'isfinite', 'sqrt', 'abs',
                 'choice', 'permutation', 'rand', 'randn', 'random', 'digitize', 'searchsorted', 'quantile'}
MUTATING_METHODS = {'sort', 'fill', 'resize', 'append', 'extend', 'insert', 'pop', 'remove', 'clear', 'update',
                    'setdefault', 'add', 'discard', 'popitem', 'put', 'itemset', 'partition', 'setflags',
                    'byteswap', 'reverse', '__setitem__', 'shuffle'}
ALIAS_FUNCS = {'numpy.asarray', 'numpy.asanyarray', 'numpy.ascontiguousarray', 'numpy.asfortranarray',
               'numpy.ravel', 'numpy.reshape', 'numpy.squeeze', 'numpy.transpose', 'numpy.atleast_1d',
               'numpy.atleast_2d', 'numpy.atleast_3d', 'numpy.broadcast_to', 'numpy.swapaxes', 'numpy.moveaxis',
               'numpy.expand_dims', 'numpy.flipud', 'numpy.fliplr', 'numpy.flip', 'numpy.rot90', 'numpy.diagonal',
               'numpy.real', 'numpy.imag', 'numpy.lib.stride_tricks.as_strided', 'numpy.nditer',
               'xarray.DataArray', 'xarray.Dataset', 'dask.array.asarray', 'dask.array.from_array',
               'dask.array.squeeze', 'dask.array.reshape', 'dask.array.transpose', 'dask.array.ravel',
               'builtins.iter', 'builtins.zip', 'builtins.enumerate', 'builtins.reversed', 'builtins.next',
               'cupy.asarray', 'numpy.require', 'numpy.lib.stride_tricks.sliding_window_view',
               'copy.copy'}
SHALLOW_COPY_FUNCS = {'builtins.dict', 'builtins.list', 'builtins.tuple', 'builtins.set', 'builtins.sorted',
                      'builtins.frozenset'}
# shallow copies keep aliasing of contained arrays: dict()/list()/tuple()/copy.copy are treated as aliasing
INPLACE_FUNCS = {'numpy.copyto': 0, 'numpy.put': 0, 'numpy.place': 0, 'numpy.putmask': 0, 'numpy.fill_diagonal': 0,
                 'numpy.random.shuffle': 0, 'numpy.put_along_axis': 0}


class Event:
    def __init__(self, root, node, kind, func):
        self.root = root
        self.node = node
        self.kind = kind
        self.func = func
        self.level = MEM
        self.attr_store = False

    def __repr__(self):
        return 'Event(%s %s @%s:%s)' % (self.root, self.kind, self.func.qualname, getattr(self.node, 'lineno', '?'))


class Summary:
    def __init__(self, func):
        self.func = func
        self.events = []          # mutations of params/globals/captured
        self.returns = set()      # roots the return value may alias
        self.global_reads = set()
        self.calls = []
        self.escapes = []         # (root, node, how): stored into attribute / container of another object
        self.constructs = []      # xr.DataArray(...) constructions: (node, data roots, keywords, func)

    def writes_param(self, p):
        return [e for e in self.events if e.root == ('param', p)]


class Effects:
    def __init__(self, prog):
        self.prog = prog
        self.memo = {}
        self.stack = set()

    # ------------------------------------------------------------------------------------------- summaries
    def summary(self, f):
        if id(f) in self.memo:
            return self.memo[id(f)]
        if id(f) in self.stack:
            return Summary(f)      # recursion: optimistic inner, fixed by outer pass
        self.stack.add(id(f))
        try:
            s = _Analyzer(self, f).run()
        finally:
            self.stack.discard(id(f))
        self.memo[id(f)] = s
        return s


class _Analyzer:
    def __init__(self, eff, f):
        self.eff = eff
        self.prog = eff.prog
        self.f = f
        self.mod = f.module
        self.s = Summary(f)
        self.env = {}
        for p in f.params + f.kwonly:
            self.env[p] = frozenset([(('param', p), OBJ)])
        for p in ([f.vararg] if f.vararg else []) + ([f.kwarg] if f.kwarg else []):
            self.env[p] = frozenset([(('param', p), CONT)])
        self.local_names = set(self.env) | set(f.local_assigns())
        for n in f.own_nodes():
            if isinstance(n, (ast.FunctionDef,)):
                self.local_names.add(n.name)
            if isinstance(n, ast.comprehension):
                for x in ast.walk(n.target):
                    if isinstance(x, ast.Name):
                        self.local_names.add(x.id)
            if isinstance(n, ast.NamedExpr):
                self.local_names.add(n.target.id)
        self.globals_decl = set()
        for n in f.own_nodes():
            if isinstance(n, ast.Global):
                self.globals_decl |= set(n.names)

    def run(self):
        self.block(self.f.body)
        return self.s

    # ------------------------------------------------------------------------------------------- values
    def roots_of_name(self, name):
        if name in self.globals_decl:
            return frozenset([(('global', self.mod.name, name), OBJ)])
        if name in self.env:
            return self.env[name]
        if name in self.local_names:
            return FRESH
        # enclosing function variable?
        s = self.f.parent
        while s is not None:
            if name in s.params or name in s.kwonly or name in s.local_assigns() or name in s.children:
                if name in s.children:
                    return FRESH
                return frozenset([(('capt', name), OBJ)])
            s = s.parent
        t = self.prog.resolve_global(self.mod.name, name)
        if isinstance(t, tuple) and t[0] in ('modvalue', 'modvalue-multi'):
            self.s.global_reads.add((t[1].name, name))
            if t[0] == 'modvalue' and isinstance(t[3], ast.Constant) and isinstance(t[3].value, (int, float, str, bool, type(None), bytes)):
                # an immutable literal (`_FIRST_ID = 1`): nothing can be changed through a name that holds it - `v = _FIRST_ID;
                # v += 1` rebinds v
                return FRESH
            if t[0] == 'modvalue' and isinstance(t[3], ast.UnaryOp) and isinstance(t[3].operand, ast.Constant) and \
                    isinstance(t[3].operand.value, (int, float)):
                return FRESH
            return frozenset([(('global', t[1].name, name), OBJ)])
        return FRESH

    def val(self, e):
        """roots the value of expression e may alias"""
        if e is None:
            return FRESH
        if isinstance(e, ast.Name):
            return self.roots_of_name(e.id)
        if isinstance(e, ast.Attribute):
            d = self.prog.dotted(self.f, self.mod, e) if not self._rooted_local(e) else None
            if d is not None:
                if isinstance(d, tuple) and d[0] in ('modvalue', 'modvalue-multi'):
                    return frozenset([(('global', d[1].name, d[2]), OBJ)])
                return FRESH
            base = self.val(e.value)
            if e.attr in ('shape', 'dtype', 'ndim', 'size', 'name', 'nbytes', 'itemsize', 'strides'):
                return FRESH
            return lower(base)
        if isinstance(e, ast.Subscript):
            base = self.val(e.value)
            self.val(e.slice)
            if not base:
                return FRESH
            if _is_fancy(e.slice):
                return FRESH
            return elems(base)
        if isinstance(e, ast.Call):
            return self.call(e)
        if isinstance(e, (ast.Tuple, ast.List, ast.Set)):
            r = set()
            for x in e.elts:
                r |= contain(self.val(x))
            return frozenset(r)
        if isinstance(e, ast.Dict):
            r = set()
            for x in e.values:
                r |= contain(self.val(x))
            return frozenset(r)
        if isinstance(e, ast.IfExp):
            self.val(e.test)
            return self.val(e.body) | self.val(e.orelse)
        if isinstance(e, ast.BoolOp):
            r = set()
            for x in e.values:
                r |= self.val(x)
            return frozenset(r)
        if isinstance(e, ast.Starred):
            return self.val(e.value)
        if isinstance(e, ast.NamedExpr):
            r = self.val(e.value)
            self.env[e.target.id] = r
            return r
        if isinstance(e, (ast.ListComp, ast.SetComp, ast.GeneratorExp, ast.DictComp)):
            saved = dict(self.env)
            for g in e.generators:
                r = elems(self.val(g.iter))
                for x in ast.walk(g.target):
                    if isinstance(x, ast.Name):
                        self.env[x.id] = r
                for c in g.ifs:
                    self.val(c)
            if isinstance(e, ast.DictComp):
                out = contain(self.val(e.value))
                self.val(e.key)
            else:
                out = contain(self.val(e.elt))
            self.env = saved
            return out
        if isinstance(e, ast.Lambda):
            return FRESH
        if isinstance(e, (ast.BinOp, ast.UnaryOp, ast.Compare, ast.Constant, ast.JoinedStr, ast.FormattedValue)):
            for c in ast.iter_child_nodes(e):
                if isinstance(c, ast.expr):
                    self.val(c)
            return FRESH
        if isinstance(e, ast.Slice):
            for c in (e.lower, e.upper, e.step):
                if c is not None:
                    self.val(c)
            return FRESH
        if isinstance(e, ast.Await):
            return self.val(e.value)
        for c in ast.iter_child_nodes(e):
            if isinstance(c, ast.expr):
                self.val(c)
        return FRESH

    def _rooted_local(self, e):
        while isinstance(e, ast.Attribute):
            e = e.value
        return isinstance(e, ast.Name) and (e.id in self.env or e.id in self.local_names)

    # ------------------------------------------------------------------------------------------- calls
    def mutate(self, vals, node, kind, levels=(OBJ, MEM)):
        for r, lv in vals:
            if lv in levels:
                ev = Event(r, node, kind, self.f)
                ev.level = lv
                self.s.events.append(ev)

    def call(self, e):
        argvals = [self.val(a) for a in e.args]
        kwvals = {k.arg: self.val(k.value) for k in e.keywords}
        # out= keyword of ufuncs
        if 'out' in kwvals and kwvals['out']:
            self.mutate(kwvals['out'], e, 'out= keyword')
        fnode = e.func
        # method call on a value
        if isinstance(fnode, ast.Attribute) and (self._rooted_local(fnode) or
                                                 self.prog.dotted(self.f, self.mod, fnode) is None):
            recv = self.val(fnode.value)
            meth = fnode.attr
            if meth in MUTATING_METHODS and recv:
                # dict.get/setdefault etc: setdefault mutates
                self.mutate(recv, e, 'method .%s()' % meth)
            if meth == 'astype':
                cp = None
                for k in e.keywords:
                    if k.arg == 'copy':
                        cp = k.value
                if cp is not None and norm(cp) == 'False':
                    return lower(recv)
                if cp is not None:
                    return FRESH
                return frozenset((r, LAZY) for r, lv in recv if lv != CONT and lv != CMEM)
            if meth in ('map_blocks', 'map_overlap'):
                self._callback(e.args[0] if e.args else None, [recv] + argvals[1:], e, raw_blocks=(meth == 'map_blocks'))
                return FRESH
            if meth in ALIAS_METHODS:
                return lower(recv)
            if meth in FRESH_METHODS:
                return FRESH
            # unknown method on an aliasing value: conservatively may alias receiver
            # calling a function-valued parameter/attribute with aliasing args: may do anything -> assume reads only
            return lower(recv)
        t = self.prog.resolve_callable(self.f, self.mod, fnode)
        if isinstance(t, SelectedBackend):
            t = t.table
            # mapper(agg)(args...): the selected backend function is called - consider the numpy and dask entries
            out = set()
            for slot, expr in t.entries.items():
                if slot in ('cupy_func', 'dask_cupy_func'):
                    continue
                tgt = self.prog.resolve_callable(t.scope, self.mod, expr)
                out |= self.apply(tgt, e, argvals, kwvals, 1)
            return frozenset(out)
        return self.apply(t, e, argvals, kwvals)

    def apply(self, t, e, argvals, kwvals, depth=0):
        if isinstance(t, Partial):
            pre = [self.val(a) for a in t.args]
            kw2 = {k: self.val(v) for k, v in t.keywords.items()}
            kw2.update(kwvals)
            return self.apply(t.target, e, pre + argvals, kw2, depth + 1)
        if isinstance(t, (BackendTable, SelectedBackend)):
            # constructing / selecting from the table; the selected function is applied when it is called
            return FRESH
        if isinstance(t, tuple) and t and t[0] == 'callresult':
            inner = t[1]
            if isinstance(inner, SelectedBackend):
                inner = inner.table
            if isinstance(inner, BackendTable):
                out = set()
                for slot, expr in inner.entries.items():
                    if slot in ('cupy_func', 'dask_cupy_func'):
                        continue
                    tgt = self.prog.resolve_callable(inner.scope, self.mod, expr)
                    out |= self.apply(tgt, e, argvals, kwvals, depth + 1)
                return frozenset(out)
            return FRESH
        if isinstance(t, Func):
            return self.apply_func(t, e, argvals, kwvals)
        if isinstance(t, Ext):
            dn = t.dotted
            if dn in INPLACE_FUNCS:
                i = INPLACE_FUNCS[dn]
                if len(argvals) > i and argvals[i]:
                    self.mutate(argvals[i], e, 'in-place function %s' % dn)
                return FRESH
            if dn in ('numpy.array',):
                cp = [k for k in e.keywords if k.arg == 'copy']
                if cp and norm(cp[0].value) == 'False':
                    return lower(argvals[0]) if argvals else FRESH
                return FRESH
            if dn in ('dask.array.map_blocks', 'dask.array.map_overlap'):
                self._callback(e.args[0] if e.args else None, argvals[1:], e, raw_blocks=dn.endswith('map_blocks'))
                return FRESH
            if dn in ('dask.delayed', 'dask.delayed.delayed'):
                return FRESH
            if dn in ('xarray.DataArray', 'xarray.core.dataarray.DataArray'):
                data = argvals[0] if argvals else kwvals.get('data', FRESH)
                self.s.constructs.append((e, data, {k.arg: k.value for k in e.keywords if k.arg}, self.f))
                return lower(data)
            if dn in ALIAS_FUNCS:
                r = set()
                for a in argvals:
                    r |= lower(a)
                for k, v in kwvals.items():
                    if k in ('data', 'coords', 'attrs', 'data_vars'):
                        r |= lower(v)
                return frozenset(r)
            if dn in ('copy.deepcopy',):
                return FRESH
            if dn in SHALLOW_COPY_FUNCS:
                r = set()
                for a in argvals:
                    r |= contain(elems(a))
                return frozenset(r)
            return FRESH
        if isinstance(t, tuple) and t and t[0] == 'param':
            # calling a function-valued parameter: unknown callee, assumed not to mutate (user reducers)
            return FRESH
        return FRESH

    def apply_func(self, g, e, argvals, kwvals):
        # pure forwarders `lambda *args: h(*args, k=v)` / `def g(*args): return h(*args)`: positional actuals keep
        # their positions (binding every actual to every parameter would blame the raster for writes to a scalar)
        fw = _forward_target(g)
        if fw is not None and not any(isinstance(a, ast.Starred) for a in e.args):
            call = fw
            h = self.prog.resolve_callable(g, g.module, call.func)
            hh = h
            while isinstance(hh, Partial):
                hh = hh.target
            if isinstance(hh, Func) and hh is not g:
                kw2 = dict(kwvals)
                for k in call.keywords:
                    if k.arg and k.arg not in kw2:
                        kw2[k.arg] = FRESH
                return self.apply(h, e, argvals, kw2, 1)
        sm = self.eff.summary(g)
        bind = {}
        params = list(g.params)
        for i, a in enumerate(argvals):
            if i < len(params):
                bind[params[i]] = a
            elif g.vararg:
                bind[g.vararg] = bind.get(g.vararg, FRESH) | contain(a)
        for k, v in kwvals.items():
            if k in params or k in g.kwonly:
                bind[k] = v
            elif g.kwarg:
                bind[g.kwarg] = bind.get(g.kwarg, FRESH) | contain(v)
        # *args passthrough: Starred actuals spread to all remaining params
        if any(isinstance(a, ast.Starred) for a in e.args):
            star = FRESH
            for a, v in zip(e.args, argvals):
                if isinstance(a, ast.Starred):
                    star = star | elems(v)
            for p in params:
                bind[p] = bind.get(p, FRESH) | star
            if g.vararg:
                bind[g.vararg] = bind.get(g.vararg, FRESH) | contain(star)
        for ev in sm.events:
            if ev.root[0] == 'param':
                roots = bind.get(ev.root[1], FRESH)
                if roots:
                    for r, lv in roots:
                        if ev.level == LSTORE:
                            if lv in (OBJ, MEM, LAZY):
                                ne = Event(r, e, 'call of %s: %s' % (g.qualname, ev.kind.split(' (')[0]), self.f)
                                ne.level = LSTORE
                                ne.origin = getattr(ev, 'origin', ev)
                                self.s.events.append(ne)
                            continue
                        if ev.level == CONT:
                            continue   # the callee mutates its own *args/**kwargs container
                        if lv == LAZY and not getattr(ev, 'via_blocks', False):
                            continue   # a copy unless handed out as raw dask blocks (promoted at map_blocks callbacks)
                        if ev.level == OBJ and lv == MEM and ev.attr_store:
                            continue   # attribute store on an object derived from ours
                        ne = Event(r, e, 'call of %s which writes its parameter `%s` (%s at line %s)'
                                   % (g.qualname, ev.root[1], ev.kind.split(' (')[0],
                                      getattr(ev.node, 'lineno', '?')), self.f)
                        ne.attr_store = ev.attr_store
                        ne.level = OBJ if (ev.level == OBJ and lv in (OBJ, CONT)) else MEM
                        ne.origin = getattr(ev, 'origin', ev)
                        ne.via_blocks = getattr(ev, 'via_blocks', False)
                        for k in ('attr', 'value'):
                            if hasattr(ev, k):
                                setattr(ne, k, getattr(ev, k))
                        self.s.events.append(ne)
            elif ev.root[0] == 'global':
                self.s.events.append(Event(ev.root, e, 'call of %s: %s' % (g.qualname, ev.kind), self.f))
            elif ev.root[0] == 'capt':
                # captured variable of an enclosing function of g: if that is us, map to our env
                if g.parent is self.f or self._encloses(g):
                    roots = self.roots_of_name(ev.root[1])
                    for r, lv in roots:
                        ne = Event(r, e, 'call of closure %s which writes captured `%s`'
                                   % (g.qualname, ev.root[1]), self.f)
                        ne.attr_store = ev.attr_store
                        ne.level = lv
                        self.s.events.append(ne)
        out = set()
        for r, lv in sm.returns:
            if r[0] == 'param':
                b = bind.get(r[1], FRESH)
                if lv == OBJ:
                    out |= b
                elif lv == MEM:
                    out |= lower(b)
                else:
                    out |= contain(b)
            elif r[0] == 'global':
                out.add((r, lv))
            elif r[0] == 'capt':
                if g.parent is self.f or self._encloses(g):
                    rr = self.roots_of_name(r[1])
                    out |= rr if lv == OBJ else lower(rr)
        self.s.global_reads |= sm.global_reads
        return frozenset(out)

    def _encloses(self, g):
        s = g.parent
        while s is not None:
            if s is self.f:
                return True
            s = s.parent
        return False

    def _callback(self, fexpr, argvals, e, raw_blocks=False):
        """a function handed to map_blocks/map_overlap: apply it to the arrays"""
        if fexpr is None:
            return
        t = self.prog.resolve_callable(self.f, self.mod, fexpr)
        # block arguments are blocks of the arrays; writing a block does not write the dask array's source in
        # general, but for numpy-backed dask arrays blocks may be views: treated as aliasing (conservative)
        # map_blocks hands the array's own blocks to the function (a same-dtype `astype` on a dask array is the array
        # itself); map_overlap hands freshly concatenated block + halo arrays
        n0 = len(self.s.events)
        self.apply(t, e, [unlazy(v) for v in argvals] if raw_blocks else argvals, {})
        if raw_blocks:
            for ev in self.s.events[n0:]:
                ev.via_blocks = True

    # ------------------------------------------------------------------------------------------- statements
    def block(self, stmts):
        for s in stmts:
            self.stmt(s)

    def assign_target(self, t, roots, node):
        if isinstance(t, ast.Name):
            if t.id in self.globals_decl:
                self.s.events.append(Event(('global', self.mod.name, t.id), node, 'rebinding via `global`', self.f))
                return
            self.env[t.id] = roots
        elif isinstance(t, (ast.Tuple, ast.List)):
            for x in t.elts:
                self.assign_target(x, roots, node)
        elif isinstance(t, ast.Starred):
            self.assign_target(t.value, roots, node)
        elif isinstance(t, ast.Subscript):
            base = self.val(t.value)
            self.val(t.slice)
            if base:
                self.mutate(base, node, 'subscript store `%s`' % norm(t)[:60])
                # a store into `x.astype(t)`: harmless on NumPy (always a copy); on a dask array of that dtype already, astype
                # hands back the array itself and `__setitem__` rewrites that very object - recorded apart (level LSTORE) and
                # judged by the rule that knows which functions receive dask arrays
                for r, lv in base:
                    if lv == LAZY:
                        ev = Event(r, node, 'subscript store `%s` into the result of a plain `astype`' % norm(t)[:60], self.f)
                        ev.level = LSTORE
                        self.s.events.append(ev)
            if roots and base:
                for r, lv in roots:
                    self.s.escapes.append((r, node, 'stored into %s' % norm(t.value)))
        elif isinstance(t, ast.Attribute):
            base = self.val(t.value)
            n0 = len(self.s.events)
            self.mutate(base, node, 'attribute store `%s`' % norm(t)[:60], levels=(OBJ,))
            for ev in self.s.events[n0:]:
                ev.attr_store = True
                ev.attr = t.attr
                ev.value = getattr(node, 'value', None)

    def stmt(self, s):
        if isinstance(s, ast.Assign):
            r = self.val(s.value)
            for t in s.targets:
                self.assign_target(t, r, s)
        elif isinstance(s, ast.AnnAssign):
            if s.value is not None:
                self.assign_target(s.target, self.val(s.value), s)
        elif isinstance(s, ast.AugAssign):
            self.val(s.value)
            t = s.target
            if isinstance(t, ast.Name):
                roots = self.roots_of_name(t.id)
                if t.id in self.globals_decl:
                    self.s.events.append(Event(('global', self.mod.name, t.id), s, 'augmented assignment via `global`', self.f))
                elif roots:
                    # in-place for arrays (x *= 2 mutates the array x aliases)
                    self.mutate(roots, s, 'augmented assignment `%s`' % norm(s)[:60])
            else:
                base = self.val(t.value) if isinstance(t, (ast.Subscript, ast.Attribute)) else FRESH
                if base:
                    self.mutate(base, s, 'augmented store `%s`' % norm(t)[:60])
        elif isinstance(s, ast.Expr):
            self.val(s.value)
        elif isinstance(s, ast.Return):
            if s.value is not None:
                self.s.returns |= self.val(s.value)
        elif isinstance(s, ast.If):
            self.val(s.test)
            e0 = dict(self.env)
            self.block(s.body)
            e1 = self.env
            self.env = dict(e0)
            self.block(s.orelse)
            self.env = _join(e1, self.env)
        elif isinstance(s, (ast.For, ast.AsyncFor)):
            it = self.val(s.iter)
            for _ in range(2):
                e0 = dict(self.env)
                self.assign_target(s.target, elems(it), s)
                n0 = len(self.s.events)
                self.block(s.body)
                self.env = _join(e0, self.env)
                if _ == 0:
                    del self.s.events[n0:]   # second pass re-records with the loop-carried aliases
            self.block(s.orelse)
        elif isinstance(s, ast.While):
            for _ in range(2):
                e0 = dict(self.env)
                self.val(s.test)
                n0 = len(self.s.events)
                self.block(s.body)
                self.env = _join(e0, self.env)
                if _ == 0:
                    del self.s.events[n0:]
            self.block(s.orelse)
        elif isinstance(s, ast.Try):
            e0 = dict(self.env)
            self.block(s.body)
            envs = [self.env]
            for h in s.handlers:
                self.env = dict(e0)
                self.block(h.body)
                envs.append(self.env)
            self.env = envs[0]
            for x in envs[1:]:
                self.env = _join(self.env, x)
            self.block(s.orelse)
            self.block(s.finalbody)
        elif isinstance(s, (ast.With, ast.AsyncWith)):
            for it in s.items:
                r = self.val(it.context_expr)
                if it.optional_vars is not None:
                    self.assign_target(it.optional_vars, r, s)
            self.block(s.body)
        elif isinstance(s, ast.Delete):
            for t in s.targets:
                if isinstance(t, ast.Subscript):
                    base = self.val(t.value)
                    if base:
                        self.mutate(base, s, 'del of element `%s`' % norm(t)[:60])
        elif isinstance(s, (ast.Raise, ast.Assert)):
            for c in ast.iter_child_nodes(s):
                if isinstance(c, ast.expr):
                    self.val(c)
        elif isinstance(s, (ast.FunctionDef, ast.ClassDef, ast.Pass, ast.Break, ast.Continue, ast.Global,
                            ast.Nonlocal, ast.Import, ast.ImportFrom)):
            if isinstance(s, ast.FunctionDef):
                self.env[s.name] = FRESH
        else:
            for c in ast.iter_child_nodes(s):
                if isinstance(c, ast.expr):
                    self.val(c)


def _forward_target(g):
    """the call node if g is `lambda *a: h(*a, ...)` or a def whose body is `return h(*a, ...)` with only its vararg"""
    if g.vararg is None or g.params:
        return None
    body = g.node.body if g.is_lambda else None
    if body is None:
        stmts = [s for s in g.node.body if not (isinstance(s, ast.Expr) and isinstance(s.value, ast.Constant))]
        if len(stmts) == 1 and isinstance(stmts[0], ast.Return):
            body = stmts[0].value
    if isinstance(body, ast.Call) and len(body.args) == 1 and isinstance(body.args[0], ast.Starred) and \
            isinstance(body.args[0].value, ast.Name) and body.args[0].value.id == g.vararg:
        return body
    return None


def _join(a, b):
    out = {}
    for k in set(a) | set(b):
        out[k] = a.get(k, FRESH) | b.get(k, FRESH)
    return out


def _is_fancy(sl):
    """boolean-mask / integer-array indexing makes a copy; basic slices and integer indices make views.
    Unknown index expressions (names) are treated as basic (aliasing) - conservative for mutation checks."""
    items = sl.elts if isinstance(sl, ast.Tuple) else [sl]
    for it in items:
        if isinstance(it, (ast.Compare, ast.List)):
            return True
        if isinstance(it, ast.Call) and norm(it.func).split('.')[-1] in ('isfinite', 'isnan', 'where', 'nonzero',
                                                                        'logical_and', 'logical_or', 'argsort',
                                                                        'isin', 'logical_not'):
            return True
        if isinstance(it, ast.UnaryOp) and isinstance(it.op, ast.Invert):
            return True
        if isinstance(it, ast.BinOp) and isinstance(it.op, (ast.BitAnd, ast.BitOr)):
            return True
    return False


def is_arraylike(prog, f, p, _seen=None):
    """heuristic type test: parameter p of f is used as an array/raster/container (subscripted, attribute access,
    iterated, or forwarded to a parameter that is)."""
    _seen = _seen if _seen is not None else set()
    if (id(f), p) in _seen:
        return False
    _seen.add((id(f), p))
    for n in f.own_nodes():
        if isinstance(n, ast.Subscript) and isinstance(n.value, ast.Name) and n.value.id == p:
            return True
        if isinstance(n, ast.Attribute) and isinstance(n.value, ast.Name) and n.value.id == p:
            return True
        if isinstance(n, (ast.For, ast.comprehension)) and isinstance(n.iter, ast.Name) and n.iter.id == p:
            return True
        if isinstance(n, ast.Call):
            t = prog.resolve_callable(f, f.module, n.func)
            while isinstance(t, Partial):
                t = t.target
            if isinstance(t, Func):
                for i, a in enumerate(n.args):
                    if isinstance(a, ast.Name) and a.id == p and i < len(t.params):
                        if is_arraylike(prog, t, t.params[i], _seen):
                            return True
                    if isinstance(a, ast.Starred) and isinstance(a.value, ast.Name) and a.value.id == p:
                        return True
                for k in n.keywords:
                    if isinstance(k.value, ast.Name) and k.value.id == p and k.arg in t.params:
                        if is_arraylike(prog, t, k.arg, _seen):
                            return True
    return False
