"""Generates /verif/MANIFEST.json from the CLAIMS table below (single source of truth)."""
import json
import os

VERIF = os.path.dirname(os.path.dirname(os.path.abspath(__file__)))
PY = '/venv/bin/python'

CLAIMS = {}
NOT_APPLICABLE = {}


def claim(pid, text, note, technique, design_ref):
    CLAIMS[pid] = dict(text=text, note=note, technique=technique, design_ref=design_ref)


def na(pid, reason):
    NOT_APPLICABLE[pid] = reason


claim('C08',
      'Static analysis (symbolic kernel interpretation): the slope, aspect and curvature kernels reached from the '
      'public functions are interpreted into stores over an exact rational-function algebra; decided for every '
      'input at once: interior loop ranges, NaN-initialised output, single store at [y,x], footprint within 3x3, '
      'the stored expression equals the documented Horn/Laplacian formula (normal-form equality, constants to '
      '1e-5), offset invariance, the aspect compass table by exhaustive enumeration of the threshold cells of '
      'atan2, cell-size binding wrapper->kernel and (x,y) order of the resolution helpers, hillshade as a '
      'unit-spaced np.gradient followed by elementwise operations with NaN borders and the documented shading '
      'expression. It decides these structural clauses, not floating-point rounding nor hillshade in [0,1].',
      'Trusted: CPython ast; numba compiles the kernel to what its source says; np.gradient = central differences; '
      'listed ufuncs are elementwise; the documented formulas in DESIGN.md Appendix B. GPU paths not analysed.',
      'abstract interpretation of kernels to rational normal forms + finite decision-table enumeration',
      'DESIGN.md §4 C08')

ALL = ['C%02d' % i for i in range(1, 20)]


def build():
    checks = []
    for pid in ALL:
        if pid in CLAIMS:
            c = CLAIMS[pid]
            checks.append({
                'property_id': pid,
                'quick_cmd': '%s -m xrsa.check %s --tier quick' % (PY, pid),
                'thorough_cmd': '%s -m xrsa.check %s --tier thorough' % (PY, pid),
                'evidence_file': 'evidence/%s.json' % pid,
                'replay_cmd_template': '%s -m xrsa.check --replay {path}' % PY,
                'engine': 'xrsa',
                'level_claimed': {'category': 'other', 'text': c['text'], 'design_ref': c['design_ref']},
                'level_note': c['note'],
                'technique': c['technique'],
            })
    man = {
        'version': 1,
        'setup_cmd': '%s -m xrsa.setup' % PY,
        'hooks': {
            'guard': 'XRSPATIAL_VERIF',
            'enable': 'none needed: the checkers read /repo/xrspatial/*.py from the working tree; no hook exists in /repo',
            'baseline_off_cmd': 'cd /repo && /venv/bin/python -m pytest -ra -q -p no:cacheprovider --timeout=900 '
                                '--continue-on-collection-errors',
            'source_commits': [],
            'add_only': True,
        },
        'engines': [{'name': 'xrsa', 'path': 'xrsa/', 'serves_properties': sorted(CLAIMS),
                     'kind_free_text': 'repository-specific static analysis (stdlib ast): resolver, kernel abstract '
                                       'interpreter over exact rational functions, CFG/dataflow rules'}],
        'checks': checks,
        'notes': 'All checks are static: they parse /repo working tree on every run and never import or execute '
                 'xrspatial. Exit 0 = all obligations discharged, 1 = VIOLATION, 2 = analysis cannot decide.',
        'not_applicable': [{'property_id': p, 'reason': NOT_APPLICABLE.get(p, 'check not yet built in this round')}
                           for p in ALL if p not in CLAIMS],
    }
    return man


def main():
    man = build()
    with open(os.path.join(VERIF, 'MANIFEST.json'), 'w') as f:
        json.dump(man, f, indent=1)
    print('MANIFEST.json: %d checks, %d not applicable' % (len(man['checks']), len(man['not_applicable'])))


if __name__ == '__main__':
    main()
