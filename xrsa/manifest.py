"""Generates /verif/MANIFEST.json from the CLAIMS table below (single source of truth)."""
import json
import os

VERIF = os.path.dirname(os.path.dirname(os.path.abspath(__file__)))
PY = '/venv/bin/python'

CLAIMS = {}
NOT_APPLICABLE = {}


def claim(pid, text, note, technique, design_ref):
    CLAIMS[pid] = dict(text=text, note=note, technique=technique, design_ref=design_ref)


def na(pid, reason):
    NOT_APPLICABLE[pid] = reason


claim('C08',
      'Static analysis (symbolic kernel interpretation): the slope, aspect and curvature kernels reached from the '
      'public functions are interpreted into stores over an exact rational-function algebra; decided for every '
      'input at once: interior loop ranges, NaN-initialised output, single store at [y,x], footprint within 3x3, '
      'the stored expression equals the documented Horn/Laplacian formula (normal-form equality, constants to '
      '1e-5), offset invariance, the aspect compass table by exhaustive enumeration of the threshold cells of '
      'atan2, cell-size binding wrapper->kernel and (x,y) order of the resolution helpers, hillshade as a '
      'unit-spaced np.gradient followed by elementwise operations with NaN borders and the documented shading '
      'expression. It decides these structural clauses, not floating-point rounding nor hillshade in [0,1].',
      'Trusted: CPython ast; numba compiles the kernel to what its source says; np.gradient = central differences; '
      'listed ufuncs are elementwise; the documented formulas in DESIGN.md Appendix B. GPU paths not analysed.',
      'abstract interpretation of kernels to rational normal forms + finite decision-table enumeration',
      'DESIGN.md §4 C08')

claim('C13',
      'Static analysis: each of the 10 spectral indices, on both the numpy and the dask path, is traced from the '
      'public wrapper through the backend table (and map_blocks) to its per-cell kernel; the kernel is interpreted '
      'symbolically and the stored value, rewritten in the PUBLIC parameter names, is compared (exact rational '
      'normal form) with the published formula; decided also: store guarded by `divisor != 0` with exactly the '
      'divisor\'s zero set, NaN-initialised output, full loop ranges, footprint {(0,0)}, float cast of every band '
      'before arithmetic, validate_arrays over all bands, same kernel on both backends, true_color alpha '
      'condition, channel order and sigmoid expression. Band mix-ups between same-shaped inputs, dropped guards '
      'and integer arithmetic are refuted for all inputs at once; single-precision rounding is not decided.',
      'Trusted: formula table (DESIGN Appendix B1); numba compiles kernels as written; map_blocks applies the block '
      'function per aligned block. ARVI and SAVI deviate from the literature (known findings D12, pinned by tests).',
      'symbolic kernel interpretation + public-name binding through the call graph, compared with a formula table; wrapper terms for true_color channels',
      'DESIGN.md §4 C13')
claim('C17',
      'Static analysis of xrspatial/local.py: decides for every input the structural premises of the per-cell '
      'definitions: lock-step layer iteration in fixed C order (agreeing with the row-major reference list and the '
      '(-1, ncols) reshape), the comparator table of the three frequency operators ({>, ==, <} oriented as '
      'ref OP item, hence they partition the layers), a NaN test dominating every per-cell result, first-occurrence '
      '1-based min/max index, ascending sort + ref-1 for rank, first-occurrence numbering from 1 with inverse map '
      'in attrs for combine, and the statistic-name table of cell_stats.',
      'Trusted: semantics of np.nditer(order=), list.index, min/max, sorted; reshape row-major.',
      'AST dataflow/pattern rules specific to local.py (iteration order, reshape, combine bookkeeping) read on a canonical view; the per-cell code of the frequency / position / rank operators is decided by folding it (consteval, a pure-Python subset, no library code) on every weak ordering of up to three layers with and without NaN - it touches the values only through comparisons',
      'DESIGN.md §4 C17')
claim('C18',
      'Static analysis of the trim/crop scan kernels reached from the public functions: decides the premises of '
      'the bounding-box argument for all inputs: four scans (rows asc/desc, columns asc/desc) each recording its '
      'bound before examining the line and stopping at the first line with a kept cell, full-line inner loops with '
      'axis-correct data[row, col] reads, keep test = equals no excluded value with NaN-aware equality (trim) / '
      'equals a listed id (crop), return order, and the result being the basic slice [top:bottom+1, left:right+1] '
      'of the right raster returned unmodified except for its name.',
      'Trusted: the half-page argument that these premises give the bounding box of kept cells; xarray basic '
      'slicing keeps cells, coordinates and attrs. Behaviour when nothing is kept is not decided.',
      'symbolic interpretation of the scan kernels (end-of-iteration values, break paths, flag-setting loop summaries; a boolean cell-classification array is dissolved by an exact source normal form) + decision tables for the keep test and the NaN-aware equality over small models with a near-miss value; wrapper terms for the returned window; syntactic scan-skeleton rule as fallback',
      'DESIGN.md §4 C18')

claim('C10',
      'Static may-alias and mutation analysis (flow-sensitive, interprocedural summaries over the resolved call '
      'graph, numpy and dask paths of every backend table at once) over 49 public raster functions: P1 no mutator '
      '(subscript store, augmented assignment, in-place method, out=, in-place numpy function, attribute store on '
      'the input object) reaches a value that is or may share memory with a raster parameter, through any callee '
      'including jitted kernels and block functions - the attribute stores present in the tree are an explicit '
      'exception table (value-preserving rechunk, viewshed dtype widening, zonal.apply contract); P2 the array '
      'wrapped into the result is fresh (trim/crop: a window of the right input); P3 the result is constructed with '
      'the input raster\'s coords, dims and attrs (attrs copied where edited; identity from the first raster parameter); '
      'P3-backend every return of every dask-slot function of a backend table is lazy (no numpy constructor, no '
      '.compute()). Holds for every dtype and memory '
      'layout by construction. Does not decide whether numba accepts read-only / non-contiguous inputs.',
      'Trusted: the alias vocabulary (which NumPy/xarray/dask calls return views vs copies, DESIGN Appendix C); '
      'unknown external calls are assumed to return fresh arrays and not to write their arguments.',
      'interprocedural may-alias / mutation-summary dataflow analysis; construction-site pattern for identity',
      'DESIGN.md §4 C10')
claim('C11',
      'Static purity/state analysis over every function of the package (GPU modules excluded): S1 no function '
      'writes, rebinds (global) or hands out a module-level mutable object at call time, and no function/class '
      'attribute is used as state (catches result caches keyed by a subset of the parameters); S2 the mutable '
      'default arguments are never mutated, returned or stored; S3 no CPU kernel whose prange body has a shared write, '
      'loop-carried read or scalar accumulator is compiled with parallel=True (the definition of ngjit included), '
      'no cache=True on jitted closures over call parameters, no memoisation of functions of arrays/closure '
      'factories; S4 globals read by jitted functions are bound once; S5 every global-RNG draw is dominated by '
      'np.random.seed(<seed expression>) in the same function and the numpy/dask generator paths use the same seed '
      'schedule; S6 per-block tasks (map_blocks/map_overlap/delayed) write only to locals.',
      'Trusted: numba freezes globals at compile time and parallelises only with parallel=True; actual thread '
      'timing is not observed (it follows from S3/S6). bump() is the documented unseeded exception; '
      '_crosstab_df_dask is the one frozen S6 exception (unique consumer of its inputs).',
      'effect/purity analysis: global-write detection, mutable-default escape, JIT option lattice, seed dominance',
      'DESIGN.md §4 C11')

claim('C01',
      'Static analysis of chunked evaluation for the 25 public ops with a dask entry (numpy and dask paths resolved '
      'through the backend tables, delegating helpers and functools.partial): H0 the function mapped over blocks is '
      'the numpy path\'s own kernel (for pipeline ops: shared per-block kernels and agreeing literal constants); H1 '
      'every map_overlap halo depth is >= the kernel\'s read footprint per axis, compared symbolically (footprints '
      'come from the kernel abstract interpreter: 3x3 stencils, kernel.shape[i]//2 windows, clipped slices) so a '
      'halo one short, swapped axes or shape[0] used twice is refuted for all kernel shapes at once; H2 boundary is '
      'NaN or none; H3 map_blocks kernels read only at the output cell and never reduce over a block; H4 global '
      'statistics are reduced over the whole lazy array outside block functions and no lazy value reaches an eager '
      'sink (compute, float/int/bool, arange/range bounds, branching); H6 generator paths return floating arrays '
      'independent of the template dtype. Holds for every chunking because it is a property of the partition '
      'parameters and kernels, not of sampled chunk layouts. Not decided: rounding of differently ordered global '
      'reductions, scheduler timing (purity of block functions is C11-S6), chunks smaller than the halo.',
      'Trusted: dask map_overlap/map_blocks semantics (halo of given depth, NaN boundary, block alignment of '
      'same-chunked arrays), np.gradient = central differences, numba compiles kernels as written. GPU paths excluded.',
      'dask-site resolution + symbolic footprint-vs-halo comparison + lazy-value taint to eager sinks',
      'DESIGN.md §4 C01')

claim('C07',
      'Static analysis of the dask path shared by proximity/allocation/direction: the single map_overlap site runs '
      'the numpy branch\'s own closure kernel over (data, x grid, y grid) in the kernel\'s parameter order with NaN '
      'boundary; each halo pad is int(max_distance / cellsize + c), c >= 0 (or a ceil), built from the cell size of '
      'its OWN axis (units-of-measure check through the (x, y) unpacking of the resolution helper) and placed in '
      'that axis\' slot of depth (a pad term of another form - cell sizes derived from coordinate extents, say - is evaluated on non-square model rasters with different cell sizes on the two axes and must give at least floor(max_distance / cell size of its axis) cells); the documented single-block fallback exists, compares max_distance with the '
      'corner-to-corner distance under the chosen metric, rechunks the data and both coordinate grids to the full '
      'shape; the grids are the raster\'s own coordinates tiled/repeated in row-major layout. Decided for every '
      'chunking, max_distance and cell size at once. Not decided: the dask limit when the halo exceeds the raster '
      '(outside the property\'s domain), and the exactness of the sweep itself (C06).',
      'Trusted: da.map_overlap semantics (halo, NaN boundary, chunk unification of multiple arrays); integer cell '
      'offsets need floor(max_distance/cellsize) halo cells.',
      'site resolution + symbolic pad-form check (exact rational arithmetic) + wrapper terms for the arrays and coordinate grids handed to the block function (grids evaluated with list models of the NumPy constructors) + structural fallback rule',
      'DESIGN.md §4 C07')

ZONAL_NOTE = ('Trusted: np.argsort / np.unique / np.sort semantics (ascending, NaN and +inf last, -inf first), pandas/dask '
              'frame assembly, and the half-page segment argument in notes/engine_sketches.md whose premises these rules '
              'decide. User-supplied reducers are not analysed. Rounding of the documented formulas is not decided.')
claim('C02',
      'Static analysis of the functions reachable from zonal.stats (numpy path): decides the premises of the segment '
      'argument for all inputs at once - Z1 the running segment offset is advanced on every iteration; Z2 the zone '
      'label column has ascending provenance (np.unique / order-preserving filters; request-order lists are '
      'refuted); Z3 every reducer receives values masked by isfinite & != nodata_values; Z4 zone ids are the finite '
      'distinct zones; Z4b index-space typing: the stride offsets, the gathered value vector and the permutation live '
      'in one index space (a filter applied to one of them only is refuted); Z5 NaN-initialised results assigned only '
      'for non-empty selections; ZS the stride routine skeleton; ZT statistic name -> same-named method; raster '
      'output scatter uses breaks[iz-1]:breaks[iz].', ZONAL_NOTE,
      'order/validity/cursor/index-space dataflow rules over the zonal bookkeeping', 'DESIGN.md §4 C02')
claim('C03',
      'Static analysis of the dask zonal path: Z6a every per-block partial / cross-block combiner pair is an '
      'associative merge over the block axis (max/nanmax, min/nanmin, sum|count|sum-of-squares/NaN-ignoring sum); '
      'Z6b mean, var, std equal s/n, (ss - s^2/n)/n, sqrt of it (exact rational normal form) and their call sites '
      'bind (sum_squares, sum**2, count) in order; Z6c additive merges keep an all-NaN column NaN; Z6d no arithmetic '
      'in the raster\'s own dtype before widening; Z7 per-block tasks receive global zone ids and never discover ids '
      'per block; Z8 crosstab block dicts are summed over all keys of all blocks and normalised after the merge; Z9 '
      'the positional pairing of zones/values blocks is dominated by a chunk alignment on every dask path; Z2 label '
      'order; Z4/Z4b shared bookkeeping. Chunking-independence follows from these for every chunk layout.', ZONAL_NOTE,
      'merge-algebra table check + symbolic formula comparison + path-sensitive alignment dominance',
      'DESIGN.md §4 C03')
claim('C04',
      'Static analysis of the functions reachable from zonal.crosstab (both backends): Z1 the category offset '
      'advances for every category whether selected or not; Z2 rows are labelled from an order-preserving selection '
      'of the ascending zones (also through the delayed id-selection helper); Z3 validity mask at every counting / '
      'aggregation site and in category discovery; counts stored under their own category, count = break[j] - '
      'previous break, total taken before selection, percentage = count/total*100 after the merge, 3-D aggregate '
      'looked up by agg, layer j <-> category j; Z4/Z4b shared bookkeeping.', ZONAL_NOTE,
      'cursor-discipline (post-dominance) + order-provenance dataflow + structural key/percentage rules',
      'DESIGN.md §4 C04')

claim('C12',
      'Partial, static: K1 in the binning kernel every class assignment is dominated by np.isfinite(value), the '
      'output is NaN-initialised and values above the last bound get no class; binary stores 1 under membership only '
      'and 0 under (not member and finite) (guards extracted by the kernel interpreter); K2 data-driven classifiers '
      'label bins with np.arange(n) (classes start at 0 and are order-preserving), reclassify enforces equal lengths; '
      'K3 precision provenance: no allocation narrower than float64 lies on the dataflow trace from the data to the '
      'breaks handed to the binning kernel, the cell value is compared un-narrowed, and the last break is forced to '
      'the exact finite maximum on every path (numpy, dask, natural breaks); K4 equal-width cuts min+(i+1)(max-min)/k, '
      'percentile levels 100 i/k capped at 100 over finite cells, de-duplicated, extrema taken from a floating inf-free '
      'array on every path; K4-search the per-cell code of the binning kernel (finite test, first-bin test, hand-written '
      'binary search, label store) is constant-folded - a pure-Python subset, no library code runs - for every ascending '
      'break list of 1..7 breaks and a value at every position relative to them plus NaN/+inf/-inf (84 cases): exhaustive '
      'for these break counts. NOT decided (declined): the binary search for arbitrary bin counts (no loop invariant is '
      'proved) and optimality of the Jenks dynamic programme.',
      'Trusted: np.percentile / np.unique / np.arange semantics. The two declined clauses need loop invariants / a '
      'global-optimum argument that no sound static rule in reach provides.',
      'guard-dominance rules + backward dataflow slice for dtype provenance + symbolic formula comparison + constant folding of the per-cell code over finite models (all positions x 1..7 breaks)',
      'DESIGN.md §4 C12')

claim('C16',
      'Static analysis of the two-pass labelling kernel reached from zonal.regions; decides the premises of the '
      'half-page correctness argument (notes/engine_sketches.md) rather than the theorem: R1 the neighbour tables are '
      'exactly the von Neumann / Moore offsets, slot k of the value window and of the label window look at the same '
      'neighbour, pass 2 uses the tables of pass 1, clamps use the extent of their own axis, both passes visit all '
      'cells in raster order; R2 pass 1 copies the first positive label among matching neighbours, otherwise takes a '
      'fresh id (ids from 1, counter advanced exactly when used), NaN cells copied through and skipped; R3 pass 2 merges '
      'every pair of distinct labels among matching neighbours by one whole-raster replacement between the two labels '
      '(either order, the running label becomes the survivor, no early exit); Q1 the running label counter is only ever stored in arrays of a fixed wide '
      'dtype (never the raster\'s own); Q2 value matching is exact == on the integer path selected by '
      'np.issubdtype(dtype, np.integer), tolerance arithmetic only on the float path.',
      'Trusted: the paper argument that R1-R3 + an equivalence matching relation give exactly the connected '
      'components (cross-checked by hand). For float rasters the tolerance relation is not transitive; the property '
      'restricts itself to integer-valued rasters. Identity of coords/attrs is decided under C10.',
      'abstract interpretation of the labelling kernel (window stores, loop-carried labels, break paths) evaluated on finite decision tables + dtype-provenance rules + wrapper terms for the kernel call',
      'DESIGN.md §4 C16')

claim('C14',
      'Partial, static: decides the structural premises of chain validity and of the end-point clauses, plus the '
      'admissibility premise of optimality: A1 coordinates map to cells by round-to-nearest of |p - origin| / cellsize '
      'with origin and cell size of the SAME axis (symbolic form check; truncation refuted); A2 step cost is the '
      'Euclidean pixel distance and the heuristic is that distance, a fraction of it, or 0 (exact normal forms; '
      'Manhattan or inflated heuristics refuted); A3 the neighbour tables are exactly the 8 / 4 unit offsets, returned, '
      'unpacked and added as (row, col); A4 the path image is NaN-initialised and filled by the parent-pointer walk '
      'from the cost-from-start array (never f = g + h), start = 0; A5 a neighbour is relaxed only after the in-raster '
      'test (each index against its own extent, normalised comparison forms), the crossable test (NaN or barrier) and '
      'the closed-set test, with g = g[current] + distance(current, neighbour) and parent = current; A6 argmin loops '
      'with strict < start at +inf (one frozen, justified exception). NOT decided (declined): that the returned cost '
      'is the minimum over all routes and that no route implies all-NaN - these need the A* open/closed invariants.',
      'Trusted: admissible + consistent heuristic and correct relaxation imply optimality only together with the '
      'bookkeeping invariants, which are not checked.',
      'symbolic form checks (exact rationals) + rules on the abstract interpretation of the search kernel, reconstruction and argmin scans (guards evaluated on finite tables, loop-carried updates, call records) + constant folding of the neighbourhood tables',
      'DESIGN.md §4 C14')

claim('C19',
      'Static analysis: euclidean_distance and manhattan_distance are interpreted into exact normal forms equal to '
      'sqrt((x1-x2)^2+(y1-y2)^2) and |x1-x2|+|y1-y2| (2-/1-norm templates: symmetry, zero iff coincident and the '
      'triangle inequality then hold by theorem); great_circle_distance equals the haversine template with latitude '
      'from y and longitude from x (parity-normalised trigonometric normal form), default radius 6378137, exactly '
      'four two-sided range guards (+-180 for x, +-90 for y) and no return path that bypasses them; the metric '
      'dispatch routes each constant to its same-named function with (x1, x2, y1, y2); the ellipse mask condition is '
      '(x*half_h)^2 + (y*half_w)^2 <= (half_w*half_h)^2 on symmetric odd grids with x along columns, even in both '
      'coordinates (flip symmetry by substitution); circle half sizes use the cell size of their own axis; the annulus '
      'is outer minus the equally zero-padded inner circle; the unit table equals the SI factors with agreeing '
      'aliases; non-positive, non-numeric and unknown-unit distances are rejected; custom kernels must be odd '
      'ndarrays. Not decided: the triangle inequality under floating-point rounding.',
      'Trusted: the textbook facts that norms are metrics and that the haversine formula gives the great-circle '
      'distance (<= pi*R); SI unit factors.',
      'symbolic normal-form comparison against formula templates + parity analysis + evaluated range guards and metric dispatch + constant folding of the unit / metric tables',
      'DESIGN.md §4 C19')

claim('C09',
      'Static analysis (kernel abstract interpretation): F1 focal apply - the window buffer receives data[ky, kx] at '
      '[ky-y+half_rows, kx-x+half_cols] (identity orientation, exact index forms), under exactly the in-raster test '
      '(rows vs row extent, columns vs column extent) and kernel == 1 at the same position, window loops y+-k0//2 / '
      'x+-k1//2 with each half size from its own kernel axis, the buffer is refilled with NaN inside the per-cell '
      'loops before the copy, the result is reducer(buffer), all cells visited; F2 focal mean - nanmean over the '
      'clipped 3x3 slice with axis-correct clamps, excluded cells copied through under the complementary guard, '
      'NaN-aware exclusion test, `passes` applications on a float copy; F3 convolution - sum over the full window of '
      'kernel[w0+ii-i, w1+jj-j]*data[ii,jj] (correlation orientation), interior loop bounds, NaN-initialised; F4 each '
      'statistic name maps to the NaN-ignoring reducer of that name (range = nanmax - nanmin, resolved through helper '
      'calls); F5 the hotspot decision table is evaluated exactly on every threshold cell of z for both signs (0, '
      '+-90, +-95, +-99 at 1.65/1.96/2.58, odd in z), z = (kernel mean - global mean)/global std on both backends; F6 '
      'kernels validated. User-supplied reducers themselves are not analysed.',
      'Trusted: numba compiles kernels as written; np.nan* reducers ignore NaN; the halo / chunking side is C01.',
      'symbolic interpretation of window index maps and guards + exhaustive threshold-cell enumeration',
      'DESIGN.md §4 C09')

claim('C06',
      'Partial, static - decides the structural premises of the SOUNDNESS half (every reported distance is the '
      'distance to an actual target, the one allocation and direction report, never above max_distance, 0 on '
      'targets, NaN where unreached): X6 target test (non-zero finite / membership); X1 only the (pixel, line) of a '
      'target or a remembered pair enters the per-column memory, rows with rows and columns with columns; X2 the '
      'candidate set is exactly {pixel, pixel-step, pixel+step}, each block computes the distance from the coordinates '
      'of the pair remembered at k and adopts that same pair (both halves, edge guards); X5 the update stores '
      'sqrt(adopted squared distance) with that pair under max_distance^2 >= it, unreached cells become NaN; X3 four '
      'sweeps (ascending rows then descending rows, forward and backward each), memory reset between passes, first '
      'pass distances carried into the second; X4 allocation/direction read the pair stored by the same sweep '
      '(reset before every sweep), 8 guarded output sites; X7 the bearing table of _calc_direction evaluated exactly '
      'at 9 directions (0 self, 90 E, 180 S, 270 W, 360 N - notices e.g. an exact rad->deg constant collapsing north '
      'onto 0). NOT decided (declined): the exactness half - that the propagation reaches the NEAREST target for every '
      'layout and leaves no reachable cell NaN (a numerical property of the 4-sweep scheme).',
      'Trusted: the paper argument from these provenance premises to soundness; math.atan2 for the table values. The '
      'rules are structural patterns of this implementation (GDAL-style scheme); a different algorithm would be '
      'reported as undecidable/violating rather than verified.',
      'rules on the abstract interpretation of the line routine and driver (parameter roles derived from use, the pixel / row of a pass as an expression of the loop variable, store values/guards, symbolic coupling of running minimum and adopted pair, program-ordered events) + exact bearing-table evaluation',
      'DESIGN.md §4 C06')

claim('C05',
      'Partial, static. The event helpers are interpreted symbolically and their decision tables evaluated exactly '
      '(values are touched only through comparisons with the viewpoint, so one representative cell per sector is '
      'exhaustive): T1 for all 8 sectors x {ENTER, EXIT} the event position offset is exactly half the neighbour '
      'row/col offset; T2 the ENTER / EXIT corner is the first / last of the cell\'s four corners in the sweep order; '
      'T3 the angle function equals atan2(-dy, dx) mod 2pi on the 5 axis cases and 4 quadrants, and every call site '
      'passes (col, row) as (x, y); T4 record layouts (AE_x == E_x - 3, the :3 / 3: split, array widths 7/8/4/7, >= 40 '
      'constant field subscripts inside their record); T5 output encoding (INVISIBLE = -1 fill, observer 180, visible '
      'cells written under max gradient <= own gradient with the vertical angle whose three branches are evaluated: '
      '90 level, (0,90) below, (90,180) above, from sqrt of the squared-distance key); T6 ew_res scales column and '
      'ns_res row differences, resolutions from width-1 / height-1; T7 events sorted by angle then type with EXIT < '
      'CENTER < ENTER; T8 observer cell by nearest-coordinate selection and observers accepted exactly inside the coordinate extent (terms not of the accepted form are evaluated on model rasters with ascending / descending / irregular coordinates); T10 the observer elevation is formed after '
      'widening to float, target height = max(target_elev, 0); T11 sweep skeleton on the interpreted sweep: node fields '
      'equal the event helpers applied to the matching event position / elevation (expectations built by interpreting '
      'the helpers symbolically), the 2*pi fix-ups, and insert / delete / query dispatched by event type with the '
      'cell\'s distance key, bearing and centre gradient; T9 the status tree\'s rotations, insert and delete write LEFT/RIGHT and PARENT links as matching pairs and the two fix-up routines are closed under the LEFT<->RIGHT mirror; T12 the query\'s early returns are taken only under running max > queried gradient (strict); T14 the height stored for an ENTER / EXIT corner, as the term the interpreter gives for it, evaluated on model rasters wider than tall, taller than wide and square for every cell and four observer cells: mean of the four cells meeting at the corner when the diagonal neighbour is inside the raster (row < rows, column < columns), the cell\'s own height otherwise. NOT decided (declined): that the red-black tree with augmented maxima returns the true '
      'maximum gradient after every insert/delete order, hence that the sweep marks exactly the visible cells.',
      'Trusted: math.atan/atan2 for table values. The declined core needs balanced-tree invariants over unbounded '
      'insert/delete histories - no sound static argument in reach.',
      'symbolic interpretation of helpers and sweep kernel (stores, guards, call records; helper parameter roles read off the values the sweep hands them, phases of a split kernel executed in place) + exhaustive sign-case evaluation of decision tables; layout/axis-role rules',
      'DESIGN.md §4 C05')

claim('C15',
      'Partial, static: G1 for each neighbour direction of the one-pass labelling (W, S and for 8-connectivity SW, SE) '
      'the domain guard, the mask read, the value comparison and the region-id read all use the same flat offset and '
      'the guard is the one that offset needs (-1: i>0, -nx: j>0, -nx-1: both, -nx+1: i<nx-1 and j>0); G2 region ids '
      'live in a fixed unsigned dtype with an overflow error, a fresh id is counted per unmatched pixel, two matching '
      'neighbours keep the lower id and merge the pair, the final lookup is applied to every pixel; G3 every ring '
      'returned by the boundary follower passes through the affine transform (when given) before it is stored - on '
      'the exterior and on the hole path - and the transform is the 6-parameter affine map computed from the OLD '
      'coordinates (store-to-load forwarding detects in-place hazards); G4 rings are closed (extra point allocated), '
      'start orientations (exterior facing E, hole facing W) and the four corner offsets of the follower; G5 the '
      'column value comes from the start pixel and a hole is attached to polygons[region-1]; G6 integer rasters are '
      'matched with ==; G7 row-major flattening with nx columns, single-column workaround, argument wiring. NOT '
      'decided (declined): correctness of the merge chain, hole attribution and boundary following for all '
      'topologies, i.e. that the polygons are exactly the connected regions and rasterise back losslessly.',
      'Trusted: the interpreter\'s models of the NumPy calls involved; the declined core needs invariants of the merge forest and of the turn rules '
      'over all region topologies.',
      'symbolic interpretation of the labelling kernel, the boundary follower and the start-pixel scan (roles of variables found from behaviour, decision tables evaluated exactly, program-ordered call / append events) + wrapper terms for the argument wiring + symbolic affine-map check',
      'DESIGN.md §4 C15')

ALL = ['C%02d' % i for i in range(1, 20)]


def build():
    checks = []
    for pid in ALL:
        if pid in CLAIMS:
            c = CLAIMS[pid]
            checks.append({
                'property_id': pid,
                'quick_cmd': '%s -m xrsa.check %s --tier quick' % (PY, pid),
                'thorough_cmd': '%s -m xrsa.check %s --tier thorough' % (PY, pid),
                'evidence_file': 'evidence/%s.json' % pid,
                'replay_cmd_template': '%s -m xrsa.check --replay {path}' % PY,
                'engine': 'xrsa',
                'level_claimed': {'category': 'other', 'text': c['text'], 'design_ref': c['design_ref']},
                'level_note': c['note'],
                'technique': c['technique'],
            })
    man = {
        'version': 1,
        'setup_cmd': '%s -m xrsa.setup' % PY,
        'hooks': {
            'guard': 'XRSPATIAL_VERIF',
            'enable': 'none needed: the checkers read /repo/xrspatial/*.py from the working tree; no hook exists in /repo',
            'baseline_off_cmd': 'cd /repo && /venv/bin/python -m pytest -ra -q -p no:cacheprovider --timeout=900 '
                                '--continue-on-collection-errors',
            'source_commits': [],
            'add_only': True,
        },
        'engines': [{'name': 'xrsa', 'path': 'xrsa/', 'serves_properties': sorted(CLAIMS),
                     'kind_free_text': 'repository-specific static analysis (stdlib ast): resolver, kernel abstract '
                                       'interpreter over exact rational functions, CFG/dataflow rules'}],
        'checks': checks,
        'notes': 'All checks are static: they parse /repo working tree on every run and never import or execute '
                 'xrspatial. Exit 0 = all obligations discharged, 1 = VIOLATION, 2 = analysis cannot decide.',
        'not_applicable': [{'property_id': p, 'reason': NOT_APPLICABLE.get(p, 'check not yet built in this round')}
                           for p in ALL if p not in CLAIMS],
    }
    return man


def main():
    man = build()
    with open(os.path.join(VERIF, 'MANIFEST.json'), 'w') as f:
        json.dump(man, f, indent=1)
    print('MANIFEST.json: %d checks, %d not applicable' % (len(man['checks']), len(man['not_applicable'])))


if __name__ == '__main__':
    main()
