"""Engine C - chunked-evaluation sites (map_overlap / map_blocks) and kernel footprints."""
import ast

from .kai import Arr, Interp, TupleV, View, interpret
from .kutil import guard_atoms, returned_arrays
from .program import AnalysisIncomplete, Ext, Func, Partial, norm
from .sym import App, Rat, Sym, walk_atoms

NAN_TEXTS = {'np.nan', 'numpy.nan', 'math.nan', "float('nan')", 'np.NaN', 'nan', 'np.NAN'}


class Site:
    def __init__(self, kind, call, scope, block, arrays, kwargs):
        self.kind = kind          # 'map_overlap' | 'map_blocks'
        self.call = call
        self.scope = scope        # Func containing the call
        self.block = block        # resolved block function target (Func | Partial | None)
        self.arrays = arrays      # ast exprs of the array arguments (receiver first for method form)
        self.kwargs = kwargs      # name -> ast expr

    def kernel(self):
        t = self.block
        while isinstance(t, Partial):
            t = t.target
        return t if isinstance(t, Func) else None

    def partial_bindings(self):
        """kernel param -> ast expr bound by functools.partial (keywords and leading positionals)"""
        out = {}
        t = self.block
        chain = []
        while isinstance(t, Partial):
            chain.append(t)
            t = t.target
        if not isinstance(t, Func):
            return out, 0
        npos = 0
        for p in reversed(chain):
            for i, a in enumerate(p.args):
                if npos + i < len(t.params):
                    out[t.params[npos + i]] = a
            npos += len(p.args)
            out.update(p.keywords)
        return out, npos


def _forwarding(prog, blk):
    """A nested function or lambda that only forwards to a package function - `def block(b): return kern(b, cellsize)`,
    `lambda b: kern(b, w=w)` - is the `functools.partial` it spells: its own parameters lead the call in order, everything
    else is bound by the closure.  Returns the equivalent Partial (extra positionals bound by the target's parameter names)
    or blk itself."""
    if not isinstance(blk, Func) or (blk.parent is None and not blk.is_lambda) or blk.vararg or blk.kwarg:
        return blk
    body = blk.body
    stmts = [s_ for s_ in body if not (isinstance(s_, ast.Expr) and isinstance(s_.value, ast.Constant))]
    if len(stmts) != 1 or not isinstance(stmts[0], ast.Return) or not isinstance(stmts[0].value, ast.Call):
        return blk
    c = stmts[0].value
    g = prog.resolve_callable(blk, blk.module, c.func)
    if not isinstance(g, Func) or g is blk or any(isinstance(a, ast.Starred) for a in c.args) or any(k.arg is None for k in c.keywords):
        return blk
    k = len(blk.params)
    if g.vararg or len(c.args) < k:
        return blk
    texts = [norm(a) for a in c.args]
    # the closure's own parameters appear once, in order, as one contiguous run of the positional arguments; what stands
    # before them is bound like the leading arguments of functools.partial, what stands after them by parameter name
    start = next((i for i in range(len(texts) - k + 1) if texts[i:i + k] == blk.params), None)
    if start is None:
        return blk
    own = set(blk.params)
    lead, rest = c.args[:start], c.args[start + k:]
    if any(isinstance(x, ast.Name) and x.id in own for a in list(lead) + list(rest) + [kw_.value for kw_ in c.keywords] for x in ast.walk(a)):
        return blk
    if len(c.args) > len(g.params):
        return blk
    kws = {g.params[start + k + i]: a for i, a in enumerate(rest)}
    kws.update({kw_.arg: kw_.value for kw_ in c.keywords})
    return Partial(g, list(lead), kws, c)


def sites_in(prog, f):
    out = []
    for n in f.own_nodes():
        if not (isinstance(n, ast.Call) and isinstance(n.func, ast.Attribute) and
                n.func.attr in ('map_overlap', 'map_blocks')):
            continue
        t = prog.resolve_callable(f, f.module, n.func)
        if isinstance(t, Ext) and t.dotted.startswith('dask.array'):
            if not n.args:
                continue
            blk = _forwarding(prog, prog.resolve_callable(f, f.module, n.args[0]))
            arrays = list(n.args[1:])
        else:
            if not n.args:
                continue
            blk = _forwarding(prog, prog.resolve_callable(f, f.module, n.args[0]))
            arrays = [n.func.value] + list(n.args[1:])
        out.append(Site(n.func.attr, n, f, blk, arrays, _keywords(f, n)))
    return out


def _keywords(f, call):
    """keyword arguments of a call, with `**name` expanded when `name` is a local bound once to dict(k=v, ..) or to a
    dict literal with constant keys (or when that dict is written at the call itself)"""
    kws = {}
    for k in call.keywords:
        if k.arg:
            kws[k.arg] = k.value
        elif isinstance(k.value, (ast.Name, ast.Call, ast.Dict)):
            if isinstance(k.value, ast.Name):
                vals = [v for v in f.local_assigns().get(k.value.id, []) if isinstance(v, ast.AST)]
                d = vals[0] if len(vals) == 1 else None
            else:
                d = k.value         # `**dict(k=v, ..)` / `**{'k': v}` written at the call
            if isinstance(d, ast.Call) and isinstance(d.func, ast.Name) and d.func.id == 'dict' and not d.args:
                for kk in d.keywords:
                    if kk.arg:
                        kws.setdefault(kk.arg, kk.value)
            elif isinstance(d, ast.Dict):
                for key, val in zip(d.keys, d.values):
                    if isinstance(key, ast.Constant) and isinstance(key.value, str):
                        kws.setdefault(key.value, val)
    return kws


def expanded_sites(prog, f, depth=0):
    """sites of f, plus sites of helper functions f calls whose block function / depth / array are parameters of the
    helper (a shared `map_overlap` wrapper): these are instantiated with the caller's actual arguments."""
    out = []
    for s in sites_in(prog, f):
        if s.kernel() is None and _is_param_expr(s.scope, s.call.args[0] if s.call.args else None):
            continue    # parametric: only meaningful at its call sites
        out.append(s)
    if depth > 2:
        return out
    for n in f.own_nodes():
        if not isinstance(n, ast.Call):
            continue
        h = prog.resolve_callable(f, f.module, n.func)
        if not isinstance(h, Func) or h is f:
            continue
        for hs in sites_in(prog, h):
            blk_expr = hs.call.args[0] if hs.call.args else None
            if not _is_param_expr(h, blk_expr):
                continue
            bind = {}
            for p, a in zip(h.params, n.args):
                bind[p] = a
            for k in n.keywords:
                if k.arg:
                    bind[k.arg] = k.value
            for p, dv in h.defaults().items():
                bind.setdefault(p, dv)

            def sub(e):
                if isinstance(e, ast.Name) and e.id in bind:
                    return bind[e.id]
                return None
            pp = _param_partial(h, blk_expr)
            if pp is not None:
                # the helper binds the caller's extra keywords to the caller's function: `partial(func, **kwargs)`
                tgt = prog.resolve_callable(f, f.module, bind[pp]) if pp in bind else None
                kws = {k.arg: (sub(k.value) if sub(k.value) is not None else k.value) for k in blk_expr.keywords if k.arg}
                if any(k.arg is None for k in blk_expr.keywords):
                    kws.update({k.arg: k.value for k in n.keywords if k.arg and k.arg not in h.params + h.kwonly})
                block = Partial(tgt, [], kws, blk_expr) if tgt is not None else None
                if block is None:
                    continue
            else:
                blk_actual = sub(blk_expr)
                if blk_actual is None:
                    continue
                block = _forwarding(prog, prog.resolve_callable(f, f.module, blk_actual))
            arrays = []
            for a in hs.arrays:
                arrays.append(sub(a) if sub(a) is not None else a)
            kwargs = {}
            for k, v in hs.kwargs.items():
                kwargs[k] = sub(v) if sub(v) is not None else v
            if h.kwarg and any(k_.arg is None and isinstance(k_.value, ast.Name) and k_.value.id == h.kwarg for k_ in hs.call.keywords):
                # the helper forwards its own **kwargs to map_overlap / map_blocks: the caller's extra keywords reach the block function
                for k_ in n.keywords:
                    if k_.arg and k_.arg not in h.params + h.kwonly:
                        kwargs.setdefault(k_.arg, k_.value)
            ns = Site(hs.kind, n, f, block, arrays, kwargs)
            ns.via = h
            out.append(ns)
    return out


def _is_param_expr(f, e):
    if isinstance(e, ast.Name) and (e.id in f.params or e.id in f.kwonly):
        return True
    return _param_partial(f, e) is not None


def _param_partial(f, e):
    """`partial(<parameter of f>, **<the **kwargs parameter of f>)` (also with explicit keywords): the parameter name, else None"""
    if isinstance(e, ast.Call) and norm(e.func).split('.')[-1] == 'partial' and len(e.args) == 1 and isinstance(e.args[0], ast.Name) and \
            (e.args[0].id in f.params or e.args[0].id in f.kwonly) and \
            all(k.arg is not None or (isinstance(k.value, ast.Name) and k.value.id == f.kwarg) for k in e.keywords):
        return e.args[0].id
    return None


# ------------------------------------------------------------------------------------------ footprints
class Footprint:
    def __init__(self):
        self.lo = [None, None]   # per axis: list of Rat lower offsets
        self.hi = [None, None]
        self.notes = []

    def add(self, axis, lo, hi):
        self.lo[axis] = (self.lo[axis] or []) + [lo]
        self.hi[axis] = (self.hi[axis] or []) + [hi]


def _bounds_of(expr, Y, binders, depth=0):
    """(lo, hi) Rats bounding expr - Y, resolving inner loop variables through their ranges."""
    d = expr - Y
    if depth > 6:
        raise AnalysisIncomplete('footprint: bound recursion')
    syms = [a for a in d.atoms() if isinstance(a, Sym) and a.name in binders]
    if not syms:
        return d, d
    if len(syms) > 1 or not d.d.is_const():
        raise AnalysisIncomplete('footprint: index %r depends on several loop variables' % (expr,))
    v = syms[0]
    co, rest = d.n.coeff_of(v)
    if not (co.is_const() and co.const_value() == d.d.const_value()):
        raise AnalysisIncomplete('footprint: index %r is not loopvar + offset' % (expr,))
    lo, hi = binders[v.name]
    if lo is None or hi is None:
        raise AnalysisIncomplete('footprint: loop without range bounds')
    rest_r = Rat(rest, d.d)
    # d = v + rest_r ; v in [lo, hi-1]
    lo_b = _lower(lo)
    hi_b = _upper(hi)
    l1, _ = _bounds_of(lo_b + rest_r + Y, Y, binders, depth + 1)
    _, h1 = _bounds_of(hi_b - Rat.const(1) + rest_r + Y, Y, binders, depth + 1)
    return l1, h1


def _lower(lo):
    """a valid lower bound of a loop start: max(a, b) >= each argument -> use the argument that is not constant"""
    at = _single_atom(lo)
    if at is not None and at.name == 'max':
        args = [a for a in at.args if not a.is_const()]
        if len(args) == 1:
            return args[0]
    return lo


def _upper(hi):
    at = _single_atom(hi)
    if at is not None and at.name == 'min':
        # min(i + w + 1, n): <= the argument mentioning the loop variable; pick the non-shape one
        args = [a for a in at.args if not _is_shape_only(a)]
        if len(args) == 1:
            return args[0]
    return hi


def _single_atom(r):
    if r.d.is_const() and len(r.n.t) == 1:
        (m, c), = r.n.t.items()
        if len(m) == 1 and m[0][1] == 1 and c == r.d.const_value() and isinstance(m[0][0], App):
            return m[0][0]
    return None


def _is_shape_only(r):
    ats = r.atoms()
    return bool(ats) and all(isinstance(a, App) and a.name == 'shape' for a in ats)


def kernel_footprint(prog, kern, data_param=None):
    """Footprint of a loop kernel: per-axis (lo, hi) offset bounds of every read of the data array made while
    computing one output cell.  Returns (Footprint, data array name, kernel summary)."""
    k = interpret(prog, kern)
    rets = returned_arrays(k)
    if len(rets) != 1:
        # a kernel split into jitted phases that allocate arrays and hand them on: read with the phases executed in place
        def phase(g):
            return g.jit is not None and prog.same_unit(kern.module, g.module) and \
                any(isinstance(n, ast.Call) and isinstance(n.func, ast.Attribute) and n.func.attr in (
                    'zeros', 'ones', 'full', 'empty', 'zeros_like', 'ones_like', 'full_like', 'empty_like') for n in g.own_nodes())
        k = interpret(prog, kern, inline_all=phase)
        rets = returned_arrays(k)
    if len(rets) != 1:
        raise AnalysisIncomplete('%s: does not return exactly one array' % kern.qualname)
    out = rets[0]
    cells = [s for s in k.stores if s.arr is out and s.idx != 'all' and isinstance(s.idx, tuple) and len(s.idx) == 2
             and all(isinstance(i, Rat) for i in s.idx)]
    if not cells:
        raise AnalysisIncomplete('%s: no per-cell store into the returned array' % kern.qualname)
    Y, X = cells[0].idx
    loopvars = {lp.var: (lp.lo, lp.hi) for lp in k.loops}
    ysym = [a for a in Y.atoms() if isinstance(a, Sym)]
    xsym = [a for a in X.atoms() if isinstance(a, Sym)]
    if len(ysym) != 1 or len(xsym) != 1 or not (Y - Rat.atom(ysym[0])).is_const() or not (X - Rat.atom(xsym[0])).is_const():
        raise AnalysisIncomplete('%s: output index is not a pair of loop variables (plus constants)' % kern.qualname)
    data = data_param or kern.params[0]
    outer = {ysym[0].name, xsym[0].name}
    binders = {n: b for n, b in loopvars.items() if n not in outer}
    fp = Footprint()
    seen = 0
    block_reducers = []

    def visit(x, binders):
        nonlocal seen
        if isinstance(x, Rat):
            for a in x.atoms():
                visit(a, binders)
        elif isinstance(x, App):
            if x.name == 'sum':
                var, lo, hi, term = x.args
                b2 = dict(binders)
                vn = [a for a in var.atoms()][0].name
                b2[vn] = (lo, hi)
                visit(lo, binders)
                visit(hi, binders)
                visit(term, b2)
                return
            if x.name == 'read' and x.args[0] == data:
                idx = x.args[1:]
                if len(idx) != 2:
                    raise AnalysisIncomplete('%s: %d-d read of %s' % (kern.qualname, len(idx), data))
                for axis, (i, c) in enumerate(zip(idx, (Y, X))):
                    lo, hi = _bounds_of(i, c, binders)
                    fp.add(axis, lo, hi)
                seen += 1
            elif x.name == 'view' and x.args[0] == data:
                axes = x.args[1]
                for axis, (ax, c) in enumerate(zip(axes, (Y, X))):
                    if ax[0] == 'idx':
                        lo, hi = _bounds_of(ax[1], c, binders)
                    else:
                        lo, _ = _bounds_of(_lower(ax[1]), c, binders)
                        _, hi = _bounds_of(_upper(ax[2]) - Rat.const(1), c, binders)
                    fp.add(axis, lo, hi)
                seen += 1
            elif x.name.startswith('reduce:') and any(
                    isinstance(a, Rat) and any(isinstance(b, App) and b.name == 'arr' and b.args[0] == data
                                               for b in a.atoms()) for a in x.args):
                block_reducers.append(x.name)
                return
            elif x.name in ('arr',) and x.args[0] == data:
                block_reducers.append('whole-array use of %s' % data)
                return
            for a in x.args:
                visit(a, binders)
        elif isinstance(x, tuple):
            for a in x:
                visit(a, binders)

    for s in k.stores:
        lv = {lp.var for lp in s.loops}
        if not outer <= lv:
            # stores outside the per-cell nest: must not read data cell-wise
            continue
        visit(s.value if isinstance(s.value, Rat) else Rat.const(0), binders)
        for a in guard_atoms(s.guards):
            visit(a, binders)
        if isinstance(s.idx, tuple):
            for i in s.idx:
                if isinstance(i, Rat):
                    visit(i, binders)
    # whole-array reductions over the data parameter anywhere in the kernel
    reducers = []
    for s in k.stores:
        for a in walk_atoms(s.value) if isinstance(s.value, Rat) else ():
            if isinstance(a, App) and a.name.startswith('reduce:'):
                for arg in a.args:
                    if isinstance(arg, Rat) and any(isinstance(b, App) and b.name == 'arr' and b.args[0] == data
                                                    for b in walk_atoms(arg)):
                        reducers.append(a.name)
    # reductions over the whole block parameter evaluated anywhere in the kernel (env values reach stores/guards)
    for s in k.stores:
        vals = [s.value] if isinstance(s.value, Rat) else []
        for g in s.guards:
            vals += [a for a in guard_atoms([g])]
        for v in vals:
            for a in walk_atoms(v):
                if isinstance(a, App) and a.name.startswith('reduce:') and any(
                        isinstance(arg, Rat) and any(isinstance(b, App) and b.name == 'arr' and b.args[0] == data
                                                     for b in walk_atoms(arg)) for arg in a.args):
                    block_reducers.append(a.name)
    fp.reducers = sorted(set(reducers + block_reducers))
    fp.reads = seen
    return fp, data, k, (Y, X)


def _atom_nonneg(a):
    if isinstance(a, App):
        if a.name in ('shape', 'len', 'size', 'abs'):
            return True
        if a.name == 'floordiv':
            return is_nonneg(a.args[0]) and a.args[1].is_const() and a.args[1].const_value() > 0
        if a.name == 'int':
            return is_nonneg(a.args[0])
    return False


def is_nonneg(r):
    """sufficient test: constant denominator > 0 and every term has a non-negative coefficient over atoms known >= 0"""
    if not r.d.is_const():
        return False
    sign = 1 if r.d.const_value() > 0 else -1
    for m, c in r.n.t.items():
        if c * sign < 0:
            return False
        for a, p in m:
            if not _atom_nonneg(a):
                return False
    return True


def _odd_rewrite(r, odd_arrays):
    """shape(A, i) -> 2*(shape(A, i)//2) + 1 for arrays whose shape is validated to be odd"""
    from .sym import subst

    def f(a):
        if isinstance(a, App) and a.name == 'shape' and a.args[0] in odd_arrays:
            return Rat.const(2) * Rat.atom(App('floordiv', [Rat.atom(a), Rat.const(2)])) + Rat.const(1)
        return None
    # do not rewrite inside floordiv(shape, 2) itself
    def g(a):
        if isinstance(a, App) and a.name == 'floordiv':
            return Rat.atom(a)
        return f(a)
    return subst(r, g)


def radius_ok(depth, los, his, odd_arrays=()):
    """depth >= -lo and depth >= hi for all collected bounds (as constant differences >= 0)"""
    if odd_arrays:
        depth = _odd_rewrite(depth, odd_arrays)
        los = [_odd_rewrite(x, odd_arrays) for x in (los or [])]
        his = [_odd_rewrite(x, odd_arrays) for x in (his or [])]
    bad = []
    for lo in los or []:
        d = depth + lo
        if not ((d.is_const() and d.const_value() >= 0) or is_nonneg(d)):
            bad.append('lower offset %r vs depth %r' % (lo, depth))
    for hi in his or []:
        d = depth - hi
        if not ((d.is_const() and d.const_value() >= 0) or is_nonneg(d)):
            bad.append('upper offset %r vs depth %r' % (hi, depth))
    return bad


def eval_in_scope(prog, f, exprs, rename=None, pair=False):
    """Evaluate expressions in the straight-line scope of function f (non-strict interpreter); with `pair`, an expression whose
    value is a pair (a name bound to `(a, b)`) gives its two components."""
    it = Interp(prog, f, strict=False)
    for st in f.body:
        if isinstance(st, ast.Return):
            continue
        try:
            it.stmt(st)
        except AnalysisIncomplete:
            pass
    out = []
    for e in exprs:
        v = it.ev(e)
        if pair and isinstance(v, TupleV) and len(v.items) == 2:
            return [it.as_scalar(x) for x in v.items]
        out.append(it.as_scalar(v))
    return out


def check_declared_type(rep, rule, site, entry):
    """The `meta=` / `dtype=` a map_blocks / map_overlap site declares for its lazy result must not be taken from the INPUT
    array (`x._meta`, `x.dtype`, `meta_from_array(x)`) when the block function returns an array of a fixed dtype of its own:
    the lazy result would then advertise the input's dtype (an integer raster, say) while its blocks are float - `isnull`,
    `count`, `fillna`, `astype` decisions made on the declared dtype go wrong.  Returns the number of obligations added."""
    kern = site.kernel()
    n = 0
    arr_names = {x.id for a in site.arrays for x in ast.walk(a) if isinstance(x, ast.Name)}
    for kw_ in ('meta', 'dtype'):
        v = site.kwargs.get(kw_)
        if v is None:
            continue
        from_input = [x for x in ast.walk(v) if isinstance(x, ast.Attribute) and x.attr in ('_meta', 'dtype') and
                      any(isinstance(y, ast.Name) and y.id in arr_names for y in ast.walk(x.value))]
        from_input += [x for x in ast.walk(v) if isinstance(x, ast.Call) and norm(x.func).split('.')[-1] == 'meta_from_array' and
                       any(isinstance(y, ast.Name) and y.id in arr_names for a_ in x.args for y in ast.walk(a_))]
        if not from_input:
            continue
        fixed = None
        if kern is not None:
            # the array the block function returns: allocated with an explicit dtype of its own?
            rets = [r.value for r in kern.own_nodes() if isinstance(r, ast.Return) and isinstance(r.value, ast.Name)]
            for r in rets:
                for val in kern.local_assigns().get(r.id, []):
                    if isinstance(val, ast.Call):
                        dt = next((k.value for k in val.keywords if k.arg == 'dtype'), None)
                        if dt is not None and not any(isinstance(y, ast.Attribute) and y.attr == 'dtype' for y in ast.walk(dt)):
                            fixed = norm(dt)
        n += 1
        rep.add(rule, site.scope, entry, '%s=%s' % (kw_, norm(v)[:60]), site.call.lineno, False if fixed else None,
                'the declared type of the lazy result is taken from the input array, but the block function %s returns %s whatever the '
                'input is: an integer raster gives a result that claims to be integer and holds floats' % (
                    kern.qualname if kern is not None else '?', fixed or 'an array whose dtype is not decided here'))
    return n

