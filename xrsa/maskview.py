"""A cell-classification array read back as the classification itself.

A kernel may classify every cell once into a boolean scratch array

    M = np.ones((rows, cols), dtype=np.bool_)
    for y in range(rows):
        for x in range(cols):
            <BODY: temporaries, loops over a list, `M[y, x] = False` on some paths>

and later ask `M[i, j]`, `M[i, :].any()` or `M[:, j].any()` instead of repeating BODY at the cell.  For the rules that reason
about *which cells* a scan looks at and *what is asked of them*, the two spellings are one program: `unmask_view` gives the
function with M dissolved - every test on M is replaced by BODY at the asked cell (with `M[y, x] = c` turned into a local
flag), `.any()` over a line by the loop over that line that stops at the first True.

The rewriting is only done when it is exact (otherwise the function is returned unchanged and the rule sees M as it is):
M is allocated once at the top level with a constant boolean content and a 2-D shape; one top-level loop nest over the full
extents writes it, only at its own cell `[y, x]`, only constants; BODY writes nothing else than plain local names and M; no
other array is written anywhere in the function (so a cell read gives the same value whenever BODY runs); M is used nowhere
else than in the `if` tests listed above and is not returned."""
import ast
import copy

from .program import Func, norm

_ALLOC = {'ones': True, 'zeros': False}


def _const_bool(e):
    if isinstance(e, ast.Constant) and isinstance(e.value, (bool, int)) and e.value in (True, False, 0, 1):
        return bool(e.value)
    return None


def _range_extent(it):
    """text of n for range(n) / range(0, n) / range(0, n, 1)"""
    if not (isinstance(it, ast.Call) and isinstance(it.func, ast.Name) and it.func.id in ('range', 'prange') and not it.keywords):
        return None
    a = it.args
    if len(a) == 1:
        return norm(a[0])
    if len(a) in (2, 3) and isinstance(a[0], ast.Constant) and a[0].value == 0 and (len(a) == 2 or (isinstance(a[2], ast.Constant) and a[2].value == 1)):
        return norm(a[1])
    return None


class _Subst(ast.NodeTransformer):
    def __init__(self, mapping):
        self.mapping = mapping

    def visit_Name(self, n):
        if isinstance(n.ctx, ast.Load) and n.id in self.mapping:
            return copy.deepcopy(self.mapping[n.id])
        return n


def _is_full(sl):
    return isinstance(sl, ast.Slice) and sl.lower is None and sl.upper is None and sl.step is None


def unmask_view(prog, f):
    if f.is_lambda:
        return f
    body = f.node.body
    # ---- candidate arrays: allocated once at the top level with constant boolean content
    for st in body:
        if not (isinstance(st, ast.Assign) and len(st.targets) == 1 and isinstance(st.targets[0], ast.Name) and isinstance(st.value, ast.Call)):
            continue
        M = st.targets[0].id
        call = st.value
        short = norm(call.func).split('.')[-1]
        if short in _ALLOC and call.args:
            c0 = _ALLOC[short]
        elif short == 'full' and len(call.args) >= 2 and _const_bool(call.args[1]) is not None:
            c0 = _const_bool(call.args[1])
        else:
            continue
        g = _dissolve(prog, f, st, M, c0)
        if g is not None:
            return g
    return f


def _dissolve(prog, f, alloc, M, c0):
    body = f.node.body
    shape = alloc.value.args[0]
    # every binding of M: the allocation only
    binds = [n for n in ast.walk(f.node) if isinstance(n, ast.Name) and n.id == M and isinstance(n.ctx, ast.Store)]
    if len(binds) != 1:
        return None
    # the classification pass: the only statement that stores into M
    def stores_M(n):
        return isinstance(n, ast.Subscript) and isinstance(n.ctx, ast.Store) and isinstance(n.value, ast.Name) and n.value.id == M
    passes = [s for s in body if any(stores_M(n) for n in ast.walk(s))]
    if len(passes) != 1 or not isinstance(passes[0], ast.For):
        return None
    outer = passes[0]
    if len(outer.body) != 1 or not isinstance(outer.body[0], ast.For) or outer.orelse or outer.body[0].orelse:
        return None
    inner = outer.body[0]
    if not (isinstance(outer.target, ast.Name) and isinstance(inner.target, ast.Name)):
        return None
    a, b = outer.target.id, inner.target.id
    ea, eb = _range_extent(outer.iter), _range_extent(inner.iter)
    if ea is None or eb is None:
        return None
    # the extents are M's own: shape (ea, eb) literally, or X.shape with `ea, eb = X.shape`
    ok_shape = isinstance(shape, ast.Tuple) and len(shape.elts) == 2 and [norm(x) for x in shape.elts] == [ea, eb]
    if not ok_shape and isinstance(shape, ast.Attribute) and shape.attr == 'shape':
        for s in body:
            if isinstance(s, ast.Assign) and isinstance(s.targets[0], ast.Tuple) and [norm(x) for x in s.targets[0].elts] == [ea, eb] and \
                    norm(s.value) == norm(shape):
                ok_shape = True
    if not ok_shape:
        return None
    cls = inner.body
    # BODY: plain statements; writes only local names and M[a, b] = const
    for n in [x for s in cls for x in ast.walk(s)]:
        if isinstance(n, (ast.Return, ast.Expr, ast.Continue, ast.While, ast.With, ast.Try, ast.Raise, ast.FunctionDef, ast.Lambda, ast.AugAssign)) and \
                not (isinstance(n, ast.Expr) and isinstance(n.value, ast.Constant)):
            return None
        if isinstance(n, ast.Subscript) and isinstance(n.ctx, ast.Store):
            if not stores_M(n):
                return None
            sl = n.slice
            if not (isinstance(sl, ast.Tuple) and len(sl.elts) == 2 and norm(sl.elts[0]) == a and norm(sl.elts[1]) == b):
                return None
        if isinstance(n, ast.Name) and isinstance(n.ctx, ast.Store) and n.id in (a, b, M):
            return None
    for s in [x for s in cls for x in ast.walk(s)]:
        if isinstance(s, ast.Assign) and any(stores_M(t) for t in s.targets):
            if len(s.targets) != 1 or _const_bool(s.value) is None:
                return None
    # a `break` of BODY must belong to a loop of BODY (it would otherwise leave the pass itself)
    def loose_break(stmts):
        for s in stmts:
            if isinstance(s, ast.Break):
                return True
            if isinstance(s, ast.If) and (loose_break(s.body) or loose_break(s.orelse)):
                return True
        return False
    if loose_break(cls):
        return None
    # nothing else in the function writes an array
    for n in ast.walk(f.node):
        if isinstance(n, ast.Subscript) and isinstance(n.ctx, ast.Store) and not stores_M(n):
            return None
        if isinstance(n, ast.Call) and isinstance(n.func, ast.Attribute) and n.func.attr in ('fill', 'sort', 'put', 'resize', 'itemset'):
            return None
    temps = {n.id for s in cls for n in ast.walk(s) if isinstance(n, ast.Name) and isinstance(n.ctx, ast.Store)}
    # ---- uses of M outside the pass and its allocation: only inside `if` tests, in the supported forms
    counter = [0]

    def use_of(e):
        """('cell', i, j) / ('row', i) / ('col', j) when e asks M, else None"""
        if isinstance(e, ast.Subscript) and isinstance(e.value, ast.Name) and e.value.id == M and isinstance(e.slice, ast.Tuple) and \
                len(e.slice.elts) == 2:
            i, j = e.slice.elts
            if not _is_full(i) and not _is_full(j) and not isinstance(i, ast.Slice) and not isinstance(j, ast.Slice):
                return ('cell', i, j)
        line = None
        if isinstance(e, ast.Call) and isinstance(e.func, ast.Attribute) and e.func.attr == 'any' and not e.args and not e.keywords:
            line = e.func.value
        elif isinstance(e, ast.Call) and norm(e.func) in ('np.any', 'numpy.any') and len(e.args) == 1 and not e.keywords:
            line = e.args[0]
        if isinstance(line, ast.Subscript) and isinstance(line.value, ast.Name) and line.value.id == M and isinstance(line.slice, ast.Tuple) and \
                len(line.slice.elts) == 2:
            i, j = line.slice.elts
            if _is_full(j) and not isinstance(i, ast.Slice):
                return ('row', i)
            if _is_full(i) and not isinstance(j, ast.Slice):
                return ('col', j)
        return None

    def at_cell(i, j, flag):
        """BODY at the cell (i, j), leaving the cell's class in the local `flag`"""
        out = [ast.Assign(targets=[ast.Name(id=flag, ctx=ast.Store())], value=ast.Constant(value=c0))]
        sub = _Subst({a: i, b: j})
        for s in cls:
            s2 = sub.visit(copy.deepcopy(s))
            for n in ast.walk(s2):
                if isinstance(n, ast.Assign) and any(stores_M(t) for t in n.targets):
                    n.targets = [ast.Name(id=flag, ctx=ast.Store())]
                    n.value = ast.Constant(value=_const_bool(n.value))
            out.append(s2)
        return out

    class Rewriter(ast.NodeTransformer):
        def __init__(self):
            self.failed = False

        def generic_block(self, stmts):
            out = []
            for s in stmts:
                r = self.visit(s)
                out += r if isinstance(r, list) else [r]
            return out

        def visit_If(self, s):
            pre = []
            uses = [n for n in ast.walk(s.test) if use_of(n) is not None]
            # an inner match of a larger one (M[i, :] inside M[i, :].any()) does not occur: use_of only matches whole forms
            for u in uses:
                kind = use_of(u)
                if any(isinstance(n, ast.Name) and n.id in temps for part in kind[1:] for n in ast.walk(part)):
                    self.failed = True
                counter[0] += 1
                k = counter[0]
                if kind[0] == 'cell':
                    flag = '_cls%d' % k
                    pre += at_cell(kind[1], kind[2], flag)
                    repl = ast.Name(id=flag, ctx=ast.Load())
                else:
                    flag, anyv, lv = '_cls%d' % k, '_any%d' % k, '_line%d' % k
                    lvn = ast.Name(id=lv, ctx=ast.Load())
                    i, j = (kind[1], lvn) if kind[0] == 'row' else (lvn, kind[1])
                    ext = inner.iter if kind[0] == 'row' else outer.iter
                    loop = ast.For(target=ast.Name(id=lv, ctx=ast.Store()), iter=copy.deepcopy(ext),
                                   body=at_cell(i, j, flag) + [ast.If(test=ast.Name(id=flag, ctx=ast.Load()), body=[
                                       ast.Assign(targets=[ast.Name(id=anyv, ctx=ast.Store())], value=ast.Constant(value=True)), ast.Break()],
                                       orelse=[])], orelse=[])
                    pre += [ast.Assign(targets=[ast.Name(id=anyv, ctx=ast.Store())], value=ast.Constant(value=False)), loop]
                    repl = ast.Name(id=anyv, ctx=ast.Load())
                s.test = _Replace(u, repl).visit(s.test)
            s.body = self.generic_block(s.body)
            s.orelse = self.generic_block(s.orelse)
            for n in pre:
                for x in ast.walk(n):
                    ast.copy_location(x, s)
            return pre + [s]

        def visit_For(self, s):
            s.body = self.generic_block(s.body)
            s.orelse = self.generic_block(s.orelse)
            return s

        def visit_While(self, s):
            if any(isinstance(n, ast.Name) and n.id == M for n in ast.walk(s.test)):
                self.failed = True
            s.body = self.generic_block(s.body)
            s.orelse = self.generic_block(s.orelse)
            return s

    rw = Rewriter()
    new_body = []
    for s in body:
        if s is alloc or s is outer:
            continue
        s2 = copy.deepcopy(s)
        r = rw.visit(s2)
        new_body += r if isinstance(r, list) else [r]
    if rw.failed or counter[0] == 0:
        return None
    # M must be gone
    if any(isinstance(n, ast.Name) and n.id == M for s in new_body for n in ast.walk(s)):
        return None
    node = copy.copy(f.node)
    node.body = new_body
    ast.fix_missing_locations(node)
    g = Func(f.module, node, f.parent)
    g.jit = f.jit
    g.children = f.children
    g.inlined_from = f
    return g


class _Replace(ast.NodeTransformer):
    def __init__(self, old, new):
        self.old, self.new = old, new

    def visit(self, n):
        if n is self.old:
            return self.new
        return super().visit(n)
