"""Variant corpus for self-validation (see selftest.py).  kind: mutant (must be refuted) | twin (must be silent)."""
CORPUS = []


def M(prop, id, file, old, new, rule=None, **kw):
    CORPUS.append(dict(prop=prop, id=id, file='xrspatial/' + file, old=old, new=new, kind='mutant', rule=rule, **kw))


def T(prop, id, file, old, new, **kw):
    CORPUS.append(dict(prop=prop, id=id, file='xrspatial/' + file, old=old, new=new, kind='twin', **kw))


# ------------------------------------------------------------------------------------------------ C08
M('C08', 'slope-dzdx-over-cy', 'slope.py', 'dz_dx = ((c + 2 * f + i) - (a + 2 * d + g)) / (8 * cellsize_x)\n            dz_dy',
  'dz_dx = ((c + 2 * f + i) - (a + 2 * d + g)) / (8 * cellsize_y)\n            dz_dy', 'L-formula')
M('C08', 'slope-weight', 'slope.py', 'dz_dy = ((g + 2 * h + i) - (a + 2 * b + c)) / (8 * cellsize_y)\n            p =',
  'dz_dy = ((g + h + i) - (a + 2 * b + c)) / (8 * cellsize_y)\n            p =')
M('C08', 'slope-loop-from-0', 'slope.py', 'for y in range(1, rows - 1):\n        for x in range(1, cols - 1):\n            a = data[y + 1, x - 1]',
  'for y in range(1, rows - 1):\n        for x in range(0, cols - 1):\n            a = data[y + 1, x - 1]', 'L1-loops')
M('C08', 'slope-zero-init', 'slope.py', '    out = np.zeros_like(data, dtype=np.float32)\n    out[:] = np.nan\n    rows, cols = data.shape\n    for y in range(1, rows - 1):',
  '    out = np.zeros_like(data, dtype=np.float32)\n    rows, cols = data.shape\n    for y in range(1, rows - 1):', 'L1-init')
M('C08', 'slope-swap-args', 'slope.py', 'out = mapper(agg)(agg.data, cellsize_x, cellsize_y)', 'out = mapper(agg)(agg.data, cellsize_y, cellsize_x)', 'S7-bind')
M('C08', 'slope-res-swapped', 'slope.py', '    cellsize_x, cellsize_y = get_dataarray_resolution(agg)\n    mapper', '    cellsize_y, cellsize_x = get_dataarray_resolution(agg)\n    mapper', 'S7-bind')
M('C08', 'aspect-sign', 'aspect.py', '_aspect = np.arctan2(dz_dy, -dz_dx) * RADIAN', '_aspect = np.arctan2(dz_dy, dz_dx) * RADIAN')
M('C08', 'aspect-threshold', 'aspect.py', 'elif _aspect > 90.0:\n                    out[y, x] = 360.0 - _aspect + 90.0', 'elif _aspect > 180.0:\n                    out[y, x] = 360.0 - _aspect + 90.0', 'L5-compass')
M('C08', 'aspect-rows-swapped', 'aspect.py', '            g = data[y+1, x-1]\n            h = data[y+1, x]\n            i = data[y+1, x+1]\n\n            dz_dx = ((c + 2 * f + i) - (a + 2 * d + g)) / 8\n            dz_dy = ((g + 2 * h + i) - (a + 2 * b + c)) / 8\n\n            if',
  '            g = data[y+1, x-1]\n            h = data[y+1, x]\n            i = data[y+1, x+1]\n\n            dz_dx = ((c + 2 * f + i) - (a + 2 * d + g)) / 8\n            dz_dy = ((a + 2 * b + c) - (g + 2 * h + i)) / 8\n\n            if')
M('C08', 'aspect-flat-or', 'aspect.py', 'if dz_dx == 0 and dz_dy == 0:\n                # flat surface, slope = 0, thus invalid aspect\n                out[y, x] = -1.',
  'if dz_dx == 0 or dz_dy == 0:\n                # flat surface, slope = 0, thus invalid aspect\n                out[y, x] = -1.', 'L5-flat')
M('C08', 'curv-factor', 'curvature.py', 'out[y, x] = -2 * (d + e) * 100 / (cellsize * cellsize)', 'out[y, x] = -2 * (d + e) * 100 / cellsize')
M('C08', 'curv-diag', 'curvature.py', 'e = (data[y, x + 1] + data[y, x - 1]) / 2 - data[y, x]', 'e = (data[y + 1, x + 1] + data[y, x - 1]) / 2 - data[y, x]')
M('C08', 'curv-cellsize-x-only', 'curvature.py', 'cellsize = (cellsize_x + cellsize_y) / 2', 'cellsize = cellsize_x', 'S7-bind')
M('C08', 'hill-border-missing', 'hillshade.py', '    result[(0, -1), :] = np.nan\n    result[:, (0, -1)] = np.nan\n', '    result[(0, -1), :] = np.nan\n', 'L6-border')
M('C08', 'hill-aspect-sign', 'hillshade.py', 'aspect = np.arctan2(-x, y)', 'aspect = np.arctan2(x, y)', 'L-formula')
M('C08', 'hill-global-norm', 'hillshade.py', 'result = (shaded + 1) / 2\n', 'result = (shaded - np.nanmin(shaded)) / 2\n')
M('C08', 'calcres-width-for-y', 'utils.py', 'yres = (yrange[-1] - yrange[0]) / (h - 1)', 'yres = (yrange[-1] - yrange[0]) / (w - 1)', 'S5-res')
M('C08', 'summarize-wrong-fn', 'analytics.py', "ds[f'{terrain.name}-curvature'] = curvature(terrain)", "ds[f'{terrain.name}-curvature'] = slope(terrain)", 'L7-forward')
T('C08', 'slope-exact-degrees', 'slope.py', 'out[y, x] = np.arctan(p) * 57.29578', 'out[y, x] = np.arctan(p) * (180 / np.pi)')
T('C08', 'slope-hypot', 'slope.py', 'p = (dz_dx * dz_dx + dz_dy * dz_dy) ** .5', 'p = np.sqrt(dz_dx ** 2 + dz_dy ** 2)')
T('C08', 'slope-rename', 'slope.py', 'dz_dx = ((c + 2 * f + i) - (a + 2 * d + g)) / (8 * cellsize_x)\n            dz_dy = ((g + 2 * h + i) - (a + 2 * b + c)) / (8 * cellsize_y)\n            p = (dz_dx * dz_dx + dz_dy * dz_dy) ** .5',
  'gx = (c - a + 2 * (f - d) + i - g) / cellsize_x / 8\n            gy = (g - a + 2 * (h - b) + i - c) / (cellsize_y * 8)\n            p = (gx * gx + gy * gy) ** .5')
T('C08', 'aspect-no-div8', 'aspect.py', '            dz_dx = ((c + 2 * f + i) - (a + 2 * d + g)) / 8\n            dz_dy = ((g + 2 * h + i) - (a + 2 * b + c)) / 8\n\n            if dz_dx == 0 and dz_dy == 0:\n                # flat surface, slope = 0, thus invalid aspect\n                out[y, x] = -1.',
  '            dz_dx = ((c + 2 * f + i) - (a + 2 * d + g))\n            dz_dy = ((g + 2 * h + i) - (a + 2 * b + c))\n\n            if dz_dx == 0 and dz_dy == 0:\n                # flat surface, slope = 0, thus invalid aspect\n                out[y, x] = -1.')
T('C08', 'aspect-merged-branches', 'aspect.py', '                if _aspect < 0:\n                    out[y, x] = 90.0 - _aspect\n                elif _aspect > 90.0:\n                    out[y, x] = 360.0 - _aspect + 90.0\n                else:\n                    out[y, x] = 90.0 - _aspect',
  '                if _aspect > 90.0:\n                    out[y, x] = 450.0 - _aspect\n                else:\n                    out[y, x] = 90.0 - _aspect')
T('C08', 'curv-rearranged', 'curvature.py', 'out[y, x] = -2 * (d + e) * 100 / (cellsize * cellsize)', 'out[y, x] = -200 * (d + e) / cellsize ** 2')
T('C08', 'slope-full-nan', 'slope.py', '    out = np.zeros_like(data, dtype=np.float32)\n    out[:] = np.nan\n    rows, cols = data.shape\n    for y in range(1, rows - 1):',
  '    out = np.full(data.shape, np.nan, dtype=np.float32)\n    rows, cols = data.shape\n    for y in range(1, rows - 1):')

# ------------------------------------------------------------------------------------------------ C13
M('C13', 'nbr-args-swapped', 'multispectral.py', "out = mapper(nir_agg)(nir_agg.data.astype('f4'), swir2_agg.data.astype('f4'))",
  "out = mapper(nir_agg)(swir2_agg.data.astype('f4'), nir_agg.data.astype('f4'))", 'M1')
M('C13', 'ndmi-wrong-band', 'multispectral.py', "out = mapper(nir_agg)(nir_agg.data.astype('f4'), swir1_agg.data.astype('f4'))",
  "out = mapper(nir_agg)(nir_agg.data.astype('f4'), nir_agg.data.astype('f4'))", 'M1')
M('C13', 'evi-dask-band-order', 'multispectral.py', "out = da.map_blocks(_evi_cpu, nir_data, red_data, blue_data,", "out = da.map_blocks(_evi_cpu, nir_data, blue_data, red_data,", 'M1')
M('C13', 'sipi-guard-numerator', 'multispectral.py', "            numerator = nir - blue\n            denominator = nir - red\n            if denominator != 0.0:",
  "            numerator = nir - blue\n            denominator = nir - red\n            if numerator != 0.0:", 'M2')
M('C13', 'gci-no-guard', 'multispectral.py', "            if green != 0:\n                out[y, x] = nir / green - 1", "            if True:\n                out[y, x] = nir / green - 1", 'M2')
M('C13', 'ndvi-no-cast', 'multispectral.py', "out = mapper(nir_agg)(nir_agg.data.astype('f4'), red_agg.data.astype('f4'))", "out = mapper(nir_agg)(nir_agg.data, red_agg.data.astype('f4'))", 'M3')
M('C13', 'ebbi-no-sqrt', 'multispectral.py', "denominator = 10 * np.sqrt(swir + tir)", "denominator = 10 * (swir + tir)", 'M1')
M('C13', 'evi-sign-c2', 'multispectral.py', "denominator = nir + c1 * red - c2 * blue + soil_factor", "denominator = nir + c1 * red + c2 * blue + soil_factor", 'M1', first=True)
M('C13', 'normratio-zeros-init', 'multispectral.py', "    out = np.full(arr1.shape, np.nan, dtype=np.float32)\n    rows, cols = arr1.shape", "    out = np.zeros(arr1.shape, dtype=np.float32)\n    rows, cols = arr1.shape", 'M2-init')
M('C13', 'arvi-loop-short', 'multispectral.py', "    rows, cols = nir_data.shape\n    for y in range(0, rows):\n        for x in range(0, cols):\n            nir = nir_data[y, x]\n            red = red_data[y, x]\n            blue = blue_data[y, x]\n            numerator = (nir - (2.0 * red) + blue)",
  "    rows, cols = nir_data.shape\n    for y in range(0, rows):\n        for x in range(0, cols - 1):\n            nir = nir_data[y, x]\n            red = red_data[y, x]\n            blue = blue_data[y, x]\n            numerator = (nir - (2.0 * red) + blue)", 'M1-loops')
M('C13', 'savi-validate-missing', 'multispectral.py', "    validate_arrays(red_agg, nir_agg)\n\n    if not -1.0", "    if not -1.0", 'M6-validate')
M('C13', 'truecolor-alpha-lt', 'multispectral.py', "a = np.where(np.logical_or(np.isnan(r), r <= nodata), 0, 255)", "a = np.where(np.logical_or(np.isnan(r), r < nodata), 0, 255)", 'M5-alpha')
M('C13', 'truecolor-dask-channels', 'multispectral.py', "out = da.stack([red, green, blue, alpha], axis=-1)", "out = da.stack([blue, green, red, alpha], axis=-1)", 'M5-channels')
M('C13', 'sigmoid-sign', 'multispectral.py', "norm = 1 / (1 + np.exp(c * (th - norm)))", "norm = 1 / (1 + np.exp(c * (norm - th)))", 'M5-sigmoid')
M('C13', 'arvi-other-deviation', 'multispectral.py', "numerator = (nir - (2.0 * red) + blue)", "numerator = (nir - (2.0 * red) - blue)", 'M1', first=True)
M('C13', 'sipi-transposed-read', 'multispectral.py', "            nir = nir_data[y, x]\n            red = red_data[y, x]\n            blue = blue_data[y, x]\n            numerator = nir - blue",
  "            nir = nir_data[y, x]\n            red = red_data[y, x]\n            blue = blue_data[y, x - 1]\n            numerator = nir - blue", 'M1-footprint')
T('C13', 'normratio-if-form', 'multispectral.py', "            if denominator == 0.0:\n                continue\n            else:\n                out[y, x] = numerator / denominator",
  "            if denominator != 0.0:\n                out[y, x] = numerator / denominator")
T('C13', 'evi-rearranged', 'multispectral.py', "out[y, x] = gain * (numerator / denominator)", "out[y, x] = (gain * numerator) / denominator", first=True)
T('C13', 'gci-rearranged', 'multispectral.py', "out[y, x] = nir / green - 1", "out[y, x] = (nir - green) / green", first=True)
T('C13', 'ndvi-float32-cast', 'multispectral.py', "out = mapper(nir_agg)(nir_agg.data.astype('f4'), red_agg.data.astype('f4'))", "out = mapper(nir_agg)(nir_agg.data.astype(np.float32), red_agg.data.astype(np.float32))")
T('C13', 'truecolor-bitor', 'multispectral.py', "a = np.where(np.logical_or(np.isnan(r), r <= nodata), 0, 255)", "a = np.where(np.isnan(r) | (r <= nodata), 0, 255)")

# ------------------------------------------------------------------------------------------------ C17
M('C17', 'nditer-order-removed', 'local.py', "for comb in np.nditer([raster[var].data for var in data_vars], order='C'):\n        iter_list.append(list(", "for comb in np.nditer([raster[var].data for var in data_vars]):\n        iter_list.append(list(", 'L1')
M('C17', 'nditer-order-F', 'local.py', "np.nditer([raster[var].data for var in data_vars], order='C')", "np.nditer([raster[var].data for var in data_vars], order='F')", 'L1', first=True)
M('C17', 'lesser-ge', 'local.py', "            if ref > item:", "            if ref >= item:", 'L2')
M('C17', 'greater-flipped', 'local.py', "            if ref < item:", "            if item < ref:", 'L2')
M('C17', 'lowest-no-plus1', 'local.py', "min_index = comb.index(min_value) + 1", "min_index = comb.index(min_value)", 'L4')
M('C17', 'highest-uses-min', 'local.py', "max_value = max(comb)", "max_value = min(comb)", 'L4')
M('C17', 'nan-after-result', 'local.py', "        if np.isnan(comb).any():\n            out.append(np.nan)\n            continue\n\n        min_value = min(comb)\n        min_index = comb.index(min_value) + 1\n\n        out.append(min_index)",
  "        min_value = min(comb)\n        min_index = comb.index(min_value) + 1\n\n        out.append(min_index)", 'L3')
M('C17', 'reshape-rows', 'local.py', "final_arr = np.reshape(final_arr, (-1, raster[data_vars[0]].data.shape[1]))\n    final_arr = xr.DataArray(final_arr)\n\n    return final_arr\n\n\ndef combine",
  "final_arr = np.reshape(final_arr, (-1, raster[data_vars[0]].data.shape[0]))\n    final_arr = xr.DataArray(final_arr)\n\n    return final_arr\n\n\ndef combine", 'L5')
M('C17', 'rank-reverse', 'local.py', "        comb.sort()\n", "        comb.sort(reverse=True)\n", 'L4')
M('C17', 'rank-ref-not-shifted', 'local.py', "        comb_ref = ref - 1\n        comb.sort()", "        comb_ref = ref\n        comb.sort()", 'L4')
M('C17', 'combine-from-0', 'local.py', "    all_values = []\n    value = 1\n", "    all_values = []\n    value = 0\n", 'L4')
M('C17', 'stats-nanmax', 'local.py', "    'max': np.max,", "    'max': np.nanmax,", 'L-table')
M('C17', 'stats-swapped', 'local.py', "    'min': np.min,", "    'min': np.max,", 'L-table')
M('C17', 'ref-col-major', 'local.py', "ref_list = [item for arr in raster[ref_var].data for item in arr]\n    for ref, comb in zip(ref_list, iter_list):\n        count = 0\n        if np.isnan(comb).any():\n            out.append(np.nan)\n            continue\n\n        for item in comb:\n            if ref > item:",
  "ref_list = [item for arr in raster[ref_var].data.T for item in arr]\n    for ref, comb in zip(ref_list, iter_list):\n        count = 0\n        if np.isnan(comb).any():\n            out.append(np.nan)\n            continue\n\n        for item in comb:\n            if ref > item:", 'L1-ref')
T('C17', 'lesser-flipped-same', 'local.py', "            if ref > item:", "            if item < ref:")
T('C17', 'reshape-method', 'local.py', "final_arr = np.reshape(final_arr, (-1, raster[data_vars[0]].data.shape[1]))\n    final_arr = xr.DataArray(final_arr)\n\n    return final_arr\n\n\ndef combine",
  "final_arr = final_arr.reshape(-1, raster[data_vars[0]].data.shape[1])\n    final_arr = xr.DataArray(final_arr)\n\n    return final_arr\n\n\ndef combine")
T('C17', 'lowest-inline', 'local.py', "        min_value = min(comb)\n        min_index = comb.index(min_value) + 1\n\n        out.append(min_index)", "        out.append(comb.index(min(comb)) + 1)")

# ------------------------------------------------------------------------------------------------ C18
NANEQ = "if e == val or (np.isnan(e) and np.isnan(val)):"
M('C18', 'trim-plain-eq', 'zonal.py', NANEQ, "if e == val:", 'T1', first=True)
M('C18', 'trim-right-not-inclusive', 'zonal.py', "arr = raster[top: bottom + 1, left: right + 1]", "arr = raster[top: bottom + 1, left: right]", 'T3-slice')
M('C18', 'trim-axes-swapped', 'zonal.py', "arr = raster[top: bottom + 1, left: right + 1]", "arr = raster[left: right + 1, top: bottom + 1]", 'T3-slice')
M('C18', 'trim-bottom-ascending', 'zonal.py', "    bottom = 0\n    scan_complete = False\n    for y in range(rows - 1, -1, -1):\n        if scan_complete:\n            break\n        bottom = y\n        for x in range(cols):\n            val = data[y, x]\n            is_nodata = False",
  "    bottom = 0\n    scan_complete = False\n    for y in range(rows):\n        if scan_complete:\n            break\n        bottom = y\n        for x in range(cols):\n            val = data[y, x]\n            is_nodata = False", 'T2-scan')
M('C18', 'trim-bound-after-scan', 'zonal.py', "        if scan_complete:\n            break\n        left = x\n        for y in range(rows):\n            val = data[y, x]\n            is_nodata = False",
  "        left = x\n        if scan_complete:\n            break\n        for y in range(rows):\n            val = data[y, x]\n            is_nodata = False", 'T2-stop')
M('C18', 'trim-return-order', 'zonal.py', "    return top, bottom, left, right\n\n\ndef trim(", "    return top, bottom, right, left\n\n\ndef trim(", 'T3-order')
M('C18', 'crop-slices-zones', 'zonal.py', "arr = values[top: bottom + 1, left: right + 1]", "arr = zones[top: bottom + 1, left: right + 1]", 'T3-slice')
M('C18', 'crop-transposed-read', 'zonal.py', "        right = x\n        for y in range(rows):\n            val = data[y, x]\n            for e in values:", "        right = x\n        for y in range(rows):\n            val = data[x, y]\n            for e in values:", 'T2-index')
M('C18', 'crop-line-short', 'zonal.py', "        bottom = y\n\n        for x in range(cols):\n            val = data[y, x]\n            for e in values:", "        bottom = y\n\n        for x in range(cols - 1):\n            val = data[y, x]\n            for e in values:", 'T2-line')
M('C18', 'trim-keep-inverted', 'zonal.py', "            if not is_nodata:\n                scan_complete = True\n                break\n\n    # find empty bottom rows", "            if is_nodata:\n                scan_complete = True\n                break\n\n    # find empty bottom rows", 'T2-keep')
M('C18', 'trim-copy-result', 'zonal.py', "    arr = raster[top: bottom + 1, left: right + 1]\n    arr.name = name\n    return arr", "    arr = raster[top: bottom + 1, left: right + 1]\n    arr.name = name\n    arr.attrs = {}\n    return arr", 'T3-return')
T('C18', 'trim-helper-eq', 'zonal.py', NANEQ, "if _nan_equal(e, val):", all=True,
  edits=[('xrspatial/zonal.py', NANEQ, "if _nan_equal(e, val):"), ('xrspatial/zonal.py', "@ngjit\ndef _trim(data, excludes):", "@ngjit\ndef _nan_equal(a, b):\n    return a == b or (np.isnan(a) and np.isnan(b))\n\n\n@ngjit\ndef _trim(data, excludes):")])
T('C18', 'trim-range-0', 'zonal.py', "    top = 0\n    scan_complete = False\n    for y in range(rows):\n\n        if scan_complete:\n            break\n\n        top = y\n        for x in range(cols):\n            val = data[y, x]\n            is_nodata = False",
  "    top = 0\n    scan_complete = False\n    for y in range(0, rows):\n\n        if scan_complete:\n            break\n\n        top = y\n        for x in range(cols):\n            val = data[y, x]\n            is_nodata = False")

# ------------------------------------------------------------------------------------------------ C11
M('C11', 'ngjit-parallel', 'utils.py', "ngjit = jit(nopython=True, nogil=True)", "ngjit = jit(nopython=True, nogil=True, parallel=True)", 'S3-parallel')
M('C11', 'convolve-parallel', 'convolution.py', "@jit(nopython=True, nogil=True)\ndef _convolve_2d_numpy", "@jit(nopython=True, nogil=True, parallel=True)\ndef _convolve_2d_numpy", 'S3-parallel')
M('C11', 'proximity-closure-cache', 'proximity.py', "    @ngjit\n    def _process_numpy(", "    @jit(nopython=True, nogil=True, cache=True)\n    def _process_numpy(",
  'S3-cache', edits=[('xrspatial/proximity.py', "    @ngjit\n    def _process_numpy(", "    @jit(nopython=True, nogil=True, cache=True)\n    def _process_numpy("),
                      ('xrspatial/proximity.py', "from numba import prange", "from numba import prange, jit")])
M('C11', 'mean-excludes-append', 'focal.py', "    out = agg.data.astype(float)\n", "    excludes.append(0)\n    out = agg.data.astype(float)\n", 'S2')
M('C11', 'default-stats-mutated', 'zonal.py', "    basis_stats = [s for s in _DASK_BLOCK_STATS if s in stats_funcs]", "    _DASK_BLOCK_STATS.setdefault('count', _stats_count)\n    basis_stats = [s for s in _DASK_BLOCK_STATS if s in stats_funcs]", 'S1')
M('C11', 'perlin-dask-no-seed', 'perlin.py', "                       seed: int) -> da.Array:\n    np.random.seed(seed)\n    p = np.random.permutation(2**20)", "                       seed: int) -> da.Array:\n    p = np.random.permutation(2**20)", 'S5')
M('C11', 'terrain-seed-const', 'terrain.py', "        np.random.seed(seed+i)\n        p = np.random.permutation(nrange)\n        p = np.append(p, p)\n\n        noise = _perlin(", "        np.random.seed(i)\n        p = np.random.permutation(nrange)\n        p = np.append(p, p)\n\n        noise = _perlin(", 'S5')
M('C11', 'terrain-dask-seed-differs', 'terrain.py', "        np.random.seed(seed + i)\n", "        np.random.seed(seed + 2 * i)\n", 'S5-sibling')
M('C11', 'module-cache-metric', 'proximity.py', "    distance_metric = DISTANCE_METRICS.get(distance_metric, None)\n    if distance_metric is None:",
  "    if 'last' in _LAST:\n        distance_metric = _LAST['last']\n    distance_metric = DISTANCE_METRICS.get(distance_metric, None)\n    _LAST['last'] = distance_metric\n    if distance_metric is None:", 'S1',
  edits=[('xrspatial/proximity.py', "    distance_metric = DISTANCE_METRICS.get(distance_metric, None)\n    if distance_metric is None:",
          "    if 'last' in _LAST:\n        distance_metric = _LAST['last']\n    distance_metric = DISTANCE_METRICS.get(distance_metric, None)\n    _LAST['last'] = distance_metric\n    if distance_metric is None:"),
         ('xrspatial/proximity.py', "EUCLIDEAN = 0\n", "_LAST = {}\nEUCLIDEAN = 0\n")])
M('C11', 'global-counter', 'classify.py', "def _run_jenks(data, n_classes):\n", "def _run_jenks(data, n_classes):\n    global _CALLS\n    _CALLS = _CALLS + 1\n", 'S1',
  edits=[('xrspatial/classify.py', "def _run_jenks(data, n_classes):\n", "def _run_jenks(data, n_classes):\n    global _CALLS\n    _CALLS = _CALLS + 1\n"),
         ('xrspatial/classify.py', "import xarray as xr\n", "import xarray as xr\n_CALLS = 0\n")], first=True)
M('C11', 'lru-cache-process', 'proximity.py', "def _process(\n    raster,", "@lru_cache(maxsize=8)\ndef _process(\n    raster,", 'S3-memo',
  edits=[('xrspatial/proximity.py', "def _process(\n    raster,", "@lru_cache(maxsize=8)\ndef _process(\n    raster,"),
         ('xrspatial/proximity.py', "from math import sqrt", "from math import sqrt\nfrom functools import lru_cache")])
M('C11', 'funcattr-state', 'focal.py', "    out = agg.data.astype(float)\n", "    mean.last_passes = passes\n    out = agg.data.astype(float)\n", 'S1')
M('C11', 'block-fn-writes-input', 'multispectral.py', "            if denominator == 0.0:\n                continue\n            else:\n                out[y, x] = numerator / denominator",
  "            if denominator == 0.0:\n                arr1[y, x] = 0\n                continue\n            else:\n                out[y, x] = numerator / denominator", 'S6')
M('C11', 'natural-breaks-global-rng', 'classify.py', "generator = np.random.RandomState(1234567890)", "generator = np.random", 'S5')
T('C11', 'cache-module-kernel', 'convolution.py', "@jit(nopython=True, nogil=True)\ndef _convolve_2d_numpy", "@jit(nopython=True, nogil=True, cache=True)\ndef _convolve_2d_numpy")
T('C11', 'lru-cache-scalar-helper', 'convolution.py', "def _is_numeric(s):", "@lru_cache(maxsize=None)\ndef _is_numeric(s):",
  edits=[('xrspatial/convolution.py', "def _is_numeric(s):", "@lru_cache(maxsize=None)\ndef _is_numeric(s):"), ('xrspatial/convolution.py', "import re\n", "import re\nfrom functools import lru_cache\n")])
T('C11', 'local-list-append', 'focal.py', "    out = agg.data.astype(float)\n", "    excl = list(excludes)\n    excl.append(0)\n    out = agg.data.astype(float)\n")

# ------------------------------------------------------------------------------------------------ C10
M('C10', 'mean-astype-nocopy', 'focal.py', "    out = agg.data.astype(float)\n", "    out = agg.data.astype(float, copy=False)\n", 'P2')
M('C10', 'perlin-inplace-again', 'perlin.py', "    data = _perlin(p, x, y)\n    data = (data - np.min(data)) / np.ptp(data)\n    return data\n\n\ndef _perlin_dask_numpy", "    data[:] = _perlin(p, x, y)\n    data[:] = (data - np.min(data)) / np.ptp(data)\n    return data\n\n\ndef _perlin_dask_numpy", 'P1')
M('C10', 'hotspots-attrs-shared', 'focal.py', "    attrs = copy.deepcopy(raster.attrs)\n    attrs['unit'] = '%'", "    attrs = raster.attrs\n    attrs['unit'] = '%'", 'P1')
M('C10', 'slope-no-coords', 'slope.py', "    return xr.DataArray(out,\n                        name=name,\n                        coords=agg.coords,\n                        dims=agg.dims,\n                        attrs=agg.attrs)", "    return xr.DataArray(out,\n                        name=name,\n                        dims=agg.dims,\n                        attrs=agg.attrs)", 'P3')
M('C10', 'regions-no-attrs', 'zonal.py', "        dims=raster.dims,\n        coords=raster.coords,\n        attrs=raster.attrs\n    )", "        dims=raster.dims,\n        coords=raster.coords,\n    )", 'P3', first=True)
M('C10', 'regions-kernel-writes-input', 'zonal.py', "            val = data[y, x]\n", "            val = data[y, x]\n            data[y, x] = val\n", 'P1', first=True)
T('C10', 'curvature-kernel-writes-copy', 'curvature.py', "            out[y, x] = -2 * (d + e) * 100 / (cellsize * cellsize)\n    return out", "            out[y, x] = -2 * (d + e) * 100 / (cellsize * cellsize)\n            data[y, x] = 0\n    return out")
M('C10', 'slope-numpy-nocast-inplace', 'slope.py', "    out = _cpu(data, cellsize_x, cellsize_y)\n    return out", "    data -= data.min()\n    out = _cpu(data, cellsize_x, cellsize_y)\n    return out", 'P1')
M('C10', 'binary-returns-input', 'classify.py', "    values = np.asarray(values)\n    out = _cpu_binary(data, values)\n    return out", "    values = np.asarray(values)\n    out = data\n    out[:] = _cpu_binary(data, values)\n    return out", 'P1')
M('C10', 'astar-path-on-surface', 'pathfinding.py', "    path_img = np.zeros_like(surface, dtype=np.float64)", "    path_img = surface.data", 'P1')
M('C10', 'ndvi-coords-of-other', 'multispectral.py', "                     coords=nir_agg.coords,\n                     dims=nir_agg.dims,\n                     attrs=nir_agg.attrs)", "                     coords=None,\n                     dims=nir_agg.dims,\n                     attrs=nir_agg.attrs)", 'P3', first=True)
M('C10', 'proximity-name-store', 'proximity.py', "    proximity_img = _process(\n        raster,", "    raster.name = 'proximity_input'\n    proximity_img = _process(\n        raster,", 'P1')
M('C10', 'zonal-stats-sort-inplace', 'zonal.py', "    flatten_zones = zones.ravel()\n", "    flatten_zones = zones.ravel()\n    flatten_zones.sort()\n", 'P1')
M('C10', 'reclassify-attrs-edit', 'classify.py', "    out = _bin(agg, bins, new_values)\n", "    out = _bin(agg, bins, new_values)\n    agg.attrs['classified'] = True\n", 'P1')
T('C10', 'mean-copy-then-astype', 'focal.py', "    out = agg.data.astype(float)\n", "    out = agg.data.copy().astype(float, copy=False)\n")
T('C10', 'hotspots-dict-copy', 'focal.py', "    attrs = copy.deepcopy(raster.attrs)\n    attrs['unit'] = '%'", "    attrs = dict(raster.attrs)\n    attrs['unit'] = '%'")
T('C10', 'slope-kwargs-reordered', 'slope.py', "    return xr.DataArray(out,\n                        name=name,\n                        coords=agg.coords,\n                        dims=agg.dims,\n                        attrs=agg.attrs)", "    result = xr.DataArray(out, attrs=agg.attrs, dims=agg.dims, coords=agg.coords, name=name)\n    return result")
T('C10', 'kernel-local-scratch', 'curvature.py', "    out = np.empty(data.shape, np.float32)\n    out[:] = np.nan", "    out = np.empty(data.shape, np.float32)\n    tmp = np.zeros(3)\n    tmp[0] = 1\n    out[:] = np.nan")

# ------------------------------------------------------------------------------------------------ C01
M('C01', 'slope-depth-short', 'slope.py', "depth=(1, 1),", "depth=(0, 1),", 'H1')
M('C01', 'conv-depth-swapped', 'convolution.py', "depth=(pad_h, pad_w),", "depth=(pad_w, pad_h),", 'H1')
M('C01', 'apply-depth-same-axis', 'focal.py', "    pad_h = kernel.shape[0] // 2\n    pad_w = kernel.shape[1] // 2\n\n    out = data.map_overlap(_func,", "    pad_h = kernel.shape[0] // 2\n    pad_w = kernel.shape[0] // 2\n\n    out = data.map_overlap(_func,", 'H1')
M('C01', 'apply-depth-minus-1', 'focal.py', "    pad_h = kernel.shape[0] // 2\n    pad_w = kernel.shape[1] // 2\n\n    out = data.map_overlap(_func,", "    pad_h = kernel.shape[0] // 2 - 1\n    pad_w = kernel.shape[1] // 2\n\n    out = data.map_overlap(_func,", 'H1')
M('C01', 'curv-boundary-reflect', 'curvature.py', "boundary=np.nan,", "boundary='reflect',", 'H2')
M('C01', 'mean-boundary-0', 'focal.py', "    out = data.map_overlap(_func,\n                           depth=(1, 1),\n                           boundary=np.nan,", "    out = data.map_overlap(_func,\n                           depth=(1, 1),\n                           boundary=0,", 'H2')
M('C01', 'aspect-boundary-missing', 'aspect.py', "                           depth=(1, 1),\n                           boundary=np.nan,\n", "                           depth=(1, 1),\n", 'H2')
M('C01', 'normalize-minmax-in-block', 'multispectral.py', "    range_val = max_val - min_val\n    rows, cols = data.shape", "    min_val = np.nanmin(data)\n    max_val = np.nanmax(data)\n    range_val = max_val - min_val\n    rows, cols = data.shape", 'H3')
M('C01', 'hotspots-compute', 'focal.py', "    global_mean = da.nanmean(data)\n    global_std = da.nanstd(data)\n", "    global_mean = da.nanmean(data).compute()\n    global_std = da.nanstd(data)\n", 'H4')
M('C01', 'hotspots-if-lazy', 'focal.py', "    z_array = (mean_array - global_mean) / global_std\n\n    _func = partial(_calc_hotspots_numpy)", "    if global_std == 0:\n        raise ZeroDivisionError('std is 0')\n    z_array = (mean_array - global_mean) / global_std\n\n    _func = partial(_calc_hotspots_numpy)", 'H4')
M('C01', 'terrain-dask-octaves', 'terrain.py', "    NOISE_LAYERS = ((1 / 2 ** i, (2 ** i, 2 ** i)) for i in range(16))", "    NOISE_LAYERS = ((1 / 2 ** i, (2 ** i, 2 ** i)) for i in range(15))", 'H0-const')
M('C01', 'terrain-dask-threshold', 'terrain.py', "    data = (data - np.min(data)) / np.ptp(data)\n    data[data < 0.3] = 0  # create water\n    data *= zfactor\n\n    return data\n\n\ndef _terrain_gpu", "    data = (data - np.min(data)) / np.ptp(data)\n    data[data < 0.35] = 0  # create water\n    data *= zfactor\n\n    return data\n\n\ndef _terrain_gpu", 'H0-const')
M('C01', 'binary-dask-other-kernel', 'classify.py', "    _func = partial(_run_numpy_binary, values=values)\n    out = data.map_blocks(_func)", "    _func = partial(_run_numpy_bin, bins=values, new_values=values)\n    out = data.map_blocks(_func)", 'H0')
M('C01', 'equal-interval-lazy-arange', 'classify.py', "        cuts = (min_data + width) + da.arange(k) * width", "        cuts = da.arange(min_data + width, max_data + width, width)", 'H4')
M('C01', 'terrain-numpy-template-dtype', 'terrain.py', "    data = (data * 0).astype(np.result_type(data.dtype, np.float32))", "    data = data * 0", 'H6')
M('C01', 'hillshade-overlap-to-blocks', 'hillshade.py', "    out = data.map_overlap(_func,\n                           depth=(1, 1),\n                           boundary=np.nan,\n                           meta=np.array(()))", "    out = data.map_blocks(_func, meta=np.array(()))")
M('C01', 'mean-kernel-5x5-halo-1', 'focal.py', "                left = max(x-1, 0)\n                right = min(x+2, cols)", "                left = max(x-2, 0)\n                right = min(x+3, cols)", 'H1')
T('C01', 'conv-depth-inline', 'convolution.py', "depth=(pad_h, pad_w),", "depth=(kernel.shape[0] // 2, kernel.shape[1] // 2),")
T('C01', 'slope-depth-bigger', 'slope.py', "depth=(1, 1),", "depth=(2, 2),")
T('C01', 'slope-boundary-none', 'slope.py', "boundary=np.nan,\n                           meta", "boundary='none',\n                           meta")
T('C01', 'apply-int-half', 'focal.py', "    pad_h = kernel.shape[0] // 2\n    pad_w = kernel.shape[1] // 2\n\n    out = data.map_overlap(_func,", "    pad_h = int(kernel.shape[0] / 2)\n    pad_w = int(kernel.shape[1] / 2)\n\n    out = data.map_overlap(_func,")
T('C01', 'terrain-pow-const', 'terrain.py', "    nrange = np.arange(2 ** 20, dtype=np.int32)", "    nrange = np.arange(1048576, dtype=np.int32)")

# ------------------------------------------------------------------------------------------------ C07
M('C07', 'pad-y-from-cellsize-x', 'proximity.py', "pad_y = int(max_distance / cellsize_y + 0.5)", "pad_y = int(max_distance / cellsize_x + 0.5)", 'P7a')
M('C07', 'pad-minus-one', 'proximity.py', "pad_x = int(max_distance / cellsize_x + 0.5)", "pad_x = int(max_distance / cellsize_x) - 1", 'P7a')
M('C07', 'pad-truncated-half', 'proximity.py', "pad_x = int(max_distance / cellsize_x + 0.5)", "pad_x = int(max_distance / cellsize_x - 0.5)", 'P7a')
M('C07', 'depth-swapped', 'proximity.py', "depth=(pad_y, pad_x),", "depth=(pad_x, pad_y),", 'P7a')
M('C07', 'res-unpack-swapped', 'proximity.py', "            cellsize_x, cellsize_y = get_dataarray_resolution(raster)\n            # calculate padding", "            cellsize_y, cellsize_x = get_dataarray_resolution(raster)\n            # calculate padding", 'P7a')
M('C07', 'boundary-zero', 'proximity.py', "            depth=(pad_y, pad_x),\n            boundary=np.nan,", "            depth=(pad_y, pad_x),\n            boundary=0,", 'H2')
M('C07', 'fallback-no-ys-rechunk', 'proximity.py', "            ys = ys.rechunk({0: height, 1: width})\n", "", 'P7b')
M('C07', 'fallback-inverted', 'proximity.py', "        if max_distance >= max_possible_distance:", "        if max_distance <= max_possible_distance:")
M('C07', 'fallback-diagonal-one-axis', 'proximity.py', "        xs[0][0], xs[-1][-1], ys[0][0], ys[-1][-1], distance_metric", "        xs[0][0], xs[-1][-1], ys[0][0], ys[0][0], distance_metric", 'P7b')
M('C07', 'grids-swapped-in-overlap', 'proximity.py', "            raster.data, xs, ys,", "            raster.data, ys, xs,", 'P7-args')
T('C07', 'grid-chunks-differ', 'proximity.py', "        ys = da.from_array(ys, chunks=(raster.chunks))", "        ys = da.from_array(ys, chunks='auto')")
T('C07', 'fallback-pad-nonzero', 'proximity.py', "            pad_y = pad_x = 0", "            pad_y = 0\n            pad_x = 1")
M('C07', 'ys-grid-tiled', 'proximity.py', "ys = np.repeat(raster[y].data, raster.shape[1]).reshape(raster.shape)", "ys = np.tile(raster[y].data, raster.shape[1]).reshape(raster.shape)", 'P7-grid')
T('C07', 'pad-ceil', 'proximity.py', "pad_y = int(max_distance / cellsize_y + 0.5)", "pad_y = int(np.ceil(max_distance / cellsize_y))")
T('C07', 'pad-plus-one', 'proximity.py', "pad_x = int(max_distance / cellsize_x + 0.5)", "pad_x = int(max_distance / cellsize_x + 1)")
T('C18', 'trim-cols-within-rows', 'zonal.py', "        left = x\n        for y in range(rows):", "        left = x\n        for y in range(top, bottom + 1):")
M('C18', 'trim-cols-within-rows-short', 'zonal.py', "        left = x\n        for y in range(rows):", "        left = x\n        for y in range(top, bottom):", 'T2-line')

# ------------------------------------------------------------------------------------------------ C02 / C03 / C04 (zonal)
M('C04', 'cat-cursor-under-if', 'zonal.py', "            crosstab_dict[cat].append(count)\n        cat_start = zone_cat_breaks[j]", "            crosstab_dict[cat].append(count)\n            cat_start = zone_cat_breaks[j]", 'Z1')
M('C02', 'stats-cursor-under-if', 'zonal.py', "            if len(zone_values) > 0:\n                results[i] = func(zone_values)\n        start = end", "            if len(zone_values) > 0:\n                results[i] = func(zone_values)\n            start = end", 'Z1')
M('C04', 'crosstab-label-request-order', 'zonal.py', "        zone_ids = [z for z in unique_zones if z in zone_ids]", "        zone_ids = [z for z in zone_ids if z in unique_zones]", 'Z2')
M('C03', 'dask-select-ids-swapped', 'zonal.py', "        zone_ids = _select_ids(zone_ids, unique_zones)", "        zone_ids = _select_ids(unique_zones, zone_ids)", 'Z2')
M('C02', 'stats-label-unsorted', 'zonal.py', "        zone_ids = np.unique(zone_ids)\n", "        zone_ids = list(zone_ids)\n", 'Z2')
M('C02', 'filter-no-nodata', 'zonal.py', "            zone_values = zone_values[np.isfinite(zone_values) & (zone_values != nodata_values)]", "            zone_values = zone_values[np.isfinite(zone_values)]", 'Z3')
M('C02', 'filter-isnan-only', 'zonal.py', "            zone_values = zone_values[np.isfinite(zone_values) & (zone_values != nodata_values)]", "            zone_values = zone_values[~np.isnan(zone_values) & (zone_values != nodata_values)]", 'Z3')
M('C04', 'crosstab3d-filter-dropped', 'zonal.py', "            zone_cat_data = zone_cat_data[\n                np.isfinite(zone_cat_data)\n                & (zone_cat_data != nodata_values)\n            ]\n", "", 'Z3')
M('C04', 'findcats-no-finite', 'zonal.py', "            np.isfinite(values.data) & (values.data != nodata_values)\n", "            (values.data != nodata_values)\n", 'Z3')
M('C02', 'unique-zones-nonfinite', 'zonal.py', "    unique_zones = np.unique(zones[np.isfinite(zones)])\n    # selected zones to do analysis\n    if zone_ids is None:\n        zone_ids = unique_zones\n    else:\n        zone_ids = np.unique(zone_ids)", "    unique_zones = np.unique(zones)\n    # selected zones to do analysis\n    if zone_ids is None:\n        zone_ids = unique_zones\n    else:\n        zone_ids = np.unique(zone_ids)", 'Z4')
M('C02', 'index-space-values-unfiltered', 'zonal.py', "    sorted_indices = sorted_indices[np.isfinite(sorted_zones)]\n", "", 'Z4b')
M('C02', 'results-zero-init', 'zonal.py', "    results = np.full(unique_zones.shape, np.nan)", "    results = np.zeros(unique_zones.shape)", 'Z5')
M('C02', 'empty-guard-removed', 'zonal.py', "            if len(zone_values) > 0:\n                results[i] = func(zone_values)", "            if True:\n                results[i] = func(zone_values)", 'Z5')
M('C02', 'default-std-is-var', 'zonal.py', "    std=lambda z: z.std(),\n    var=lambda z: z.var(),\n    count", "    std=lambda z: z.var(),\n    var=lambda z: z.var(),\n    count", 'ZT')
M('C02', 'strides-bound-after', 'zonal.py', "        while (count < num_elements) and (\n                flatten_zones[count] == unique_zones[i]):", "        while (flatten_zones[count] == unique_zones[i]) and (\n                count < num_elements):", 'ZS')
M('C02', 'scatter-first-zone', 'zonal.py', "                    zs = sorted_indices[zone_breaks[iz-1]: zone_breaks[iz]]", "                    zs = sorted_indices[zone_breaks[iz-1] + 1: zone_breaks[iz]]", 'Z-scatter')
M('C03', 'merge-max-by-nanmin', 'zonal.py', "    max=lambda block_maxes: np.nanmax(block_maxes, axis=0),", "    max=lambda block_maxes: np.nanmin(block_maxes, axis=0),", 'Z6a')
M('C03', 'merge-sumsq-nanmax', 'zonal.py', "    sum_squares=lambda block_sum_squares: _nansum_or_nan(block_sum_squares),", "    sum_squares=lambda block_sum_squares: np.nanmax(block_sum_squares, axis=0),", 'Z6a')
M('C03', 'merge-axis-1', 'zonal.py', "    min=lambda block_mins: np.nanmin(block_mins, axis=0),", "    min=lambda block_mins: np.nanmin(block_mins, axis=1),", 'Z6a')
M('C03', 'merge-plain-nansum', 'zonal.py', "    count=lambda block_counts: _nansum_or_nan(block_counts),", "    count=lambda block_counts: np.nansum(block_counts, axis=0),", 'Z6c')
M('C03', 'sumsq-raw-dtype', 'zonal.py', "    sum_squares=lambda z: (z.astype(np.float64)**2).sum()", "    sum_squares=lambda z: (z**2).sum()", 'Z6d')
M('C03', 'dask-var-no-n', 'zonal.py', "def _dask_var(sum_squares, squared_sum, n): return (sum_squares - squared_sum/n) / n  # noqa", "def _dask_var(sum_squares, squared_sum, n): return (sum_squares - squared_sum) / n  # noqa", 'Z6b')
M('C03', 'dask-std-args-swapped', 'zonal.py', "        stats_dict['std'] = _dask_std(\n            stats_dict['sum_squares'], stats_dict['sum'] ** 2, stats_dict['count']", "        stats_dict['std'] = _dask_std(\n            stats_dict['sum'] ** 2, stats_dict['sum_squares'], stats_dict['count']", 'Z6b')
M('C03', 'per-block-unique', 'zonal.py', "    _, values_by_zones, zone_breaks = _sort_and_stride(zones_block, values_block, unique_zones)\n    results = _calc_stats(", "    unique_zones = np.unique(zones_block[np.isfinite(zones_block)])\n    _, values_by_zones, zone_breaks = _sort_and_stride(zones_block, values_block, unique_zones)\n    results = _calc_stats(", 'Z7')
M('C03', 'merge-skip-total', 'zonal.py', "        for k in crosstab_by_block[i]:\n            result[k] += crosstab_by_block[i][k]", "        for k in cat_ids:\n            result[k] += crosstab_by_block[i][k]", 'Z8')
M('C03', 'merge-from-2', 'zonal.py', "    for i in range(1, len(crosstab_by_block)):", "    for i in range(2, len(crosstab_by_block)):", 'Z8')
M('C03', 'alignment-removed-2d', 'zonal.py', "    elif isinstance(values.data, da.Array):\n        # 2D dask case, make sure `values` blocks line up with `zones` blocks\n        validate_arrays(zones, values)\n", "", 'Z9')
M('C03', 'stats-no-validate', 'zonal.py', "    validate_arrays(zones, values)\n\n    if not (\n        issubclass(zones.data.dtype.type, np.integer)", "    if not (\n        issubclass(zones.data.dtype.type, np.integer)", 'Z9')
M('C04', 'count-wrong-key', 'zonal.py', "            crosstab_dict[cat].append(count)\n        cat_start", "            crosstab_dict[j].append(count)\n        cat_start", 'X-key')
M('C04', 'pct-times-1', 'zonal.py', "            crosstab_dict[cat] = crosstab_dict[cat] / crosstab_dict[TOTAL_COUNT] * 100  # noqa", "            crosstab_dict[cat] = crosstab_dict[cat] / crosstab_dict[TOTAL_COUNT]  # noqa", 'Z8-pct')
M('C04', 'agg-fixed-count', 'zonal.py', "crosstab_dict, _DEFAULT_STATS[agg]  # noqa", "crosstab_dict, _DEFAULT_STATS['count']  # noqa", 'X-agg')
T('C02', 'filter-conjuncts-swapped', 'zonal.py', "            zone_values = zone_values[np.isfinite(zone_values) & (zone_values != nodata_values)]", "            zone_values = zone_values[(zone_values != nodata_values) & np.isfinite(zone_values)]")
T('C03', 'var-rearranged', 'zonal.py', "def _dask_var(sum_squares, squared_sum, n): return (sum_squares - squared_sum/n) / n  # noqa", "def _dask_var(sum_squares, squared_sum, n): return sum_squares / n - squared_sum / (n * n)  # noqa")
T('C04', 'cursor-before-if', 'zonal.py', "    for j, cat in enumerate(unique_cats):\n        if cat in cat_ids:\n            count = zone_cat_breaks[j] - cat_start\n            crosstab_dict[cat].append(count)\n        cat_start = zone_cat_breaks[j]", "    for j, cat in enumerate(unique_cats):\n        prev = cat_start\n        cat_start = zone_cat_breaks[j]\n        if cat in cat_ids:\n            count = zone_cat_breaks[j] - prev\n            crosstab_dict[cat].append(count)")

T('C01', 'apply-pads-genexp', 'focal.py', "    pad_h = kernel.shape[0] // 2\n    pad_w = kernel.shape[1] // 2\n\n    out = data.map_overlap(_func,", "    pad_h, pad_w = (s // 2 for s in kernel.shape)\n\n    out = data.map_overlap(_func,")
M('C01', 'apply-pads-genexp-swapped', 'focal.py', "    pad_h = kernel.shape[0] // 2\n    pad_w = kernel.shape[1] // 2\n\n    out = data.map_overlap(_func,", "    pad_w, pad_h = (s // 2 for s in kernel.shape)\n\n    out = data.map_overlap(_func,", 'H1')
M('C01', 'conv-dask-no-cast', 'convolution.py', "def _convolve_2d_dask_numpy(data, kernel):\n    data = data.astype(np.float32)\n", "def _convolve_2d_dask_numpy(data, kernel):\n", 'H2f')
M('C01', 'validate-chunksize', 'utils.py', "            if first_array.chunks != arrays[i].chunks:", "            if first_array.data.chunksize != arrays[i].data.chunksize:", 'H5')
M('C08', 'slope-dask-no-cast', 'slope.py', "                    cellsize_y: Union[int, float]) -> da.Array:\n    data = data.astype(np.float32)\n", "                    cellsize_y: Union[int, float]) -> da.Array:\n", 'L8-dask')
M('C08', 'aspect-dask-reflect', 'aspect.py', "boundary=np.nan,", "boundary='reflect',", 'L8-dask')
T('C01', 'mean-cast-float32', 'focal.py', "    out = agg.data.astype(float)\n", "    out = agg.data.astype(np.float32)\n")

# ------------------------------------------------------------------------------------------------ C12
M('C12', 'jenks-float32-breaks', 'classify.py', "kclass = np.zeros(n_classes + 1, dtype=np.float64)", "kclass = np.zeros(n_classes + 1, dtype=np.float32)", 'K3')
M('C12', 'bin-no-finite-guard', 'classify.py', "            if np.isfinite(val):\n                if val <= bins[0]:", "            if True:\n                if val <= bins[0]:", 'K1')
M('C12', 'bin-zero-init', 'classify.py', "    out = np.zeros(data.shape, dtype=np.float32)\n    out[:] = np.nan\n    rows, cols = data.shape\n    nbins = len(bins)", "    out = np.zeros(data.shape, dtype=np.float32)\n    rows, cols = data.shape\n    nbins = len(bins)", 'K1')
M('C12', 'quantile-labels-from-1', 'classify.py', "out = _bin(agg, bins=q, new_values=np.arange(k))", "out = _bin(agg, bins=q, new_values=np.arange(1, k + 1))", 'K2')
M('C12', 'natural-last-break-not-max', 'classify.py', "        bins = np.array(centroids[1:])\n        bins[-1] = max_data\n", "        bins = np.array(centroids[1:])\n", 'K3')
M('C12', 'equal-interval-last-cut', 'classify.py', "        cuts[-1] = max_data\n", "", 'K3')
M('C12', 'equal-interval-width', 'classify.py', "width = (max_data - min_data) * 1.0 / k", "width = (max_data - min_data) * 1.0 / (k - 1)", 'K4')
M('C12', 'quantile-no-cap', 'classify.py', "    if p[-1] > 100.0:\n        p[-1] = 100.0\n", "", 'K4')
M('C12', 'quantile-with-inf', 'classify.py', "q = module.percentile(data[module.isfinite(data)], p)", "q = module.percentile(data[~module.isnan(data)], p)", 'K4')
M('C12', 'binary-zero-for-nan', 'classify.py', "            elif np.isfinite(data[y, x]):\n                out[y, x] = 0", "            else:\n                out[y, x] = 0", 'K4-binary')
M('C12', 'bin-first-lt', 'classify.py', "                if val <= bins[0]:", "                if val < bins[0]:", 'K4-bin')
M('C12', 'bin-narrow-val', 'classify.py', "            val = data[y, x]\n            val_bin = -1", "            val = np.float32(data[y, x])\n            val_bin = -1")
M('C12', 'reclassify-no-length-check', 'classify.py', "    if len(bins) != len(new_values):\n        raise ValueError(\n            'bins and new_values mismatch. Should have same length.'\n        )\n", "", 'K2')
M('C12', 'equal-interval-inf-kept', 'classify.py', "    data = module.where(data == inf, nan, data)\n", "", 'K4')
T('C12', 'jenks-default-dtype', 'classify.py', "kclass = np.zeros(n_classes + 1, dtype=np.float64)", "kclass = np.zeros(n_classes + 1)")
T('C12', 'bin-ge0', 'classify.py', "            if val_bin > -1:\n                out[y, x] = new_values[val_bin]", "            if val_bin >= 0:\n                out[y, x] = new_values[val_bin]")

# ------------------------------------------------------------------------------------------------ C16
M('C16', 'regions-labels-input-dtype', 'zonal.py', "    out = np.zeros(data.shape, dtype=np.float64)\n    rows, cols = data.shape\n    uid = 1", "    out = np.zeros_like(data)\n    rows, cols = data.shape\n    uid = 1", 'Q1')
M('C16', 'regions-window-input-dtype', 'zonal.py', "    area_window = np.zeros(shape=(n,), dtype=np.float64)", "    area_window = np.zeros(shape=(n,), dtype=data.dtype)", 'Q1')
M('C16', 'regions-tolerance-always', 'zonal.py', "            if exact:\n                # integer rasters: same value means equal\n                is_close = src_window == val\n            else:\n                is_close = np.abs(src_window - val) <= (atol + rtol * np.abs(val))\n            neighbor_matches = np.where(is_close)[0]\n\n            if len(neighbor_matches) > 0:",
  "            is_close = np.abs(src_window - val) <= (atol + rtol * np.abs(val))\n            neighbor_matches = np.where(is_close)[0]\n\n            if len(neighbor_matches) > 0:", 'Q2')
M('C16', 'regions-flag-floating', 'zonal.py', "exact = bool(np.issubdtype(raster.data.dtype, np.integer))", "exact = bool(np.issubdtype(raster.data.dtype, np.floating))", 'Q2')
M('C16', 'regions-slot2-mismatch', 'zonal.py', "                area_window[2] = out[min(y + 1, rows - 1), max(x - 1, 0)]\n                area_window[3] = out[max(y - 1, 0), x]\n                area_window[4] = out[min(y + 1, rows - 1), x]\n                area_window[5] = out[max(y - 1, 0), min(x + 1, cols - 1)]\n                area_window[6] = out[y, min(x + 1, cols - 1)]\n                area_window[7] = out[min(y + 1, rows - 1), min(x + 1, cols - 1)]  # noqa\n\n            else:\n                src_window[0] = data[y, max(x - 1, 0)]\n                src_window[1] = data[max(y - 1, 0), x]\n                src_window[2] = data[min(y + 1, rows - 1), x]\n                src_window[3] = data[y, min(x + 1, cols - 1)]\n\n                area_window[0] = out[y, max(x - 1, 0)]\n                area_window[1] = out[max(y - 1, 0), x]\n                area_window[2] = out[min(y + 1, rows - 1), x]\n                area_window[3] = out[y, min(x + 1, cols - 1)]\n\n            # check in",
  "                area_window[2] = out[max(y - 1, 0), max(x - 1, 0)]\n                area_window[3] = out[max(y - 1, 0), x]\n                area_window[4] = out[min(y + 1, rows - 1), x]\n                area_window[5] = out[max(y - 1, 0), min(x + 1, cols - 1)]\n                area_window[6] = out[y, min(x + 1, cols - 1)]\n                area_window[7] = out[min(y + 1, rows - 1), min(x + 1, cols - 1)]  # noqa\n\n            else:\n                src_window[0] = data[y, max(x - 1, 0)]\n                src_window[1] = data[max(y - 1, 0), x]\n                src_window[2] = data[min(y + 1, rows - 1), x]\n                src_window[3] = data[y, min(x + 1, cols - 1)]\n\n                area_window[0] = out[y, max(x - 1, 0)]\n                area_window[1] = out[max(y - 1, 0), x]\n                area_window[2] = out[min(y + 1, rows - 1), x]\n                area_window[3] = out[y, min(x + 1, cols - 1)]\n\n            # check in", 'R1', first=True)
M('C16', 'regions-clamp-wrong-axis', 'zonal.py', "                src_window[3] = data[y, min(x + 1, cols - 1)]\n\n                area_window[0] = out[y, max(x - 1, 0)]", "                src_window[3] = data[y, min(x + 1, rows - 1)]\n\n                area_window[0] = out[y, max(x - 1, 0)]", 'R1', first=True)
M('C16', 'regions-uid-zero', 'zonal.py', "    rows, cols = data.shape\n    uid = 1\n", "    rows, cols = data.shape\n    uid = 0\n", 'R2')
M('C16', 'regions-uid-not-advanced', 'zonal.py', "            else:\n                out[y, x] = uid\n                uid += 1\n\n    for y in range(0, rows):", "            else:\n                out[y, x] = uid\n\n    for y in range(0, rows):", 'R2')
M('C16', 'regions-merge-break', 'zonal.py', "                        assigned_values_min = area_val\n\n                    else:", "                        assigned_values_min = area_val\n                        break\n\n                    else:", 'R3')
M('C16', 'regions-merge-one-way', 'zonal.py', "                    else:\n                        # replace\n                        for y1 in range(0, rows):\n                            for x1 in range(0, cols):\n                                if out[y1, x1] == area_val:\n                                    out[y1, x1] = assigned_values_min\n", "                    else:\n                        pass\n", 'R3')
M('C16', 'regions-replace-partial', 'zonal.py', "                        # replace\n                        for y1 in range(0, rows):\n                            for x1 in range(0, cols):\n                                if out[y1, x1] == assigned_values_min:", "                        # replace\n                        for y1 in range(0, y + 1):\n                            for x1 in range(0, cols):\n                                if out[y1, x1] == assigned_values_min:", 'R3')
M('C16', 'regions-pass2-4-table-differs', 'zonal.py', "                src_window[1] = data[max(y - 1, 0), x]\n                src_window[2] = data[min(y + 1, rows - 1), x]\n                src_window[3] = data[y, min(x + 1, cols - 1)]\n\n                area_window[0] = out[y, max(x - 1, 0)]\n                area_window[1] = out[max(y - 1, 0), x]\n                area_window[2] = out[min(y + 1, rows - 1), x]\n                area_window[3] = out[y, min(x + 1, cols - 1)]\n\n            val = data[y, x]",
  "                src_window[1] = data[max(y - 1, 0), x]\n                src_window[2] = data[max(y - 1, 0), x]\n                src_window[3] = data[y, min(x + 1, cols - 1)]\n\n                area_window[0] = out[y, max(x - 1, 0)]\n                area_window[1] = out[max(y - 1, 0), x]\n                area_window[2] = out[max(y - 1, 0), x]\n                area_window[3] = out[y, min(x + 1, cols - 1)]\n\n            val = data[y, x]", 'R1')
T('C16', 'regions-labels-int64', 'zonal.py', "    out = np.zeros(data.shape, dtype=np.float64)\n    rows, cols = data.shape\n    uid = 1", "    out = np.zeros(data.shape, dtype=np.int64)\n    rows, cols = data.shape\n    uid = 1")
M('C02', 'ravel-order-K', 'zonal.py', "    flatten_zones = zones.ravel()\n", "    flatten_zones = zones.ravel(order='K')\n", 'Z-flat')
M('C04', 'crosstab3d-enumerate-selection', 'zonal.py', "    # 2D flatten `zone_values`, i.e, original data is 3D\n    for j, cat in enumerate(unique_cats):\n        if cat in cat_ids:", "    # 2D flatten `zone_values`, i.e, original data is 3D\n    for j, cat in enumerate(cat_ids):\n        if cat in unique_cats:", 'X-key')
M('C03', 'block-early-out-sorted-ids', 'zonal.py', "    _, values_by_zones, zone_breaks = _sort_and_stride(zones_block, values_block, unique_zones)\n    results = _calc_stats(", "    if np.nanmax(zones_block) < zone_ids[0] or np.nanmin(zones_block) > zone_ids[-1]:\n        return np.full(unique_zones.shape, np.nan)\n    _, values_by_zones, zone_breaks = _sort_and_stride(zones_block, values_block, unique_zones)\n    results = _calc_stats(", 'Z2b')
T('C02', 'ravel-order-C', 'zonal.py', "    flatten_zones = zones.ravel()\n", "    flatten_zones = zones.ravel(order='C')\n")

# ------------------------------------------------------------------------------------------------ C14
M('C14', 'pixel-id-truncate', 'pathfinding.py', "    py = int(abs(point[0] - y_coords[0]) / cellsize_y + 0.5)", "    py = int(abs(point[0] - y_coords[0]) / cellsize_y)", 'A1')
M('C14', 'pixel-id-wrong-cellsize', 'pathfinding.py', "    px = int(abs(point[1] - x_coords[0]) / cellsize_x + 0.5)", "    px = int(abs(point[1] - x_coords[0]) / cellsize_y + 0.5)", 'A1')
M('C14', 'pixel-id-res-swapped', 'pathfinding.py', "    cellsize_x, cellsize_y = get_dataarray_resolution(raster, xdim, ydim)", "    cellsize_y, cellsize_x = get_dataarray_resolution(raster, xdim, ydim)", 'A1')
M('C14', 'heuristic-manhattan', 'pathfinding.py', "    return _distance(x1, y1, x2, y2)\n\n\n@ngjit\ndef _min_cost_pixel_id", "    return abs(x1 - x2) + abs(y1 - y2)\n\n\n@ngjit\ndef _min_cost_pixel_id", 'A2')
M('C14', 'heuristic-overweighted', 'pathfinding.py', "    return _distance(x1, y1, x2, y2)\n\n\n@ngjit\ndef _min_cost_pixel_id", "    return 1.5 * _distance(x1, y1, x2, y2)\n\n\n@ngjit\ndef _min_cost_pixel_id", 'A2')
M('C14', 'table8-missing-diagonal', 'pathfinding.py', "        neighbor_xs = [-1, -1, -1, 0, 0, 1, 1, 1]\n        neighbor_ys = [-1, 0, 1, -1, 1, -1, 0, 1]", "        neighbor_xs = [-1, -1, -1, 0, 0, 1, 1, 1]\n        neighbor_ys = [-1, 0, 1, -1, 1, -1, 0, -1]", 'A3')
M('C14', 'path-holds-f-cost', 'pathfinding.py', "            _reconstruct_path(path_img, parent_ys, parent_xs,\n                              d_from_start, start_py, start_px,", "            _reconstruct_path(path_img, parent_ys, parent_xs,\n                              cost, start_py, start_px,", 'A4')
M('C14', 'closed-test-removed', 'pathfinding.py', "            # check if neighbor is in the closed list\n            if is_closed[neighbor_y, neighbor_x]:\n                continue\n", "", 'A5')
M('C14', 'crossable-test-removed', 'pathfinding.py', "            # walkable\n            if _is_not_crossable(data[neighbor_y][neighbor_x], barriers):\n                continue\n", "", 'A5')
M('C14', 'bounds-wrong-extent', 'pathfinding.py', "            if neighbor_y > height - 1 or neighbor_y < 0 \\\n                    or neighbor_x > width - 1 or neighbor_x < 0:", "            if neighbor_y > width - 1 or neighbor_y < 0 \\\n                    or neighbor_x > height - 1 or neighbor_x < 0:", 'A5')
M('C14', 'parent-swapped', 'pathfinding.py', "            parent_ys[neighbor_y, neighbor_x] = py\n            parent_xs[neighbor_y, neighbor_x] = px", "            parent_ys[neighbor_y, neighbor_x] = px\n            parent_xs[neighbor_y, neighbor_x] = py", 'A5')
M('C14', 'snap-min-attainable', 'pathfinding.py', "    min_distance = np.inf\n", "    min_distance = _distance(0, 0, height - 1, width - 1)\n", 'A6')
M('C14', 'nan-crossable', 'pathfinding.py', "    # nan cell is not walkable\n    if np.isnan(cell_value):\n        return True\n", "", 'A5')
M('C14', 'start-cost-one', 'pathfinding.py', "        d_from_start[start_py, start_px] = 0\n", "        d_from_start[start_py, start_px] = 1\n", 'A4')
T('C14', 'pixel-id-round', 'pathfinding.py', "    py = int(abs(point[0] - y_coords[0]) / cellsize_y + 0.5)", "    py = int(round(abs(point[0] - y_coords[0]) / cellsize_y))")
T('C14', 'bounds-ge', 'pathfinding.py', "            if neighbor_y > height - 1 or neighbor_y < 0 \\\n                    or neighbor_x > width - 1 or neighbor_x < 0:", "            if neighbor_y >= height or neighbor_y < 0 \\\n                    or neighbor_x >= width or neighbor_x < 0:")
T('C14', 'heuristic-zero', 'pathfinding.py', "    return _distance(x1, y1, x2, y2)\n\n\n@ngjit\ndef _min_cost_pixel_id", "    return 0.0\n\n\n@ngjit\ndef _min_cost_pixel_id")

# ------------------------------------------------------------------------------------------------ C19
M('C19', 'euclid-plus', 'proximity.py', "    x = x1 - x2\n    y = y1 - y2\n    return np.sqrt(x * x + y * y)", "    x = x1 + x2\n    y = y1 - y2\n    return np.sqrt(x * x + y * y)", 'V1')
M('C19', 'manhattan-no-abs', 'proximity.py', "    return abs(x) + abs(y)", "    return abs(x) + y", 'V1')
M('C19', 'haversine-lat-from-x', 'proximity.py', "        np.radians(y1),\n        np.radians(x1),\n        np.radians(y2),\n        np.radians(x2),", "        np.radians(x1),\n        np.radians(y1),\n        np.radians(x2),\n        np.radians(y2),", 'V1')
M('C19', 'haversine-guard-lon-90', 'proximity.py', "    if x2 > 180 or x2 < -180:", "    if x2 > 90 or x2 < -90:", 'V2')
M('C19', 'haversine-guard-one-sided', 'proximity.py', "    if y1 > 90 or y1 < -90:", "    if y1 > 90:", 'V2')
M('C19', 'haversine-radius', 'proximity.py', "radius: float = 6378137", "radius: float = 6371000", 'V2')
M('C19', 'dispatch-manhattan-for-gc', 'proximity.py', "    elif metric == GREAT_CIRCLE:\n        d = great_circle_distance(x1, x2, y1, y2)", "    elif metric == GREAT_CIRCLE:\n        d = manhattan_distance(x1, x2, y1, y2)", 'V3')
M('C19', 'dispatch-args-order', 'proximity.py', "        d = euclidean_distance(x1, x2, y1, y2)", "        d = euclidean_distance(x1, y1, x2, y2)", 'V3')
M('C19', 'unit-km-100', 'convolution.py', "KILOMETER = 1000", "KILOMETER = 100", 'U1')
M('C19', 'unit-alias-mismatch', 'convolution.py', "'feet': FOOT, 'foot': FOOT, 'ft': FOOT,", "'feet': FOOT, 'foot': FOOT, 'ft': METER,", 'U1')
M('C19', 'distance-zero-allowed', 'convolution.py', "    if distance <= 0:", "    if distance < 0:", 'U2')
M('C19', 'ellipse-y-not-squared', 'convolution.py', "ellipse = (x * half_h) ** 2 + (y * half_w) ** 2 <= (half_w * half_h) ** 2", "ellipse = (x * half_h) ** 2 + (y * half_w) <= (half_w * half_h) ** 2", 'E1')
M('C19', 'ellipse-halves-swapped', 'convolution.py', "ellipse = (x * half_h) ** 2 + (y * half_w) ** 2 <= (half_w * half_h) ** 2", "ellipse = (x * half_w) ** 2 + (y * half_h) ** 2 <= (half_w * half_h) ** 2", 'E1')
M('C19', 'ellipse-grid-even', 'convolution.py', "x = np.linspace(-half_w, half_w, 2 * half_w + 1)", "x = np.linspace(-half_w, half_w, 2 * half_w)", 'E1')
M('C19', 'ellipse-x-from-height', 'convolution.py', "x = np.linspace(-half_w, half_w, 2 * half_w + 1)", "x = np.linspace(-half_h, half_h, 2 * half_h + 1)", 'E1')
M('C19', 'circle-half-h-from-x', 'convolution.py', "    kernel_half_h = int(r / cellsize_y)", "    kernel_half_h = int(r / cellsize_x)", 'E3')
M('C19', 'annulus-pad-uneven', 'convolution.py', "pad_width=((pad_vals[0] // 2, pad_vals[0] // 2),", "pad_width=((pad_vals[0] // 2, pad_vals[0] - pad_vals[0] // 2 - 1),", 'E4')
M('C19', 'custom-kernel-even-ok', 'convolution.py', "    if (rows % 2 == 0 or cols % 2 == 0):", "    if (rows % 2 == 0 and cols % 2 == 0):", 'E5')
T('C19', 'euclid-pow', 'proximity.py', "    return np.sqrt(x * x + y * y)", "    return (x ** 2 + y ** 2) ** 0.5")
T('C19', 'haversine-dlon-reversed', 'proximity.py', "    dlon = lon2 - lon1", "    dlon = lon1 - lon2")
T('C19', 'ellipse-le-rearranged', 'convolution.py', "ellipse = (x * half_h) ** 2 + (y * half_w) ** 2 <= (half_w * half_h) ** 2", "ellipse = (half_w * half_h) ** 2 >= (y * half_w) ** 2 + (half_h * x) ** 2")

# ------------------------------------------------------------------------------------------------ C09
M('C09', 'apply-transposed-idx', 'focal.py', "                        kyidx, kxidx = ky - (y - hrows), kx - (x - hcols)", "                        kxidx, kyidx = ky - (y - hrows), kx - (x - hcols)", 'F1')
M('C09', 'apply-halves-swapped', 'focal.py', "    hrows, hcols = int(krows / 2), int(kcols / 2)", "    hrows, hcols = int(kcols / 2), int(krows / 2)", 'F1')
M('C09', 'apply-fill-hoisted', 'focal.py', "    for y in prange(rows):\n        for x in prange(cols):\n            # kernel values are all nans at the beginning of each step\n            kernel_values.fill(np.nan)\n", "    kernel_values.fill(np.nan)\n    for y in prange(rows):\n        for x in prange(cols):\n", 'F1')
M('C09', 'apply-bound-wrong-extent', 'focal.py', "                    if ky >= 0 and ky < rows and kx >= 0 and kx < cols:", "                    if ky >= 0 and ky < cols and kx >= 0 and kx < rows:", 'F1')
M('C09', 'apply-kernel-gate-removed', 'focal.py', "                        if kernel[kyidx, kxidx] == 1:\n                            kernel_values[kyidx, kxidx] = data[ky, kx]", "                        if True:\n                            kernel_values[kyidx, kxidx] = data[ky, kx]", 'F1')
M('C09', 'apply-mirrored', 'focal.py', "                            kernel_values[kyidx, kxidx] = data[ky, kx]", "                            kernel_values[kyidx, kxidx] = data[2 * y - ky, kx]")
M('C09', 'mean-clamp-wrong-axis', 'focal.py', "                right = min(x+2, cols)", "                right = min(x+2, rows)", 'F2')
M('C09', 'mean-plain-mean', 'focal.py', "                out[y, x] = np.nanmean(kernel_data)", "                out[y, x] = np.mean(kernel_data)", 'F2')
M('C09', 'mean-equal-plain', 'focal.py', "    if x == y or (np.isnan(x) and np.isnan(y)):\n        return True", "    if x == y:\n        return True", 'F2')
M('C09', 'mean-passes-plus-one', 'focal.py', "    for i in range(passes):\n        out = _mean(out, tuple(excludes))", "    for i in range(passes + 1):\n        out = _mean(out, tuple(excludes))", 'F2')
M('C09', 'mean-excluded-zeroed', 'focal.py', "            else:\n                out[y, x] = data[y, x]\n    return out", "            else:\n                out[y, x] = 0\n    return out", 'F2')
M('C09', 'conv-kernel-flipped', 'convolution.py', "                iii = wkx + ii - i\n", "                iii = wkx - ii + i\n", 'F3')
M('C09', 'conv-kernel-transposed', 'convolution.py', "                    num += kernel[iii, jjj] * data[ii, jj]", "                    num += kernel[jjj, iii] * data[ii, jj]", 'F3')
M('C09', 'conv-loop-from-zero', 'convolution.py', "    for i in prange(wkx, nx-wkx):", "    for i in prange(0, nx-wkx):", 'F3')
M('C09', 'conv-zero-init', 'convolution.py', "    out = np.zeros(data.shape, dtype=np.float32)\n    out[:] = np.nan\n    for i in prange", "    out = np.zeros(data.shape, dtype=np.float32)\n    for i in prange", 'F3')
M('C09', 'stats-std-is-var', 'focal.py', "        'std': _calc_std,", "        'std': _calc_var,", 'F4')
M('C09', 'stats-min-not-nan', 'focal.py', "def _calc_min(array):\n    return np.nanmin(array)", "def _calc_min(array):\n    return np.min(array)", 'F4')
M('C09', 'hotspots-threshold', 'focal.py', "            elif abs(zscore) > 1.96 and p_value < 0.05:", "            elif abs(zscore) > 1.69 and p_value < 0.05:", 'F5')
M('C09', 'hotspots-unsigned', 'focal.py', "            elif zscore < 0:\n                hot_cold = -1", "            elif zscore < 0:\n                hot_cold = 1", 'F5')
M('C09', 'hotspots-local-std', 'focal.py', "    global_std = np.nanstd(data)", "    global_std = np.nanstd(mean_array)", 'F5')
M('C09', 'apply-no-kernel-validation', 'focal.py', "    # Validate the kernel\n    kernel = custom_kernel(kernel)\n\n    # apply kernel to raster values", "    # apply kernel to raster values", 'F6')
T('C09', 'apply-half-floordiv', 'focal.py', "    hrows, hcols = int(krows / 2), int(kcols / 2)", "    hrows, hcols = krows // 2, kcols // 2")
T('C09', 'apply-idx-rearranged', 'focal.py', "                        kyidx, kxidx = ky - (y - hrows), kx - (x - hcols)", "                        kyidx = ky - y + hrows\n                        kxidx = hcols + kx - x")
T('C09', 'conv-accumulate-reordered', 'convolution.py', "                    num += kernel[iii, jjj] * data[ii, jj]", "                    num += data[ii, jj] * kernel[iii, jjj]")

# ------------------------------------------------------------------------------------------------ C06
M('C06', 'target-no-isfinite', 'proximity.py', "            if source_line[pixel] != 0 and np.isfinite(source_line[pixel]):", "            if source_line[pixel] != 0:", 'X6')
M('C06', 'target-memory-swapped', 'proximity.py', "            pan_near_x[pixel] = pixel\n            pan_near_y[pixel] = line_id\n            continue", "            pan_near_x[pixel] = line_id\n            pan_near_y[pixel] = pixel\n            continue", 'X1')
M('C06', 'diagonal-candidate-removed', 'proximity.py', "        if tr != end and pan_near_x[tr] != -1:", "        if False and pan_near_x[tr] != -1:", 'X2')
M('C06', 'half-update', 'proximity.py', "                pan_near_x[pixel] = pan_near_x[last]\n                pan_near_y[pixel] = pan_near_y[last]", "                pan_near_x[pixel] = pan_near_x[last]", 'X2')
M('C06', 'adopt-from-wrong-k', 'proximity.py', "                pan_near_x[pixel] = pan_near_x[tr]\n                pan_near_y[pixel] = pan_near_y[tr]", "                pan_near_x[pixel] = pan_near_x[tr]\n                pan_near_y[pixel] = pan_near_y[last]", 'X2')
M('C06', 'coords-transposed', 'proximity.py', "            x1 = xs[pan_near_y[last], pan_near_x[last]]", "            x1 = xs[pan_near_x[last], pan_near_y[last]]", 'X2')
M('C06', 'update-ignores-max-distance', 'proximity.py', "            and max_distance * max_distance >= near_distance_square\n", "", 'X5')
M('C06', 'update-stores-square', 'proximity.py', "            line_proximity[pixel] = sqrt(near_distance_square)", "            line_proximity[pixel] = near_distance_square", 'X5')
M('C06', 'second-pass-ascending', 'proximity.py', "        for line in prange(height - 1, -1, -1):", "        for line in prange(height):", 'X3')
M('C06', 'both-sweeps-forward', 'proximity.py', "                pan_near_x, pan_near_y, False,\n                line, width, max_distance,\n                line_proximity, nearest_xs, nearest_ys,\n                target_values, distance_metric,\n            )\n\n            for i in prange(width):\n                img_distance[line][i] = line_proximity[i]", "                pan_near_x, pan_near_y, True,\n                line, width, max_distance,\n                line_proximity, nearest_xs, nearest_ys,\n                target_values, distance_metric,\n            )\n\n            for i in prange(width):\n                img_distance[line][i] = line_proximity[i]", 'X3')
M('C06', 'memory-not-reset-between-passes', 'proximity.py', "        # Loop from bottom to top of the image.\n        for i in prange(width):\n            pan_near_x[i] = -1\n            pan_near_y[i] = -1\n", "        # Loop from bottom to top of the image.\n", 'X3')
M('C06', 'allocation-transposed', 'proximity.py', "                            output_img[line][i] = img[\n                                nearest_ys[i], nearest_xs[i]]", "                            output_img[line][i] = img[\n                                nearest_xs[i], nearest_ys[i]]", 'X4')
M('C06', 'nearest-not-reset', 'proximity.py', "            # right to left\n            for i in prange(width):\n                nearest_xs[i] = -1\n                nearest_ys[i] = -1\n", "            # right to left\n", 'X4')
M('C06', 'unreached-zero', 'proximity.py', "                if line_proximity[i] < 0:\n                    line_proximity[i] = np.nan", "                if line_proximity[i] < 0:\n                    line_proximity[i] = 0", 'X5')
M('C06', 'direction-north-is-zero', 'proximity.py', "    d = np.arctan2(-y, x) * 57.29578", "    d = np.arctan2(-y, x) * 57.29577951308232", 'X7')
M('C06', 'direction-y-sign', 'proximity.py', "    d = np.arctan2(-y, x) * 57.29578", "    d = np.arctan2(y, x) * 57.29578", 'X7')
T('C06', 'update-pow2', 'proximity.py', "            and max_distance * max_distance >= near_distance_square\n", "            and max_distance ** 2 >= near_distance_square\n")

# ------------------------------------------------------------------------------------------------ C05
M('C05', 'pos-corner-sign', 'viewshed.py', "        # first quadrant\n        if event_type == ENTERING_EVENT:\n            # if it is ENTERING_EVENT\n            y = event_row - 0.5\n            x = event_col + 0.5", "        # first quadrant\n        if event_type == ENTERING_EVENT:\n            # if it is ENTERING_EVENT\n            y = event_row - 0.5\n            x = event_col - 0.5")
M('C05', 'rowcol-corner-sign', 'viewshed.py', "        # second quadrant\n        if event_type == ENTERING_EVENT:\n            # if it is ENTERING_EVENT\n            y = event_row + 1\n            x = event_col + 1", "        # second quadrant\n        if event_type == ENTERING_EVENT:\n            # if it is ENTERING_EVENT\n            y = event_row + 1\n            x = event_col - 1", 'T1')
M('C05', 'enter-exit-swapped-axis-sector', 'viewshed.py', "        # between the third and fourth quadrant\n        if event_type == ENTERING_EVENT:\n            # if it is ENTERING_EVENT\n            y = event_row - 0.5\n            x = event_col - 0.5\n        else:\n            # if it is EXITING_EVENT\n            y = event_row - 0.5\n            x = event_col + 0.5",
  "        # between the third and fourth quadrant\n        if event_type == ENTERING_EVENT:\n            # if it is ENTERING_EVENT\n            y = event_row - 0.5\n            x = event_col + 0.5\n        else:\n            # if it is EXITING_EVENT\n            y = event_row - 0.5\n            x = event_col - 0.5")
M('C05', 'angle-quadrant-sign', 'viewshed.py', "        # 2nd quadrant\n        return PI - ang", "        # 2nd quadrant\n        return PI + ang", 'T3')
M('C05', 'angle-axis-case', 'viewshed.py', "        # between 3rd and 4th quadrant\n        return PI * 3.0 / 2.0", "        # between 3rd and 4th quadrant\n        return PI / 2.0", 'T3')
M('C05', 'ae-elev-index', 'viewshed.py', "AE_ELEV_1 = 2", "AE_ELEV_1 = 3", 'T4')
M('C05', 'event-width-6', 'viewshed.py', "    event_list = np.zeros((num_events, 7), dtype=np.float64)", "    event_list = np.zeros((num_events, 6), dtype=np.float64)", 'T4')
M('C05', 'split-at-4', 'viewshed.py', "event_aes = np.array(event_list[:, 3:], dtype=np.float64)", "event_aes = np.array(event_list[:, 4:], dtype=np.float64)", 'T4')
M('C05', 'invisible-zero', 'viewshed.py', "INVISIBLE = -1", "INVISIBLE = 0", 'T5')
M('C05', 'vertical-angle-above', 'viewshed.py', "    return atan(abs(diff_elev) / sqrt(distance_to_viewpoint)) * 180 / PI + 90", "    return atan(abs(diff_elev) / distance_to_viewpoint) * 180 / PI + 90", 'T5')
M('C05', 'vertical-angle-level', 'viewshed.py', "    if diff_elev == 0.0:\n        return 90", "    if diff_elev == 0.0:\n        return 0", 'T5')
M('C05', 'grad-res-swapped', 'viewshed.py', "    dx = (col - viewpoint_col) * ew_res\n    dy = (row - viewpoint_row) * ns_res\n    distance_to_viewpoint = (dx * dx) + (dy * dy)\n\n    # PI / 2 above, - PI / 2 below\n    if distance_to_viewpoint == 0:\n        if diff_elev > 0:\n            gradient = PI / 2\n        elif diff_elev < 0:\n            gradient = - PI / 2\n        else:\n            gradient = 0\n    else:\n        gradient = atan(diff_elev / sqrt(distance_to_viewpoint))\n    return gradient",
  "    dx = (col - viewpoint_col) * ns_res\n    dy = (row - viewpoint_row) * ew_res\n    distance_to_viewpoint = (dx * dx) + (dy * dy)\n\n    # PI / 2 above, - PI / 2 below\n    if distance_to_viewpoint == 0:\n        if diff_elev > 0:\n            gradient = PI / 2\n        elif diff_elev < 0:\n            gradient = - PI / 2\n        else:\n            gradient = 0\n    else:\n        gradient = atan(diff_elev / sqrt(distance_to_viewpoint))\n    return gradient", 'T6')
M('C05', 'res-by-width', 'viewshed.py', "    ns_res = (y_range[1] - y_range[0]) / (height - 1)", "    ns_res = (y_range[1] - y_range[0]) / (width - 1)", 'T6')
M('C05', 'lexsort-keys-swapped', 'viewshed.py', "np.lexsort((event_list[:, E_TYPE_ID],\n                                        event_list[:, E_ANG_ID]))", "np.lexsort((event_list[:, E_ANG_ID],\n                                        event_list[:, E_TYPE_ID]))", 'T7')
M('C05', 'event-type-order', 'viewshed.py', "ENTERING_EVENT = 1\nEXITING_EVENT = -1", "ENTERING_EVENT = -1\nEXITING_EVENT = 1")
M('C05', 'observer-elev-raw-dtype', 'viewshed.py', "    viewpoint_elev = float(raster.values[y_view, x_view]) + observer_elev", "    viewpoint_elev = raster.values[y_view, x_view] + observer_elev", 'T10')
M('C05', 'visibility-test-strict', 'viewshed.py', "            if max <= status_node[TN_GRAD_1]:", "            if max < status_node[TN_GRAD_1]:", 'T5')
M('C05', 'angle-args-swapped', 'viewshed.py', "            e[E_ANG_ID] = _calculate_angle(ax, ay, vp_col, vp_row)\n            event_list[count_event] = e\n            count_event += 1\n\n            e[E_TYPE_ID] = CENTER_EVENT", "            e[E_ANG_ID] = _calculate_angle(ay, ax, vp_row, vp_col)\n            event_list[count_event] = e\n            count_event += 1\n\n            e[E_TYPE_ID] = CENTER_EVENT", 'T3')
T('C05', 'observer-elev-float64', 'viewshed.py', "    viewpoint_elev = float(raster.values[y_view, x_view]) + observer_elev", "    viewpoint_elev = np.float64(raster.values[y_view, x_view]) + observer_elev")

# ------------------------------------------------------------------------------------------------ C15
M('C15', 'sw-region-read-wrong-offset', 'experimental/polygonize.py', "                    region_W = regions[ij-nx-1]", "                    region_W = regions[ij-nx+1]", 'G1')
M('C15', 'se-guard-missing', 'experimental/polygonize.py', "                if (not matches_S and ij % nx < nx-1 and", "                if (not matches_S and", 'G1')
M('C15', 'w-mask-wrong-offset', 'experimental/polygonize.py', "                    (mask is None or mask[ij-1]) and     # W pixel in mask", "                    (mask is None or mask[ij]) and     # W pixel in mask", 'G1')
M('C15', 's-value-wrong-offset', 'experimental/polygonize.py', "                    _is_close(values[ij], values[ij-nx]))", "                    _is_close(values[ij], values[ij-1]))", 'G1')
M('C15', 'hole-not-transformed', 'experimental/polygonize.py', "            region, points = _follow(regions, visited, nx, ny, ij-nx, True)\n            if transform is not None:\n                _transform_points(points, transform)\n", "            region, points = _follow(regions, visited, nx, ny, ij-nx, True)\n", 'G3')
M('C15', 'transform-inplace-hazard', 'experimental/polygonize.py', "        x = transform[0]*pts[i, 0] + transform[1]*pts[i, 1] + transform[2]\n        y = transform[3]*pts[i, 0] + transform[4]*pts[i, 1] + transform[5]\n        pts[i, 0] = x\n        pts[i, 1] = y", "        pts[i, 0] = transform[0]*pts[i, 0] + transform[1]*pts[i, 1] + transform[2]\n        pts[i, 1] = transform[3]*pts[i, 0] + transform[4]*pts[i, 1] + transform[5]", 'G3')
M('C15', 'transform-coeff-swapped', 'experimental/polygonize.py', "        y = transform[3]*pts[i, 0] + transform[4]*pts[i, 1] + transform[5]", "        y = transform[4]*pts[i, 0] + transform[3]*pts[i, 1] + transform[5]", 'G3')
M('C15', 'ring-not-closed', 'experimental/polygonize.py', "    points[-1] = points[0]  # End point the same as start point.\n", "", 'G4')
M('C15', 'hole-orientation', 'experimental/polygonize.py', "            forward = -1  # Facing W along N edge.\n            left = -nx", "            forward = -1  # Facing W along N edge.\n            left = nx", 'G4')
M('C15', 'corner-offset', 'experimental/polygonize.py', "                    elif forward == nx:\n                        i += 1", "                    elif forward == nx:\n                        j += 1", 'G4')
M('C15', 'column-from-wrong-cell', 'experimental/polygonize.py', "            column.append(values[ij])", "            column.append(values[ij-1])", 'G5')
M('C15', 'hole-wrong-polygon', 'experimental/polygonize.py', "            polygons[region-1].append(points)", "            polygons[region].append(points)", 'G5')
M('C15', 'regions-input-dtype', 'experimental/polygonize.py', "    regions = np.zeros_like(values, dtype=_regions_dtype)", "    regions = np.zeros_like(values)", 'G2')
M('C15', 'merge-keeps-upper', 'experimental/polygonize.py', "                regions[ij] = lower_region\n", "                regions[ij] = upper_region\n", 'G2')
M('C15', 'isclose-int-tolerance', 'experimental/polygonize.py', "        return lambda reference, value: value == reference", "        return lambda reference, value: abs(value - reference) <= 1", 'G6')
M('C15', 'conn8-inverted', 'experimental/polygonize.py', "    connectivity_8 = (connectivity == 8)", "    connectivity_8 = (connectivity == 4)", 'G7')
M('C15', 'shape-swapped', 'experimental/polygonize.py', "    ny, nx = values.shape\n    if nx == 1:", "    nx, ny = values.shape\n    if nx == 1:", 'G7')
M('C12', 'bins-cast-to-data-dtype', 'classify.py', "    bins = np.asarray(bins)\n    new_values = np.asarray(new_values)\n    out = _cpu_bin(", "    bins = np.asarray(bins, dtype=data.dtype)\n    new_values = np.asarray(new_values)\n    out = _cpu_bin(", 'K3')
T('C12', 'bins-cast-float64', 'classify.py', "    bins = np.asarray(bins)\n    new_values = np.asarray(new_values)\n    out = _cpu_bin(", "    bins = np.asarray(bins, dtype=np.float64)\n    new_values = np.asarray(new_values)\n    out = _cpu_bin(")
M('C12', 'natural-breaks-sorts-input', 'classify.py', "        sample_data = data.flatten()\n\n    # warning", "        sample_data = data.ravel()\n\n    # warning", 'K6',
  edits=[('xrspatial/classify.py', "        sample_data = data.flatten()\n\n    # warning", "        sample_data = data.ravel()\n\n    # warning"),
         ('xrspatial/classify.py', "    sample_data = sample_data[np.isfinite(sample_data)]\n    uv = np.unique(sample_data)", "    if not np.isfinite(sample_data).all():\n        sample_data = sample_data[np.isfinite(sample_data)]\n    uv = np.unique(sample_data)")])
M('C09', 'apply-dask-pads-swapped', 'focal.py', "    pad_h = kernel.shape[0] // 2\n    pad_w = kernel.shape[1] // 2\n\n    out = data.map_overlap(_func,", "    pad_w, pad_h = (s // 2 for s in kernel.shape)\n\n    out = data.map_overlap(_func,", 'H1')
M('C09', 'mean-equal-tolerance', 'focal.py', "    if x == y or (np.isnan(x) and np.isnan(y)):\n        return True", "    if abs(x - y) <= 1e-6 or (np.isnan(x) and np.isnan(y)):\n        return True", 'F2')
M('C19', 'annulus-inplace-subtract', 'convolution.py', "    kernel = kernel_outer - pad_kernel", "    kernel = np.subtract(kernel_outer, pad_kernel, out=kernel_outer)", 'E4')
M('C19', 'great-circle-law-of-cosines', 'proximity.py', "    return radius * 2 * np.arcsin(np.sqrt(a))", "    return radius * np.arccos(min(1.0, max(-1.0, np.sin(lat1) * np.sin(lat2) + np.cos(lat1) * np.cos(lat2) * np.cos(dlon))))", 'V1')
