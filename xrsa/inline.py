"""Syntax-level inlining of small private helpers, for the rules that read Python-level wrappers as syntax trees.

`inline_view(prog, f)` returns a Func with the same name / module / parameters whose body has the calls of small
module-level helpers replaced by the helpers' bodies (parameters substituted, clashing locals renamed), so that a rule
written for `v = v[isfinite(v) & (v != nodata)]` also reads `v = _drop_invalid(v, nodata)`.  Only two shapes are
inlined, everything else is left as a call:

* expression helpers - the body is a single `return EXPR` (after a docstring): the call becomes EXPR;
* statement helpers called as a whole statement (`x = h(...)`, `x, y = h(...)`, `return h(...)`, `h(...)`) whose body
  has no `return` except one as its last statement: the body is spliced in and the last `return` becomes the assignment.

Helpers are followed to a small depth; helpers with loops or comprehensions, more than 8 statements, recursive
helpers, generators, decorated (other than numba jit) and nested functions are not inlined.  Node positions of the helper are kept, so reports point into the helper."""
import ast
import copy

from .program import Func

MAX_STMTS = 8


class _Subst(ast.NodeTransformer):
    def __init__(self, mapping):
        self.m = mapping

    def visit_Name(self, n):
        if n.id in self.m:
            r = self.m[n.id]
            if isinstance(r, str):
                return ast.copy_location(ast.Name(id=r, ctx=n.ctx), n)
            if isinstance(n.ctx, ast.Load):
                return copy.deepcopy(r)
        return n

    def visit_arg(self, n):
        return n


def _doc_stripped(body):
    out = list(body)
    while out and isinstance(out[0], ast.Expr) and isinstance(out[0].value, ast.Constant) and isinstance(out[0].value.value, str):
        out = out[1:]
    return out


def _simple(e):
    return isinstance(e, (ast.Name, ast.Constant)) or (isinstance(e, ast.Attribute) and _simple(e.value)) or \
        (isinstance(e, ast.Subscript) and _simple(e.value) and isinstance(e.slice, (ast.Name, ast.Constant)))


def _bind(h, call):
    """{param: argument expression} or None"""
    if any(isinstance(a, ast.Starred) for a in call.args) or any(k.arg is None for k in call.keywords):
        return None
    params = h.params + h.kwonly
    if h.vararg or h.kwarg or len(call.args) > len(h.params):
        return None
    b = {}
    for p, a in zip(h.params, call.args):
        b[p] = a
    for k in call.keywords:
        if k.arg not in params or k.arg in b:
            return None
        b[k.arg] = k.value
    d = h.defaults()
    for p in params:
        if p not in b:
            if p not in d:
                return None
            b[p] = d[p]
    return b


def _assigned(stmts):
    out = set()
    for s in stmts:
        for x in ast.walk(s):
            if isinstance(x, ast.Name) and isinstance(x.ctx, ast.Store):
                out.add(x.id)
    return out


def _inlinable(prog, f, call, stack, keep=(), allow_loops=False):
    h = prog.resolve_callable(f, f.module, call.func)
    if not isinstance(h, Func) or h.is_lambda or h.parent is not None or h in stack or h is f or h.name in keep:
        return None
    if not h.name.startswith('_'):
        return None
    body = _doc_stripped(_unrolled(h).body)
    if not body or len(body) > (MAX_STMTS if not allow_loops else 3 * MAX_STMTS):
        return None
    root = _unrolled(h)
    for x in ast.walk(root):
        if isinstance(x, (ast.Yield, ast.YieldFrom, ast.Global, ast.Nonlocal, ast.Try, ast.With)):
            return None
        if isinstance(x, (ast.For, ast.While)) and not allow_loops:
            return None      # only straight-line glue is inlined: loops are algorithms with their own rules
        if isinstance(x, (ast.ListComp, ast.DictComp, ast.SetComp, ast.GeneratorExp)):
            # a comprehension is carried along when its variables cannot be confused with the helper's names
            # (a parameter is replaced by the caller's expression, which must not happen to a comprehension variable of the
            # same name; a local of the helper is renamed consistently everywhere, comprehension variables included, which
            # keeps both variables what they were)
            own = {y.id for g_ in x.generators for y in ast.walk(g_.target) if isinstance(y, ast.Name)}
            if own & (set(h.params) | set(h.kwonly)):
                return None
        if isinstance(x, ast.FunctionDef) and x is not root:
            return None
        if isinstance(x, ast.Lambda):
            # a lambda is carried along when its own parameters cannot be confused with the helper's names
            own = {a.arg for a in x.args.args + x.args.kwonlyargs + x.args.posonlyargs} | \
                  ({x.args.vararg.arg} if x.args.vararg else set()) | ({x.args.kwarg.arg} if x.args.kwarg else set())
            if own & (set(h.params) | set(h.kwonly) | _assigned(h.node.body)):
                return None
    for d in h.node.decorator_list:
        if h.jit is None:
            return None
    return h


class _Unroll(ast.NodeTransformer):
    """`a, b = (E(v) for v in (p, q))` (also with [..] brackets) -> `a, b = (E(p), E(q))`: a fixed-length unpacking of a
    comprehension over a literal tuple is two plain assignments"""
    def visit_Assign(self, n):
        self.generic_visit(n)
        v = n.value
        if len(n.targets) == 1 and isinstance(n.targets[0], (ast.Tuple, ast.List)) and \
                isinstance(v, (ast.GeneratorExp, ast.ListComp)) and len(v.generators) == 1:
            g = v.generators[0]
            if isinstance(g.target, ast.Name) and isinstance(g.iter, (ast.Tuple, ast.List)) and not g.ifs and \
                    len(g.iter.elts) == len(n.targets[0].elts) and not g.is_async:
                elts = [_Subst({g.target.id: e}).visit(copy.deepcopy(v.elt)) for e in g.iter.elts]
                new = ast.Assign(targets=n.targets, value=ast.Tuple(elts=elts, ctx=ast.Load()))
                return ast.fix_missing_locations(ast.copy_location(new, n))
        return n


_UNROLLED = {}


def _unrolled(h):
    """the helper's function node with fixed-length comprehension unpackings written out"""
    if id(h) not in _UNROLLED:
        _UNROLLED[id(h)] = _Unroll().visit(copy.deepcopy(h.node))
    return _UNROLLED[id(h)]


def _expr_helper(h):
    body = _doc_stripped(_unrolled(h).body)
    return body[0].value if len(body) == 1 and isinstance(body[0], ast.Return) and body[0].value is not None else None


def _stmt_helper(h):
    body = _doc_stripped(_unrolled(h).body)
    rets = [x for s in body for x in ast.walk(s) if isinstance(x, ast.Return)]
    if not rets:
        return body, None
    if len(rets) == 1 and body[-1] is rets[0]:
        return body[:-1], rets[0].value
    # guard-clause returns (`if c: return A` ... `return B`): read as the single-exit form `if c: r = A else: ...; r = B`.
    # Only when every return is the last statement of a top-level `if` body without `else` (recursively) or the final
    # statement, and all return a value.
    single = _single_exit_form(body)
    if single is not None:
        return single, ast.Name(id=_RET, ctx=ast.Load())
    return None, None


_RET = '_xrsa_ret'


def _single_exit_form(body):
    if not body or not isinstance(body[-1], ast.Return) or body[-1].value is None:
        return None

    def conv(stmts):
        out = []
        for k, s_ in enumerate(stmts):
            if isinstance(s_, ast.Return):
                if k != len(stmts) - 1 or s_.value is None:
                    return None
                out.append(ast.copy_location(ast.Assign(targets=[ast.Name(id=_RET, ctx=ast.Store())], value=s_.value), s_))
                return out
            if isinstance(s_, ast.If) and not s_.orelse and s_.body and isinstance(s_.body[-1], ast.Return) and \
                    not any(isinstance(x, ast.Return) for b_ in s_.body[:-1] for x in ast.walk(b_)):
                then = conv(s_.body)
                rest = conv(stmts[k + 1:])
                if then is None or rest is None:
                    return None
                new = ast.copy_location(ast.If(test=s_.test, body=then, orelse=rest), s_)
                out.append(new)
                return out
            if any(isinstance(x, ast.Return) for x in ast.walk(s_)):
                return None
            out.append(s_)
        return None
    res = conv(list(body))
    if res is not None:
        for n_ in res:
            ast.fix_missing_locations(n_)
    return res


class _Inliner:
    def __init__(self, prog, f, depth, keep=(), allow_loops=False):
        self.prog, self.f, self.depth, self.keep = prog, f, depth, tuple(keep)
        self.allow_loops = allow_loops
        self.taken = set(f.params) | _assigned(f.node.body) | {n.id for n in ast.walk(f.node) if isinstance(n, ast.Name)}
        self.count = 0

    def expr(self, e, stack, depth):
        """replace calls of expression helpers inside an expression"""
        me = self

        class T(ast.NodeTransformer):
            def visit_Call(self, n):
                self.generic_visit(n)
                if depth <= 0:
                    return n
                h = _inlinable(me.prog, me.f, n, stack, me.keep, me.allow_loops)
                if h is None:
                    return n
                ex = _expr_helper(h)
                b = _bind(h, n)
                if ex is None or b is None:
                    return n
                # a parameter used more than once is only duplicated when its argument is simple
                uses = {}
                for x in ast.walk(ex):
                    if isinstance(x, ast.Name) and x.id in b:
                        uses[x.id] = uses.get(x.id, 0) + 1
                new = _Subst(b).visit(copy.deepcopy(ex))
                me.count += 1
                return me.expr(ast.copy_location(new, n), stack + [h], depth - 1)

            def visit_Lambda(self, n):
                return n

            def visit_FunctionDef(self, n):
                return n
        return T().visit(e)

    def block(self, stmts, stack, depth):
        out = []
        for s in stmts:
            out.extend(self.stmt(s, stack, depth))
        return out

    def stmt(self, s, stack, depth):
        if isinstance(s, (ast.FunctionDef, ast.AsyncFunctionDef, ast.ClassDef)):
            return [s]
        # whole-statement calls of statement helpers
        call = None
        kind = None
        if isinstance(s, ast.Assign) and isinstance(s.value, ast.Call) and len(s.targets) == 1:
            call, kind = s.value, 'assign'
        elif isinstance(s, ast.Return) and isinstance(s.value, ast.Call):
            call, kind = s.value, 'return'
        elif isinstance(s, ast.Expr) and isinstance(s.value, ast.Call):
            call, kind = s.value, 'expr'
        # a statement helper called inside a larger expression (`return g(a, unit=_normalize(u))`): the call is hoisted
        # into a temporary first (the view only has to preserve what is computed, not the order of evaluation)
        if depth > 0 and isinstance(s, (ast.Assign, ast.Return, ast.Expr)) and s.value is not None:
            top = s.value
            for n in ast.walk(top):
                if isinstance(n, ast.Call) and n is not top:
                    h = _inlinable(self.prog, self.f, n, stack, self.keep, self.allow_loops)
                    if h is not None and _expr_helper(h) is None and _stmt_helper(h)[1] is not None and _bind(h, n) is not None:
                        nm = self.fresh('tmp', h)
                        self.taken.add(nm)
                        pre = ast.copy_location(ast.Assign(targets=[ast.Name(id=nm, ctx=ast.Store())], value=n), s)
                        ast.fix_missing_locations(pre)

                        class R(ast.NodeTransformer):
                            def visit_Call(self_, c):
                                if getattr(c, '_xrsa_hoist', False):
                                    return ast.copy_location(ast.Name(id=nm, ctx=ast.Load()), c)
                                self_.generic_visit(c)
                                return c
                        # the program's own tree is never edited: the replacement is made in a copy (the call to hoist
                        # is found again in the copy by a mark)
                        n._xrsa_hoist = True
                        try:
                            valcopy = copy.deepcopy(s.value)
                        finally:
                            del n._xrsa_hoist
                        s2 = copy.copy(s)
                        s2.value = R().visit(valcopy)
                        pre.value = copy.deepcopy(n)
                        return self.stmt(pre, stack, depth) + self.stmt(s2, stack, depth)
        # `for v in helper(args): ...` with a statement helper: the iterable is hoisted into a temporary, then read as above
        if depth > 0 and isinstance(s, ast.For) and isinstance(s.iter, ast.Call):
            h = _inlinable(self.prog, self.f, s.iter, stack, self.keep, self.allow_loops)
            if h is not None and _expr_helper(h) is None and _stmt_helper(h)[1] is not None and _bind(h, s.iter) is not None:
                nm = self.fresh('tmp', h)
                self.taken.add(nm)
                pre = ast.copy_location(ast.Assign(targets=[ast.Name(id=nm, ctx=ast.Store())], value=copy.deepcopy(s.iter)), s)
                ast.fix_missing_locations(pre)
                s2 = copy.copy(s)
                s2.iter = ast.copy_location(ast.Name(id=nm, ctx=ast.Load()), s.iter)
                return self.stmt(pre, stack, depth) + self.stmt(s2, stack, depth)
        if call is not None and depth > 0:
            h = _inlinable(self.prog, self.f, call, stack, self.keep, self.allow_loops)
            if h is not None and _expr_helper(h) is None:
                body, ret = _stmt_helper(h)
                b = _bind(h, call)
                if body is not None and b is not None and not (kind != 'expr' and ret is None):
                    pre = []
                    mapping = {}
                    stored = _assigned(body)
                    for p, a in b.items():
                        a2 = self.expr(copy.deepcopy(a), stack, depth)
                        pure = not any(isinstance(x, (ast.Call, ast.Await, ast.NamedExpr)) for x in ast.walk(a2))
                        uses = sum(1 for st_ in body + ([ast.Expr(value=ret)] if ret is not None else []) for x in ast.walk(st_)
                                   if isinstance(x, ast.Name) and x.id == p)
                        written = any(isinstance(x, (ast.Subscript, ast.Attribute)) and isinstance(x.ctx, ast.Store) and
                                      any(isinstance(y, ast.Name) and y.id == p for y in ast.walk(x.value))
                                      for st_ in body for x in ast.walk(st_))
                        # a computed argument is substituted only where the object's identity cannot matter
                        pure = pure and uses <= 1 and not written
                        if (_simple(a2) or pure) and p not in stored:
                            mapping[p] = a2        # side-effect free argument of a parameter the helper never rebinds
                        else:
                            nm = p if p not in self.taken else self.fresh(p, h)
                            self.taken.add(nm)
                            mapping[p] = nm
                            pre.append(ast.copy_location(ast.Assign(targets=[ast.Name(id=nm, ctx=ast.Store())], value=a2), s))
                    # locals that are returned straight into the caller's targets take the targets' names
                    direct = {}
                    if kind == 'assign' and ret is not None:
                        tg = s.targets[0]
                        if isinstance(ret, ast.Name) and isinstance(tg, ast.Name) and ret.id in stored and ret.id not in b:
                            direct[ret.id] = tg.id
                        elif isinstance(ret, ast.Tuple) and isinstance(tg, ast.Tuple) and len(ret.elts) == len(tg.elts) and \
                                all(isinstance(x, ast.Name) for x in list(ret.elts) + list(tg.elts)) and \
                                len({x.id for x in ret.elts}) == len(ret.elts) and \
                                all(x.id in stored and x.id not in b for x in ret.elts):
                            direct = {r_.id: t_.id for r_, t_ in zip(ret.elts, tg.elts)}
                    for loc in sorted(stored - set(b)):
                        if loc in direct:
                            if direct[loc] != loc:
                                mapping[loc] = direct[loc]
                            continue
                        nm = loc if loc not in self.taken else self.fresh(loc, h)
                        self.taken.add(nm)
                        if nm != loc:
                            mapping[loc] = nm
                    sub = _Subst(mapping)
                    new_body = [sub.visit(copy.deepcopy(x)) for x in body]
                    tail = []
                    if ret is not None:
                        rv = sub.visit(copy.deepcopy(ret))
                        if kind == 'assign' and direct:
                            tail = []        # the helper's locals already are the caller's targets
                        elif kind == 'assign':
                            tail = [ast.copy_location(ast.Assign(targets=s.targets, value=rv), s)]
                        elif kind == 'return':
                            tail = [ast.copy_location(ast.Return(value=rv), s)]
                    self.count += 1
                    res = pre + new_body + tail
                    for x in res:
                        ast.fix_missing_locations(x)
                    return self.block(res, stack + [h], depth - 1)
        # otherwise: inline expression helpers inside, recurse into blocks
        s = copy.copy(s)
        for fld, val in ast.iter_fields(s):
            if isinstance(val, list) and val and isinstance(val[0], ast.stmt):
                setattr(s, fld, self.block(val, stack, depth))
            elif isinstance(val, list) and val and isinstance(val[0], ast.excepthandler):
                pass
            elif isinstance(val, ast.expr):
                setattr(s, fld, self.expr(copy.deepcopy(val), stack, depth))
            elif isinstance(val, list) and val and isinstance(val[0], ast.expr):
                setattr(s, fld, [self.expr(copy.deepcopy(v), stack, depth) for v in val])
        return [s]

    def fresh(self, name, h):
        i = 0
        base = '%s__%s' % (name, h.name.strip('_'))
        nm = base
        while nm in self.taken:
            i += 1
            nm = '%s%d' % (base, i)
        return nm


_CACHE = {}


def inline_view(prog, f, depth=2, keep=(), allow_loops=False):
    """Func like f with small private helpers inlined (f itself when nothing was inlined); allow_loops: phases of a
    Python-level routine (helpers that contain loops, a single trailing return) are inlined too"""
    key = (id(prog), id(f), depth, tuple(keep), allow_loops)
    if key in _CACHE:
        return _CACHE[key]
    res = f
    if not f.is_lambda:
        inl = _Inliner(prog, f, depth, keep, allow_loops)
        body = inl.block(list(f.node.body), [f], depth)
        if inl.count:
            node = copy.copy(f.node)
            node.body = body
            ast.fix_missing_locations(node)
            g = Func(f.module, node, f.parent)
            g.jit = f.jit
            g.children = f.children
            g.inlined_from = f
            res = g
    _CACHE[key] = res
    return res
