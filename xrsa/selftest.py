"""Self-validation: run the checkers against scratch variants of the tree (mutants must be refuted, twins silent).

Variants are produced by exact text replacement on a scratch copy of /repo/xrspatial under a tempfile directory
(removed afterwards).  The replacement is only how the variant is *made*; the checkers analyse the variant's AST.
usage: python -m xrsa.selftest [Cxx ...] [--jobs N] [--only id]
"""
import argparse
import json
import os
import shutil
import subprocess
import sys
import tempfile
from concurrent.futures import ThreadPoolExecutor

from .program import REPO

VERIF = os.path.dirname(os.path.dirname(os.path.abspath(__file__)))


def load_corpus():
    from . import corpus
    return corpus.CORPUS


def make_variant(v, root):
    dst = os.path.join(root, v['id'])
    os.makedirs(dst)
    shutil.copytree(os.path.join(REPO, 'xrspatial'), os.path.join(dst, 'xrspatial'),
                    ignore=shutil.ignore_patterns('tests', 'datasets', '__pycache__', '*.pyc'))
    edits = v['edits'] if 'edits' in v else [(v['file'], v['old'], v['new'])]
    for fn, old, new in edits:
        p = os.path.join(dst, fn)
        s = open(p).read()
        if s.count(old) < 1:
            return None, 'anchor text not found in %s: %r' % (fn, old[:60])
        if v.get('all'):
            s = s.replace(old, new)
        else:
            if s.count(old) != 1 and not v.get('first'):
                return None, 'anchor text occurs %d times in %s: %r' % (s.count(old), fn, old[:60])
            s = s.replace(old, new, 1)
        open(p, 'w').write(s)
    # must still compile
    for fn, _, _ in edits:
        try:
            compile(open(os.path.join(dst, fn)).read(), fn, 'exec')
        except SyntaxError as e:
            return None, 'variant does not compile: %s' % e
    return dst, None


def run_variant(v, root):
    dst, err = make_variant(v, root)
    if err:
        return v, 'SKIP', err
    env = dict(os.environ)
    env['XRSA_REPO'] = dst
    env['XRSA_EVIDENCE_DIR'] = os.path.join(dst, 'evidence')
    env['PYTHONPATH'] = VERIF
    r = subprocess.run([sys.executable, '-m', 'xrsa.check', v['prop']], cwd=VERIF, env=env,
                       capture_output=True, text=True)
    shutil.rmtree(dst, ignore_errors=True)
    out = r.stdout + r.stderr
    if v['kind'] == 'mutant':
        if r.returncode == 1 and 'VIOLATION property=%s' % v['prop'] in out:
            rule = v.get('rule')
            if rule and ('rule=%s' % rule) not in out:
                return v, 'WRONG-RULE', out
            return v, 'OK', out
        return v, 'MISSED(exit %d)' % r.returncode, out
    else:
        if r.returncode == 0:
            return v, 'OK', out
        return v, 'FALSE-ALARM(exit %d)' % r.returncode, out


def main(argv=None):
    ap = argparse.ArgumentParser()
    ap.add_argument('props', nargs='*')
    ap.add_argument('--jobs', type=int, default=16)
    ap.add_argument('--only')
    ap.add_argument('-v', action='store_true')
    a = ap.parse_args(argv)
    corpus = load_corpus()
    sel = [v for v in corpus if (not a.props or v['prop'] in a.props) and (not a.only or v['id'] in a.only.split(','))]
    root = tempfile.mkdtemp(prefix='xrsa-selftest-')
    bad = 0
    try:
        with ThreadPoolExecutor(a.jobs) as ex:
            for v, status, out in ex.map(lambda v: run_variant(v, root), sel):
                if status != 'OK':
                    bad += 1
                print('%-6s %-7s %-44s %s' % (v['prop'], v['kind'], v['id'], status))
                if status != 'OK' or a.v:
                    for ln in out.strip().splitlines()[:14]:
                        print('      | ' + ln[:220])
    finally:
        shutil.rmtree(root, ignore_errors=True)
    print('selftest: %d variants, %d not as expected' % (len(sel), bad))
    return 2 if bad else 0


if __name__ == '__main__':
    sys.exit(main())
