"""Engine F - order / validity / cursor / index-space discipline of the zonal bookkeeping (zonal.py).

Rules are anchored on the public entries `stats` and `crosstab` and the functions reachable from them.
"""
import ast

from .astutil import calls, const, kw, parent_map, short, straightline_env, inline
from .astutil import canon_test_text as _ctt
from .backends import backend_paths, reachable
from .kutil import Spec
from .inline import _bind as _bind_args
from .program import AnalysisIncomplete, Ext, Func, Partial, norm
from .sym import Rat

ASC, USER = 'ASC', 'USER'


def zonal_funcs(prog, pubname):
    m = prog.module('zonal')
    pub = m.funcs.get(pubname)
    if pub is None:
        raise AnalysisIncomplete('zonal.%s not found' % pubname)
    fs = [g for g in reachable(prog, pub, 6) if prog.same_unit(m, g.module) and 'cupy' not in g.qualname]
    return m, pub, fs


def _view(prog, f):
    """the function with its small private helpers inlined (rules read wrappers as syntax trees)"""
    from .inline import inline_view
    return inline_view(prog, f) if f is not None else None


# ------------------------------------------------------------------------------------------- Z1 cursors
class _Store:
    """one name <- value inside a statement (a plain assignment, or one component of a tuple assignment)"""
    def __init__(self, stmt, name, value):
        self.stmt, self.name, self.value = stmt, name, value
        self.lineno, self.col_offset = stmt.lineno, stmt.col_offset

    def text(self):
        return '%s = %s' % (self.name, norm(self.value))


def loop_cursors(f):
    """(loop, cursor name, stores) for loop-carried plain variables of the for-loops of f"""
    out = []
    for lp in [n for n in f.own_nodes() if isinstance(n, ast.For)]:
        body_nodes = []
        for s in lp.body:
            body_nodes += list(ast.walk(s))
        assigned = {}
        for n in body_nodes:
            if isinstance(n, ast.Assign) and len(n.targets) == 1 and isinstance(n.targets[0], ast.Name):
                assigned.setdefault(n.targets[0].id, []).append(_Store(n, n.targets[0].id, n.value))
            elif isinstance(n, ast.Assign) and len(n.targets) == 1 and isinstance(n.targets[0], ast.Tuple) and \
                    isinstance(n.value, ast.Tuple) and len(n.value.elts) == len(n.targets[0].elts):
                for t, v in zip(n.targets[0].elts, n.value.elts):
                    if isinstance(t, ast.Name):
                        assigned.setdefault(t.id, []).append(_Store(n, t.id, v))
        for name, stores in assigned.items():
            # initialised before the loop in the same function
            inits = [v for v in f.local_assigns().get(name, []) if isinstance(v, ast.AST) and
                     getattr(v, 'lineno', 0) < lp.lineno]
            if not inits:
                continue
            # loop-carried: read in the body textually before its first store in the body (the value of the
            # previous iteration is consumed); per-iteration temporaries are written before they are read
            first_store = min((s.lineno, s.col_offset) for s in stores)
            reads = [(n.lineno, n.col_offset) for n in body_nodes
                     if isinstance(n, ast.Name) and n.id == name and isinstance(n.ctx, ast.Load)]
            # reads on the right-hand side of the first store itself count as "before" (all components of a tuple
            # assignment are evaluated before any is stored)
            rhs_reads = [1 for s in stores for n in ast.walk(s.stmt.value) if isinstance(n, ast.Name) and n.id == name]
            if not reads or (min(reads) > first_store and not rhs_reads):
                continue
            if all(isinstance(s.value, ast.Constant) for s in stores):
                continue   # flags / resets, not offsets
            out.append((lp, name, stores))
    return out


def check_cursors(rep, fs, prop, entry_of, prog=None):
    n = 0
    for f in fs:
        for lp, name, stores in loop_cursors(f):
            if f.name == '_strides':
                continue        # the stride routine's own cursor is decided as a whole by ZS (on its interpretation)
            n += 1
            # on every path through the loop body that goes on to the next item (fall through or `continue`) the
            # cursor is advanced
            from .astutil import body_paths
            try:
                paths = [p for p in body_paths(lp.body) if p.exit in ('fall', 'continue')]
                stmts = {id(s.stmt) for s in stores}
                ok = bool(paths) and all(any(id(x) in stmts for x in p.stmts) for p in paths)
            except ValueError:
                ok = None
            rep.add('Z1', f, entry_of(f), 'cursor `%s` in `for %s in %s`: %s' % (
                name, norm(lp.target), norm(lp.iter)[:40], '; '.join(s.text() for s in stores)), stores[0].lineno, ok,
                'a running offset that delimits consecutive segments must be advanced on EVERY iteration (at the top '
                'level of the loop body): advancing it only when the item is selected makes the next selected '
                'segment start too early')
        if prog is not None:
            n += check_segments(prog, rep, f, entry_of)
    return n


def cursor_floor(prog, rep, pub, per_backend):
    """every backend path of the public function must reach at least `per_backend` Z1 instances (the stride routine's
    cursor and the per-item segment): counted per path, so that sharing one loop between backends is not a loss"""
    best = {}
    for p in backend_paths(prog, pub):
        t = p.func()
        if not isinstance(t, Func) or 'cupy' in p.backend or not prog.same_unit(pub.module, t.module):
            continue
        reach = list(reachable(prog, t, 6))
        names = {g.qualname for g in reach}
        spans = [(g.module.rel, g.node.lineno, getattr(g.node, 'end_lineno', g.node.lineno)) for g in reach if hasattr(g.node, 'lineno')]
        # an instance belongs to the path when its construct lies in a function the path reaches (a loop shared by two
        # backends is reported once, under whichever function was read first)
        got = sum(1 for ob in rep.obs if ob.rule == 'Z1' and (getattr(ob, 'func', None) in names or
                                                               any(ob.module == r_ and a_ <= ob.line <= b_ for r_, a_, b_ in spans)))
        # several calls may sit under one backend test (an alignment helper, then the implementation): the
        # implementation is the one that reaches the per-item loops
        best[p.backend] = max(best.get(p.backend, 0), got)
    for backend, got in sorted(best.items()):
        if got < per_backend:
            rep.incomplete.append('rule Z1 matched %d instances on the %s path of %s, below the confirmed floor %d'
                                  % (got, backend, pub.name, per_backend))


def _loop_index(lp):
    """name of the position variable of `for i in range(..)` / `for i, x in enumerate(..)`"""
    if isinstance(lp.iter, ast.Call) and norm(lp.iter.func) == 'range' and isinstance(lp.target, ast.Name):
        if len(lp.iter.args) == 1 or (len(lp.iter.args) == 2 and const(lp.iter.args[0]) == 0):
            return lp.target.id
    if isinstance(lp.iter, ast.Call) and norm(lp.iter.func) == 'enumerate' and len(lp.iter.args) == 1 and not lp.iter.keywords \
            and isinstance(lp.target, ast.Tuple) and len(lp.target.elts) == 2 and isinstance(lp.target.elts[0], ast.Name):
        return lp.target.elts[0].id
    return None


def check_segments(prog, rep, f, entry_of):
    """Z1 (cursor-free form): a segment start computed from the break vector itself - `B[i - 1] if i > 0 else 0` - is
    evaluated for i = 0..3: it must be 0 for the first item and the previous break afterwards, the end must be B[i]."""
    from .kai import Arr
    n = 0
    for lp in [x for x in f.own_nodes() if isinstance(x, ast.For)]:
        iv = _loop_index(lp)
        if iv is None:
            continue
        # break vectors read at a neighbouring position of the loop index
        nb = set()
        for x in [y for s in lp.body for y in ast.walk(s)]:
            if isinstance(x, ast.Subscript) and isinstance(x.value, ast.Name) and isinstance(x.slice, ast.BinOp) and \
                    isinstance(x.slice.left, ast.Name) and x.slice.left.id == iv and isinstance(x.ctx, ast.Load):
                nb.add(x.value.id)
        if not nb:
            continue
        # the slices whose bounds are computed in the loop body
        for sl in [y for s in lp.body for y in ast.walk(s) if isinstance(y, ast.Subscript) and isinstance(y.slice, ast.Slice)
                   and y.slice.lower is not None and y.slice.upper is not None and y.slice.step is None]:
            texts = norm(sl.slice.lower) + ' ' + norm(sl.slice.upper)
            names = {z.id for z in ast.walk(sl.slice) if isinstance(z, ast.Name)}
            pre = []
            for s in lp.body:
                if any(y is sl for y in ast.walk(s)):
                    break
                pre.append(s)
            assigned = {t.id for s in pre for y in ast.walk(s) if isinstance(y, ast.Assign) for t in y.targets if isinstance(t, ast.Name)}
            if not (names & nb) and not any(b in norm(v) for b in nb for s in pre for y in ast.walk(s) if isinstance(y, ast.Assign)
                                            for v in [y.value] for t in y.targets if isinstance(t, ast.Name) and t.id in names):
                continue
            B = sorted(nb)[0]
            vals = []
            okall = True
            why = ''
            for k in range(4):
                try:
                    sp = Spec(prog, {b: Arr(b, 'param') for b in nb} | {iv: Rat.const(k)}, f.module)
                    for s in pre:
                        simple = isinstance(s, ast.Assign) and all(isinstance(t, ast.Name) for t in s.targets) and \
                            not any(isinstance(y, ast.Call) for y in ast.walk(s.value))
                        cond = isinstance(s, ast.If) and all(isinstance(y, ast.Assign) and all(isinstance(t, ast.Name) for t in y.targets) and
                                                             not any(isinstance(z, ast.Call) for z in ast.walk(y.value))
                                                             for y in s.body + s.orelse)
                        if (simple or cond) and not ({z.id for z in ast.walk(s) if isinstance(z, ast.Name)} - set(nb) - {iv} - assigned):
                            sp.it.block([s])
                    lo = sp.it.ev(sl.slice.lower)
                    hi = sp.it.ev(sl.slice.upper)
                    wlo = Rat.const(0) if k == 0 else sp.expr('%s[%d]' % (B, k - 1))
                    whi = sp.expr('%s[%d]' % (B, k))
                except Exception as e:      # noqa - an unrecognised shape is reported as undecided
                    raise AnalysisIncomplete('Z1 segment bounds of `%s` in %s not evaluable: %s' % (norm(sl), f.name, e))
                if not (isinstance(lo, Rat) and isinstance(hi, Rat)):
                    raise AnalysisIncomplete('Z1 segment bounds of `%s` in %s not scalar' % (norm(sl), f.name))
                if lo != wlo or hi != whi:
                    okall = False
                    why = 'item %d: [%s:%s], expected [%s:%s]' % (k, lo, hi, wlo, whi)
                    break
            n += 1
            rep.add('Z1', f, entry_of(f), 'segment `%s` in `for %s in %s`' % (norm(sl), norm(lp.target), norm(lp.iter)[:40]),
                    sl.lineno, okall,
                    'the cells of item i are the run between the previous break (0 for the first item) and break i of the '
                    'same break vector, for every i - evaluated for i = 0..3' + ('; ' + why if why else ''))
    return n


# ------------------------------------------------------------------------------------------- Z2 order provenance
class OrderEnv:
    def __init__(self, prog, f, param_orders=None):
        self.prog = prog
        self.f = f
        self.env = dict(param_orders or {})
        for p in f.params:
            self.env.setdefault(p, USER)

    def order_of(self, e, depth=0):
        if depth > 6:
            return None
        if isinstance(e, ast.Name):
            return self.env.get(e.id)
        if isinstance(e, ast.Tuple):
            return ('tuple',) + tuple(self.order_of(x, depth + 1) for x in e.elts)
        if isinstance(e, ast.Call):
            nm = short(e)
            if nm in ('unique', 'sorted', 'sort') and (isinstance(e.func, ast.Name) or norm(e.func).split('.')[0] in ('np', 'numpy', 'da')):
                return ASC
            if nm in ('list', 'tuple', 'array', 'asarray') and e.args:
                return self.order_of(e.args[0], depth + 1)
            t = self.prog.resolve_callable(self.f, self.f.module, e.func)
            if isinstance(t, Func):
                it = iterated_param(t)
                if it is not None:
                    idx = t.params.index(it)
                    if idx < len(e.args):
                        return self.order_of(e.args[idx], depth + 1)
                    for k in e.keywords:
                        if k.arg == it:
                            return self.order_of(k.value, depth + 1)
            return None
        if isinstance(e, ast.ListComp) and len(e.generators) == 1:
            g = e.generators[0]
            if isinstance(e.elt, ast.Name) and isinstance(g.target, ast.Name) and e.elt.id == g.target.id:
                return self.order_of(g.iter, depth + 1)
            return None
        if isinstance(e, ast.Subscript):
            # boolean filtering keeps the order
            return self.order_of(e.value, depth + 1)
        return None

    def run(self, stmts, sinks):
        for s in stmts:
            if isinstance(s, ast.Assign) and len(s.targets) == 1:
                t = s.targets[0]
                if isinstance(t, ast.Name):
                    self.env[t.id] = self.order_of(s.value)
                    # a table created with its 'zone' column: {"zone": ids, ...} / dict(zone=ids)
                    v = s.value
                    if isinstance(v, ast.Dict):
                        for k, vv in zip(v.keys, v.values):
                            if k is not None and const(k) == 'zone':
                                sinks.append((s, self.order_of(vv)))
                    elif isinstance(v, ast.Call) and short(v) == 'dict':
                        for k in v.keywords:
                            if k.arg == 'zone':
                                sinks.append((s, self.order_of(k.value)))
                elif isinstance(t, ast.Subscript) and const(t.slice) == 'zone':
                    sinks.append((s, self.order_of(s.value)))
                elif isinstance(t, (ast.Tuple, ast.List)) and all(isinstance(x, ast.Name) for x in t.elts):
                    # a, b = <pair>: component-wise (a helper returning (all zones, selected zones), read in place)
                    o = self.order_of(s.value)
                    for k_, x in enumerate(t.elts):
                        self.env[x.id] = o[1 + k_] if isinstance(o, tuple) and o and o[0] == 'tuple' and len(o) == len(t.elts) + 1 else None
            elif isinstance(s, ast.If):
                e0 = dict(self.env)
                self.run(s.body, sinks)
                e1 = self.env
                self.env = dict(e0)
                self.run(s.orelse, sinks)
                e2 = self.env
                self.env = {}
                for k in set(e1) | set(e2):
                    a, b = e1.get(k), e2.get(k)
                    self.env[k] = a if a == b else (USER if USER in (a, b) else None)
            elif isinstance(s, ast.For) and isinstance(s.target, ast.Name) and self._filter_loop(s) is not None:
                # `for z in ITER: if cond: out.append(z)`: an order-preserving selection of ITER, like the comprehension
                self.env[self._filter_loop(s)] = self.order_of(s.iter)
            elif isinstance(s, (ast.For, ast.While, ast.With, ast.Try)):
                for fld in ('body', 'orelse', 'finalbody'):
                    self.run(getattr(s, fld, []) or [], sinks)

    def _filter_loop(self, lp):
        """name of the list that receives (only) the loop variable itself, appended in iteration order"""
        apps = [c_ for c_ in calls(lp) if short(c_) == 'append' and isinstance(c_.func, ast.Attribute) and isinstance(c_.func.value, ast.Name)]
        if len(apps) != 1 or len(apps[0].args) != 1 or norm(apps[0].args[0]) != lp.target.id:
            return None
        # nothing else in the body but conditions / continue around the append
        for n_ in ast.walk(ast.Module(body=lp.body, type_ignores=[])):
            if isinstance(n_, (ast.Assign, ast.AugAssign, ast.For, ast.While, ast.Break)):
                return None
            if isinstance(n_, ast.Call) and n_ is not apps[0] and short(n_) in ('insert', 'extend', 'append', 'sort', 'reverse'):
                return None
        name = apps[0].func.value.id
        # the list starts empty just before (a literal [] assigned in this function)
        vals = [v for v in self.f.local_assigns().get(name, []) if isinstance(v, ast.AST)]
        if len(vals) != 1 or not (isinstance(vals[0], ast.List) and not vals[0].elts):
            return None
        return name


def iterated_param(t):
    """for helpers of the shape `for i in P: if i in Q: out.append(i); return out` -> 'P'"""
    loops = [n for n in t.node.body if isinstance(n, ast.For)]
    rets = [n for n in t.node.body if isinstance(n, ast.Return)]
    # the same filter as a comprehension: `return [i for i in P if i in Q]`
    if not loops and len(rets) == 1 and isinstance(rets[0].value, ast.ListComp) and len(rets[0].value.generators) == 1:
        g = rets[0].value.generators[0]
        if isinstance(g.iter, ast.Name) and g.iter.id in t.params and isinstance(g.target, ast.Name) and \
                isinstance(rets[0].value.elt, ast.Name) and rets[0].value.elt.id == g.target.id:
            return g.iter.id
    if len(loops) == 1 and len(rets) == 1 and isinstance(loops[0].iter, ast.Name) and loops[0].iter.id in t.params \
            and isinstance(rets[0].value, ast.Name) and isinstance(loops[0].target, ast.Name):
        out = rets[0].value.id
        tv = loops[0].target.id
        for c in calls(loops[0]):
            if short(c) == 'append' and norm(c.func.value) == out and c.args and norm(c.args[0]) == tv:
                return loops[0].iter.id
    return None


def check_zone_labels(prog, rep, fs, entry_of):
    """Z2: every store into a 'zone' column has ASC provenance (the rows are computed in ascending zone order)"""
    n = 0
    by_name = {f.qualname: f for f in fs}
    # interprocedural: parameter orders from call sites inside fs
    param_orders = {}
    for _ in range(2):
        for f in fs:
            if f.is_lambda:
                continue
            oe = OrderEnv(prog, f, param_orders.get(f.qualname))
            sinks = []
            oe.run(f.node.body, sinks)
            # propagate to callees
            for c in calls(f.node):
                t = prog.resolve_callable(f, f.module, c.func)
                if isinstance(t, Func) and t.qualname in by_name:
                    # evaluate argument orders at the end-of-function env (straight-line code)
                    for p, a in list(zip(t.params, c.args)) + [(k.arg, k.value) for k in c.keywords if k.arg]:
                        o = oe.order_of(a)
                        cur = param_orders.setdefault(t.qualname, {})
                        if p in cur and cur[p] != o:
                            cur[p] = USER if USER in (cur[p], o) else None
                        else:
                            cur[p] = o
    for f in fs:
        if f.is_lambda:
            continue
        fv = _view(prog, f)
        oe = OrderEnv(prog, fv, param_orders.get(f.qualname))
        sinks = []
        oe.run(fv.node.body, sinks)
        for s, o in sinks:
            n += 1
            rep.add('Z2', f, entry_of(f), norm(s), s.lineno, o == ASC,
                    "rows are computed in ascending zone order; the 'zone' label column must be an order-preserving "
                    "selection of the ascending unique zones, not the caller's request order (order found: %s) - "
                    "otherwise a row is labelled with another zone's id" % o)
    return n


# ------------------------------------------------------------------------------------------- Z3 validity filter
def is_valid_mask(mask, arr):
    """mask == isfinite(arr) & (arr != nodata_values) in any order"""
    if not (isinstance(mask, ast.BinOp) and isinstance(mask.op, ast.BitAnd)):
        return False, 'mask is not a conjunction'
    parts = [mask.left, mask.right]
    fin = ne = False
    for p in parts:
        if isinstance(p, ast.Call) and short(p) == 'isfinite' and len(p.args) == 1 and norm(p.args[0]) == arr:
            fin = True
        if isinstance(p, ast.Compare) and len(p.ops) == 1 and isinstance(p.ops[0], ast.NotEq):
            l, r = norm(p.left), norm(p.comparators[0])
            if (l == arr and r == 'nodata_values') or (r == arr and l == 'nodata_values'):
                ne = True
    why = []
    if not fin:
        why.append('no isfinite(%s) conjunct' % arr)
    if not ne:
        why.append('no (%s != nodata_values) conjunct' % arr)
    return fin and ne, '; '.join(why)


def filtered_def(f, name, before):
    """the latest assignment `name = name[mask]` (or base[mask]) textually before node `before`"""
    best = None
    for n in f.own_nodes():
        if isinstance(n, ast.Assign) and isinstance(n.targets[0], ast.Name) and n.targets[0].id == name and \
                n.lineno <= before.lineno and isinstance(n.value, ast.Subscript):
            if best is None or n.lineno > best.lineno:
                best = n
    return best


def nodata_params(prog, f, pubname='nodata_values'):
    """names that carry the caller's nodata value inside f: parameters reached from a public `nodata_values` parameter
    through the module's calls (positional or keyword binding, functools.partial / delayed wrappers resolved by the
    program model), whatever the private functions call them"""
    m = f.module
    allc = getattr(prog, '_nodata_params', None)
    if allc is None:
        allc = prog._nodata_params = {}
    cache = allc.setdefault(pubname, {})
    if m.name not in cache:
        nod = {}
        for g in m.funcs.values():
            if pubname in g.params + g.kwonly:
                nod.setdefault(g.qualname, set()).add(pubname)
        changed = True
        rounds = 0
        allf = []
        stack = list(m.funcs.values())
        while stack:
            g = stack.pop()
            allf.append(g)
            stack.extend(g.children.values())
        while changed and rounds < 8:
            changed = False
            rounds += 1
            for g in allf:
                mine = nod.get(g.qualname, set())
                # closures see the names of the enclosing function
                par = g.parent
                while par is not None:
                    mine = mine | nod.get(par.qualname, set())
                    par = par.parent
                if not mine:
                    continue
                # dispatch through a backend table: mapper(x)(args) calls each backend's function with these arguments
                try:
                    from .backends import backend_paths as _bp
                    for pth in _bp(prog, g):
                        t = pth.func()
                        if not isinstance(t, Func) or not prog.same_unit(m, t.module):
                            continue
                        bound = dict(zip(t.params, pth.args))
                        bound.update(pth.keywords)
                        for p_, a_ in bound.items():
                            if isinstance(a_, ast.Name) and a_.id in mine and p_ in t.params + t.kwonly and p_ not in nod.get(t.qualname, set()):
                                nod.setdefault(t.qualname, set()).add(p_)
                                changed = True
                except Exception:      # noqa - functions without a dispatch
                    pass
                for c in calls(g.node):
                    if c not in g.own_nodes():
                        continue
                    try:
                        t = prog.resolve_callable(g, m, c.func)
                    except Exception:      # noqa
                        continue
                    pre = {}
                    while t is not None and t.__class__.__name__ == 'Partial':
                        pre.update(t.keywords)
                        t = t.target
                    if t is None or t.__class__.__name__ != 'Func' or not prog.same_unit(m, t.module):
                        continue
                    bound = dict(zip(t.params, c.args))
                    bound.update({k.arg: k.value for k in c.keywords if k.arg})
                    bound.update({k: v for k, v in pre.items() if isinstance(v, ast.AST)})
                    for p_, a_ in bound.items():
                        if isinstance(a_, ast.Name) and a_.id in mine and p_ in t.params + t.kwonly and p_ not in nod.get(t.qualname, set()):
                            nod.setdefault(t.qualname, set()).add(p_)
                            changed = True
        cache[m.name] = nod
    out = set(cache[m.name].get(f.qualname, set()))
    par = f.parent
    while par is not None:
        out |= cache[m.name].get(par.qualname, set())
        par = par.parent
    return out or {pubname}


def _mask_flags(f, mask, base, depth=0):
    """which validity tests a boolean mask applies to `base` (normalised text): subset of {'fin', 'ne'}"""
    out = set()
    if depth > 3 or mask is None:
        return out
    if isinstance(mask, ast.BinOp) and isinstance(mask.op, ast.BitAnd):
        return _mask_flags(f, mask.left, base, depth) | _mask_flags(f, mask.right, base, depth)
    if isinstance(mask, ast.Call) and short(mask) in ('logical_and',) and len(mask.args) == 2:
        return _mask_flags(f, mask.args[0], base, depth) | _mask_flags(f, mask.args[1], base, depth)
    if isinstance(mask, ast.Call) and short(mask) == 'isfinite' and len(mask.args) == 1 and norm(mask.args[0]) == base:
        out.add('fin')
    if isinstance(mask, ast.Compare) and len(mask.ops) == 1 and isinstance(mask.ops[0], ast.NotEq):
        l, r = norm(mask.left), norm(mask.comparators[0])
        nd = getattr(f, '_nodata_names', None) or {'nodata_values'}
        if (l == base and r in nd) or (r == base and l in nd):
            out.add('ne')
    if isinstance(mask, ast.Name):
        vals = [v for v in f.local_assigns().get(mask.id, []) if isinstance(v, ast.AST)]
        if len(vals) == 1:
            return _mask_flags(f, vals[0], base, depth + 1)
    return out


def filter_flags(f, pm, node, expr):
    """validity tests that the array denoted by `expr` at `node` has passed on EVERY path: subset of {'fin', 'ne'}.
    `v = w[mask]` adds the tests of mask to those of w; if/else branches are intersected; anything else resets."""
    def blocks_before(n):
        st = n
        while st is not None and not isinstance(st, ast.stmt):
            st = pm.get(st)
        out = []
        cur = st
        while cur is not None:
            parent = pm.get(cur)
            if parent is None:
                break
            for fld in ('body', 'orelse', 'finalbody'):
                blk = getattr(parent, fld, None)
                if isinstance(blk, list) and cur in blk:
                    out.append(blk[:blk.index(cur)])
            cur = parent
        return out

    def assigns(s, name):
        return any(isinstance(x, ast.Name) and x.id == name and isinstance(x.ctx, ast.Store) for x in ast.walk(s))

    def of_expr(e, blocks, depth):
        if depth > 8:
            return set()
        if isinstance(e, ast.Name):
            return of_name(e.id, blocks, depth)
        if isinstance(e, ast.Subscript) and not isinstance(e.slice, (ast.Slice, ast.Constant)) and \
                not (isinstance(e.slice, ast.Tuple)):
            base = e.value
            fl = _mask_flags(f, e.slice, norm(base))
            if fl:
                return of_expr(base, blocks, depth + 1) | fl
            return set()
        if isinstance(e, ast.Subscript) and isinstance(e.slice, ast.Slice):
            return of_expr(e.value, blocks, depth + 1)         # a contiguous slice keeps what was filtered
        if isinstance(e, ast.Call) and short(e) in ('sort', 'asarray', 'ravel', 'flatten', 'copy', 'array') and e.args:
            return of_expr(e.args[0], blocks, depth + 1)
        return set()

    def of_name(name, blocks, depth):
        for bi, blk in enumerate(blocks):
            for si in range(len(blk) - 1, -1, -1):
                s = blk[si]
                if not assigns(s, name):
                    continue
                rest = [blk[:si]] + blocks[bi + 1:]
                if isinstance(s, ast.Assign) and len(s.targets) == 1 and isinstance(s.targets[0], ast.Name):
                    return of_expr(s.value, rest, depth + 1)
                if isinstance(s, ast.If):
                    res = None
                    for br in (s.body, s.orelse):
                        r = of_name(name, [br] + rest, depth + 1) if any(assigns(x, name) for x in br) else of_name(name, rest, depth + 1)
                        res = r if res is None else (res & r)
                    return res or set()
                return set()
        return set()
    return of_expr(expr, blocks_before(node), 0)


def check_validity(prog, rep, fs, entry_of):
    """Z3: every reducer / counting / total site receives values that have passed isfinite AND != nodata on every path"""
    from .astutil import parent_map
    n = 0
    for f in fs:
        if f.is_lambda:
            continue
        nd = nodata_params(prog, f)
        f = _view(prog, f)        # `v = _drop_invalid(v, nodata)` reads as the mask it applies
        f._nodata_names = nd
        pm = parent_map(f.node)
        sites = []
        for c in calls(f.node):
            if c not in f.own_nodes():
                continue
            fn = c.func
            # reducer passed as parameter: func(x) / stats_func(x)
            if isinstance(fn, ast.Name) and fn.id in f.params and len(c.args) == 1:
                sites.append((c, c.args[0], 'reducer call'))
            if short(c) == 'sort' and norm(fn) in ('np.sort', 'numpy.sort') and c.args:
                sites.append((c, c.args[0], 'category counting'))
        fam = {norm(a).split('[')[0] for c, a, kind in sites}
        if fam:
            # the number of valid cells (percentage base): <values>.shape[0] / len(<values>) / .size
            for s in f.own_nodes():
                if isinstance(s, ast.Assign) and isinstance(s.targets[0], ast.Name):
                    v = s.value
                    arg = None
                    if isinstance(v, ast.Subscript) and isinstance(v.value, ast.Attribute) and v.value.attr == 'shape' and norm(v.slice) == '0':
                        arg = v.value.value
                    elif isinstance(v, ast.Call) and short(v) == 'len' and len(v.args) == 1:
                        arg = v.args[0]
                    elif isinstance(v, ast.Attribute) and v.attr == 'size':
                        arg = v.value
                    if arg is not None and norm(arg).split('[')[0] in fam and 'count' in s.targets[0].id:
                        sites.append((s, arg, 'valid-cell count'))
        for c, arg, kind in sites:
            fl = filter_flags(f, pm, c, arg)
            n += 1
            miss = [t for t, k in (('np.isfinite(...)', 'fin'), ('(... != nodata_values)', 'ne')) if k not in fl]
            rep.add('Z3', f, entry_of(f), '%s: %s' % (kind, norm(c)[:120]), c.lineno, not miss,
                    'only finite cells different from nodata_values may be summarised, on every path (integer rasters '
                    'too: nodata is a value, not NaN): the values reaching this %s have not passed %s' % (kind, ' and '.join(miss)))
        # category discovery
        if f.name == '_find_cats' or any(short(c) == 'unique' and 'values' in norm(c) for c in calls(f.node) if c in f.own_nodes()):
            for c in calls(f.node):
                if c in f.own_nodes() and short(c) == 'unique' and c.args and 'values' in norm(c.args[0]):
                    fl = filter_flags(f, pm, c, c.args[0])
                    miss = [t for t, k in (('np.isfinite(...)', 'fin'), ('(... != nodata_values)', 'ne')) if k not in fl]
                    n += 1
                    rep.add('Z3', f, entry_of(f), norm(c)[:160], c.lineno, not miss,
                            'categories are the distinct finite, non-nodata values: not passed %s' % ' and '.join(miss))
    return n


def check_selection(prog, rep, fs, entry_of, pubname='zone_ids'):
    """Z-select: whether a zone (category) is worked on is decided by an order-free membership test of its id in the
    requested ids.  A comparison with the element of the requested ids under a moving position (a merge walk, a
    searchsorted position) selects correctly for ascending requests only - the caller's list comes as given."""
    n = 0
    for f in fs:
        if f.is_lambda:
            continue
        names = nodata_params(prog, f, pubname) & set(f.params + f.kwonly)
        if not names:
            continue
        fv = _view(prog, f)
        # ids are matched exactly: a tolerance test on a requested id selects its neighbours too (large codes one apart)
        idvars = set(names) | {n_.target.id for n_ in fv.own_nodes() if isinstance(n_, (ast.For, ast.comprehension)) and
                               isinstance(n_.target, ast.Name) and isinstance(n_.iter, ast.Name) and n_.iter.id in names}
        # ... and locals computed from them (`requested = np.unique(zone_ids).astype(float)`)
        for _ in range(3):
            for n_ in fv.own_nodes():
                if isinstance(n_, ast.Assign) and len(n_.targets) == 1 and isinstance(n_.targets[0], ast.Name) and n_.targets[0].id not in idvars and \
                        any(isinstance(x, ast.Name) and x.id in idvars for x in ast.walk(n_.value)) and \
                        not any(isinstance(x, (ast.ListComp, ast.GeneratorExp, ast.Compare)) for x in ast.walk(n_.value)):
                    idvars.add(n_.targets[0].id)
        for c_ in calls(fv.node):
            if short(c_) in ('isclose', 'allclose') and any(isinstance(x, ast.Name) and x.id in idvars for a_ in c_.args for x in ast.walk(a_)):
                n += 1
                rep.add('Z-select', fv, entry_of(f), norm(c_)[:120], c_.lineno, False,
                        'an id is selected iff it EQUALS a requested id: `%s` also selects every id within the tolerance' % short(c_))
        # rows / columns selected one requested id at a time, by equality with the id of the turn (`df[df.zone == z] for z in ids`):
        # the result follows the ORDER and the multiplicity of the request instead of the ascending distinct ids
        loopvars = idvars - set(names)
        for c_ in [x for x in fv.own_nodes() if isinstance(x, ast.Compare)]:
            if loopvars and any(isinstance(o, (ast.Eq, ast.NotEq)) for o in c_.ops) and \
                    any(isinstance(x, ast.Name) and x.id in loopvars for s_ in [c_.left] + list(c_.comparators) for x in [s_]) and \
                    any(isinstance(s_, (ast.Subscript, ast.Attribute)) for s_ in [c_.left] + list(c_.comparators)):
                n += 1
                rep.add('Z-select', fv, entry_of(f), norm(c_)[:120], c_.lineno, False,
                        'an id is selected iff it is a member of the requested ids, and the rows come out ascending, once each: this picks '
                        'the rows request by request, in the caller\'s order and as often as an id is repeated')
        # "no request" is `None`, and only `None`: an empty request selects nothing.  A truthiness test of the requested ids
        # treats `[]` like an absent request (every zone / category is reported) and raises for an array of ids.
        def truth_uses(t_):
            if isinstance(t_, ast.Name) and t_.id in names:
                return [t_]
            if isinstance(t_, ast.UnaryOp) and isinstance(t_.op, ast.Not):
                return truth_uses(t_.operand)
            if isinstance(t_, ast.BoolOp):
                return [u for v_ in t_.values for u in truth_uses(v_)]
            return []
        for node in fv.own_nodes():
            if isinstance(node, (ast.If, ast.While, ast.IfExp)):
                for u in truth_uses(node.test):
                    n += 1
                    rep.add('Z-select', fv, entry_of(f), 'truth value of `%s` in `%s`' % (u.id, norm(node.test)[:80]), node.lineno, False,
                            'an absent request is `None`; an empty list of ids is a request that selects nothing - tested for '
                            'truthiness it is treated like an absent one and every zone / category is reported')
        for node in fv.own_nodes():
            tests = []
            if isinstance(node, (ast.If, ast.While)):
                tests = [node.test]
            elif isinstance(node, ast.IfExp):
                tests = [node.test]
            for t in tests:
                for c in [x for x in ast.walk(t) if isinstance(x, ast.Compare)]:
                    sides = [c.left] + list(c.comparators)
                    pos = [x for s_ in sides for x in ast.walk(s_) if isinstance(x, ast.Subscript) and isinstance(x.value, ast.Name) and
                           x.value.id in names and not isinstance(x.slice, (ast.Constant, ast.Slice))]
                    member = any(isinstance(o, (ast.In, ast.NotIn)) for o in c.ops) and any(
                        isinstance(x, ast.Name) and x.id in names for x in ast.walk(c.comparators[-1]))
                    if pos and any(isinstance(o, (ast.Eq, ast.NotEq)) for o in c.ops):
                        n += 1
                        rep.add('Z-select', fv, entry_of(f), norm(c)[:120], c.lineno, False,
                                'an id is selected iff it is a member of the requested ids, whatever their order: this compares it '
                                'with the element at a moving position of `%s`, which is right for ascending requests only' % pos[0].value.id)
                    elif member:
                        n += 1
                        rep.add('Z-select', fv, entry_of(f), norm(c)[:120], c.lineno, True, 'order-free membership test')
    return n


# ------------------------------------------------------------------------------------------- Z4 finite zones
def check_unique_zones(prog, rep, fs, entry_of):
    n = 0
    for f in fs:
        for s in f.own_nodes():
            if isinstance(s, ast.Assign) and isinstance(s.targets[0], ast.Name) and isinstance(s.value, ast.Call) and \
                    short(s.value) == 'unique' and s.value.args and 'zones' in norm(s.value.args[0]) and \
                    'zone_ids' not in norm(s.value.args[0]):
                a = s.value.args[0]
                ok = isinstance(a, ast.Subscript) and isinstance(a.slice, ast.Call) and short(a.slice) == 'isfinite' \
                    and norm(a.slice.args[0]) == norm(a.value)
                n += 1
                rep.add('Z4', f, entry_of(f), norm(s), s.lineno, ok,
                        'cells whose zone is NaN or infinite belong to no zone: the zone ids must be the distinct '
                        'FINITE values of the zones raster')
    return n


# ------------------------------------------------------------------------------------------- Z4b index spaces
def check_index_space(prog, rep, fs, entry_of):
    """the offsets produced by the stride routine, the value vector they slice and the permutation used to scatter
    results must live in one index space (D13: a finite filter applied to the zone vector only)."""
    n = 0
    for f in fs:
        if f.is_lambda:
            continue
        stride_calls = []
        for s in f.own_nodes():
            if isinstance(s, ast.Assign) and isinstance(s.value, ast.Call):
                t = prog.resolve_callable(f, f.module, s.value.func)
                if isinstance(t, Func) and t.name == '_strides':
                    stride_calls.append(s)
        rets = [r for r in f.own_nodes() if isinstance(r, ast.Return) and isinstance(r.value, ast.Tuple)]

        def sorts(g, depth=0):
            # the routine sorts the cells itself or in a helper of the module
            if any(short(c) == 'argsort' for c in calls(g.node)):
                return True
            if depth >= 2:
                return False
            for c in calls(g.node):
                try:
                    t_ = prog.resolve_callable(g, g.module, c.func)
                except Exception:      # noqa
                    continue
                if isinstance(t_, Func) and prog.same_unit(g.module, t_.module) and t_ is not g and sorts(t_, depth + 1):
                    return True
            return False
        if rets and len(rets[-1].value.elts) >= 3 and sorts(f) and not stride_calls and \
                not any(isinstance(prog.resolve_callable(f, f.module, c.func), Func) and
                        ids_param(prog, prog.resolve_callable(f, f.module, c.func)) is not None for c in calls(f.node) if c in f.own_nodes()):
            # the routine sorts the cells and hands back a tuple, but the segment offsets do not come from the stride routine
            n += 1
            rep.add('Z4b', f, entry_of(f), 'return %s: offsets not from the stride routine' % norm(rets[-1].value), rets[-1].lineno, False,
                    'the end of each id\'s run must come from the stride routine applied to the sorted zone vector and ALL ids: it '
                    'repeats the previous offset for an id that is absent from this block, so that the next id still starts where '
                    'the last present one ended (offsets scattered from counts leave 0 there and restart the cursor)')
            continue
        if not stride_calls or not rets or not sorts(f):
            continue
        # abstract execution of the straight-line body (helpers of the module are executed the same way on the spaces
        # of their arguments: a phase split off the routine reads like the statements it replaced)
        def run(func, space, perms, depth):
            version = {}

            def vtext(e):
                t = norm(e)
                for x in sorted({y.id for y in ast.walk(e) if isinstance(y, ast.Name)}, key=len, reverse=True):
                    t = t.replace(x, '%s#%d' % (x, version.get(x, 0)))
                return t

            def sp(e):
                if isinstance(e, ast.Name):
                    return space.get(e.id)
                if isinstance(e, ast.Call):
                    nm = short(e)
                    if nm in ('ravel', 'flatten', 'reshape', 'deepcopy', 'copy', 'astype'):
                        base = e.func.value if isinstance(e.func, ast.Attribute) and nm != 'deepcopy' else (e.args[0] if e.args else None)
                        r = sp(base) if base is not None else None
                        return r or 'CELLS'
                    if nm == 'argsort':
                        return sp(e.args[0]) if e.args else None
                    t_ = None
                    try:
                        t_ = prog.resolve_callable(func, func.module, e.func)
                    except Exception:      # noqa
                        t_ = None
                    if isinstance(t_, Func) and prog.same_unit(f.module, t_.module) and t_.jit is None and depth < 2 and not e.keywords and \
                            len(e.args) == len(t_.params):
                        sub_space = {p_: sp(a_) for p_, a_ in zip(t_.params, e.args)}
                        sub_perms = {p_ for p_, a_ in zip(t_.params, e.args) if isinstance(a_, ast.Name) and a_.id in perms}
                        sspace, sperms, srets = run(t_, sub_space, sub_perms, depth + 1)
                        vals = {repr(v_) for v_ in srets}
                        if len(vals) == 1 and srets and not isinstance(srets[0], list):
                            return srets[0]
                    return None
                if isinstance(e, ast.Subscript):
                    idx = e.slice
                    last = idx.elts[-1] if isinstance(idx, ast.Tuple) else idx
                    if isinstance(last, ast.Name) and last.id in space and last.id in perms:
                        return space[last.id]          # gathered by a permutation: lives in the permutation's space
                    if isinstance(last, ast.Slice) and not (last.lower is None and last.upper is None) and last.step is None:
                        # a positional cut: [lo:hi] of the sorted order
                        return 'S(%s|%s:%s)' % (sp(e.value), vtext(last.lower) if last.lower is not None else '',
                                                vtext(last.upper) if last.upper is not None else '')
                    if isinstance(last, ast.Call) and short(last) in ('isfinite', 'isnan', 'logical_and') or \
                            isinstance(last, (ast.Compare, ast.BinOp, ast.UnaryOp)):
                        return 'F(%s|%s)' % (sp(e.value), vtext(last))
                    if isinstance(last, ast.Name):
                        mv = [v_ for v_ in func.local_assigns().get(last.id, []) if isinstance(v_, ast.AST)]
                        if len(mv) == 1 and (isinstance(mv[0], ast.Call) and short(mv[0]) in ('isfinite', 'isnan', 'logical_and') or
                                             isinstance(mv[0], (ast.Compare, ast.BinOp, ast.UnaryOp))):
                            return 'F(%s|%s)' % (sp(e.value), vtext(mv[0]))      # a mask held in a local
                        return sp(e.value)
                    return sp(e.value)
                if isinstance(e, ast.Attribute):
                    return sp(e.value) or 'CELLS'
                return None

            def is_perm(v_):
                return (isinstance(v_, ast.Call) and short(v_) == 'argsort') or \
                    (isinstance(v_, ast.Subscript) and isinstance(v_.value, ast.Name) and v_.value.id in perms)
            body = sorted([s_ for s_ in func.own_nodes() if isinstance(s_, (ast.Assign, ast.Return))], key=lambda s_: (s_.lineno, s_.col_offset))
            rets_ = []
            for s_ in body:
                if isinstance(s_, ast.Return):
                    if s_.value is not None and not isinstance(s_.value, ast.Tuple):
                        rets_.append(sp(s_.value))
                    elif s_.value is not None:
                        rets_.append([sp(x) for x in s_.value.elts])
                    continue
                t = s_.targets[0]
                pairs = []
                if isinstance(t, ast.Name):
                    pairs = [(t, s_.value)]
                elif isinstance(t, ast.Tuple) and isinstance(s_.value, ast.Tuple) and len(t.elts) == len(s_.value.elts) and \
                        all(isinstance(x, ast.Name) for x in t.elts):
                    pairs = list(zip(t.elts, s_.value.elts))
                elif isinstance(t, ast.Tuple) and all(isinstance(x, ast.Name) for x in t.elts) and isinstance(s_.value, ast.Call):
                    # a, b = helper(..): the helper's returned pair
                    try:
                        t_ = prog.resolve_callable(func, func.module, s_.value.func)
                    except Exception:      # noqa
                        t_ = None
                    if isinstance(t_, Func) and prog.same_unit(f.module, t_.module) and t_.jit is None and depth < 2 and not s_.value.keywords and \
                            len(s_.value.args) == len(t_.params):
                        sub_space = {p_: sp(a_) for p_, a_ in zip(t_.params, s_.value.args)}
                        sub_perms = {p_ for p_, a_ in zip(t_.params, s_.value.args) if isinstance(a_, ast.Name) and a_.id in perms}
                        sspace, sperms, srets = run(t_, sub_space, sub_perms, depth + 1)
                        if len(srets) == 1 and isinstance(srets[0], list) and len(srets[0]) == len(t.elts):
                            for x, v_ in zip(t.elts, srets[0]):
                                space[x.id] = v_
                                version[x.id] = version.get(x.id, 0) + 1
                            # which components are permutations: by the helper's own statements
                            rv_ = [r_ for r_ in t_.own_nodes() if isinstance(r_, ast.Return)][0].value
                            for x, rexp in zip(t.elts, rv_.elts):
                                if (isinstance(rexp, ast.Name) and rexp.id in sperms) or \
                                        (isinstance(rexp, ast.Subscript) and isinstance(rexp.value, ast.Name) and rexp.value.id in sperms):
                                    perms.add(x.id)
                    continue
                for t1, v1 in pairs:
                    if is_perm(v1):
                        perms.add(t1.id)
                    if s_ in stride_calls and len(pairs) == 1:
                        ss = sp(v1.args[0])
                        space[t1.id] = ('OFFSETS', ss)
                    else:
                        space[t1.id] = sp(v1)
                    version[t1.id] = version.get(t1.id, 0) + 1
                if not pairs and isinstance(t, ast.Subscript) and isinstance(t.value, ast.Name):
                    # values_by_zones[i] = values_by_zones[i][perm]  -> last axis gathered
                    v = sp(s_.value)
                    if v is not None:
                        space[t.value.id] = v
            return space, perms, rets_
        space, perms, _r = run(f, {p: 'CELLS' for p in f.params}, set(), 0)
        ret = rets[-1].value.elts
        got = [space.get(e.id) if isinstance(e, ast.Name) else None for e in ret]
        offs = [g for g in got if isinstance(g, tuple)]
        arrays = [g for g in got if not isinstance(g, tuple)]
        ok = bool(offs) and all(a == offs[0][1] for a in arrays) and len(arrays) >= 1
        why_ = ''
        if ok:
            # ... and that filter is a test of the VALUES for finiteness: in the sorted order NaN and +inf form a tail but
            # -inf cells come first, so a cut at a position (`[:n_finite]`) keeps them
            zs = str(offs[0][1])
            valued = 'isfinite' in zs or ('isnan' in zs and 'isinf' in zs)
            if not valued:
                import re as _re
                cuts = _re.findall(r'S\([^|]*\|([^:]*):', zs)
                if 'S(' not in zs or all(c_ == '' for c_ in cuts):
                    ok = False
                    why_ = '; the zone vector reaches the stride routine %s: -inf zone cells sort FIRST and stay in' % (
                        'cut at a position from the end only' if 'S(' in zs else 'without a finiteness test')
                else:
                    ok = None
                    why_ = '; the zone vector is cut at positions on both ends: whether that removes exactly the non-finite cells is not decided'
        n += 1
        rep.add('Z4b', f, entry_of(f), 'return %s: index spaces %s' % (norm(rets[-1].value), got), rets[-1].lineno, ok,
                'segment offsets are computed on the zone vector AFTER a finite filter, so every array they slice (the '
                'gathered values, the permutation) must have gone through the same filter; otherwise a -inf zone cell '
                '(sorted first) shifts every segment by one' + why_)
    return n


# ------------------------------------------------------------------------------------------- Z5 NaN init / guard
def check_nan_results(prog, rep, fs, entry_of):
    n = 0
    calc_funcs = []
    for f in fs:
        if f.is_lambda:
            continue
        for c in calls(f.node):
            if c in f.own_nodes() and isinstance(c.func, ast.Name) and c.func.id in f.params and len(c.args) == 1:
                # result store: results[i] = func(zone_values)
                pm = parent_map(f.node)
                st = pm.get(c)
                if isinstance(st, ast.Assign) and isinstance(st.targets[0], ast.Subscript) and \
                        isinstance(st.targets[0].value, ast.Name):
                    res = st.targets[0].value.id
                    inits = [v for v in f.local_assigns().get(res, []) if isinstance(v, ast.AST)]
                    from .astutil import nan_initialised
                    init_ok = nan_initialised(f.node, res)
                    a0 = norm(c.args[0])
                    pos = ('len(%s)>0' % a0, '%s.size>0' % a0, 'len(%s)!=0' % a0, '%s.shape[0]>0' % a0, 'len(%s)>=1' % a0)
                    neg = ('len(%s)==0' % a0, '%s.size==0' % a0, 'notlen(%s)' % a0, '%s.shape[0]==0' % a0, 'len(%s)<1' % a0)
                    # non-emptiness dominates the store: an enclosing `if len(v) > 0`, or an earlier
                    # `if len(v) == 0: continue / return` in an enclosing block
                    guard_ok = False
                    cur = st
                    while cur is not None and not guard_ok:
                        par = pm.get(cur)
                        if isinstance(par, ast.If) and cur in par.body and _ctt(par.test) in pos:
                            guard_ok = True
                        if isinstance(par, ast.If) and cur in par.orelse and _ctt(par.test) in neg:
                            guard_ok = True
                        for fld in ('body', 'orelse'):
                            blk = getattr(par, fld, None)
                            if isinstance(blk, list) and cur in blk:
                                for prev in blk[:blk.index(cur)]:
                                    if isinstance(prev, ast.If) and _ctt(prev.test) in neg and prev.body and \
                                            isinstance(prev.body[-1], (ast.Continue, ast.Return, ast.Break)) and not prev.orelse:
                                        # the tested vector must not be rebound between the test and the store
                                        guard_ok = True
                        cur = par if not isinstance(par, (ast.FunctionDef, ast.For, ast.While)) else None
                    n += 1
                    rep.add('Z5', f, entry_of(f), norm(st), st.lineno, init_ok and guard_ok,
                            'a zone with no valid cell must get NaN: the result vector must be NaN-initialised and '
                            'assigned only when the filtered values are non-empty (init ok: %s, guard ok: %s)'
                            % (init_ok, guard_ok))
                    calc_funcs.append(f)
    # ... and NaN must survive to the caller: what the per-zone routine returns is not cast to an integer dtype on the way
    # into the result (NaN has no integer representation: a zone without valid cells would get INT_MIN)
    INTS = ('int', 'np.int64', 'np.int32', 'np.int16', 'np.int8', 'np.uint8', 'np.uint16', 'np.uint32', 'np.uint64', "'i8'", "'i4'", "'int64'",
            "'int32'", 'numpy.int64', 'numpy.int32', 'np.intp', 'np.int_')
    for g in fs:
        if g.is_lambda or not calc_funcs:
            continue
        holders = set()
        for n_ in g.own_nodes():
            if isinstance(n_, ast.Assign) and any(isinstance(c_, ast.Call) and prog.resolve_callable(g, g.module, c_.func) in calc_funcs
                                                  for c_ in ast.walk(n_.value)):
                for t_ in n_.targets:
                    b_ = t_
                    while isinstance(b_, ast.Subscript):
                        b_ = b_.value
                    if isinstance(b_, ast.Name):
                        holders.add(b_.id)
        if not holders:
            continue
        for c_ in calls(g.node):
            if c_ in g.own_nodes() and isinstance(c_.func, ast.Attribute) and c_.func.attr == 'astype' and c_.args and \
                    norm(c_.args[0]).replace(' ', '') in INTS and any(isinstance(x, ast.Name) and x.id in holders for x in ast.walk(c_.func.value)):
                n += 1
                rep.add('Z5', g, entry_of(g), norm(c_)[:120], c_.lineno, False,
                        'a zone with no valid cell must get NaN in every statistic (count included): the per-zone results are cast to an '
                        'integer dtype here, which turns NaN into a number')
    return n


# ------------------------------------------------------------------------------------------- ZS strides
def check_strides(prog, rep, m, entry):
    """ZS on the interpreted stride routine: one cursor starts at 0, is never reset, advances by one while (bounds test
    first) the sorted vector at the cursor equals the i-th id, and its value after that run is recorded for every id"""
    from .kai import interpret, cond_repr
    from .kutil import CannotEvaluate, eval_cond_full, guard_atoms
    from .sym import App, Rat, Sym
    from fractions import Fraction
    f = m.funcs.get('_strides')
    if f is None:
        raise AnalysisIncomplete('_strides not found')
    ok = None
    why = 'shape not recognised'
    try:
        k = interpret(prog, f, strict=False, index_arrays=True)
        outs = [v for v, g in k.returns]
        fors = [L for L in k.loops if L.kind == 'range']
        whiles = [L for L in k.loops if L.kind == 'while']
        stores = [st for st in k.stores if outs and st.arr is outs[0] and st.loops]
        if len(fors) == 1 and len(whiles) == 1 and len(stores) == 1 and len(whiles[0].phi) == 1:
            from .kutil import evaluate
            Lo, Lw, st = fors[0], whiles[0], stores[0]
            sortedv, ids = f.params[0], f.params[1]
            cname = next(iter(Lw.phi))
            c = Lw.phi[cname]
            C = next(iter(c.atoms()))
            i = Rat.sym(Lo.var)
            full = Lo.lo == Rat.const(0) and Lo.step == Rat.const(1) and repr(Lo.hi) in (
                repr(Rat.atom(App('len', [Rat.sym(ids)]))), repr(Rat.atom(App('shape', [ids, 0]))))
            start0 = Lo.pre.get(cname) == Rat.const(0)
            carried = Lw.pre.get(cname) == Lo.phi.get(cname) and cname in Lo.carried and \
                '~wout' in repr(Lo.carried[cname][1]) and Lo.carried[cname][1] == st.value
            recorded = tuple(st.idx) == (i,) and not st.guards
            # one step of the run, evaluated: the cursor advances by one exactly while it is inside the vector AND the
            # element under it equals the i-th id; otherwise the run ends (loop test false or a break) with the cursor
            # unchanged.  The loop test and the breaks may be arranged in any way.
            elem = App('read', [sortedv, c])
            idat = App('read', [ids, i])
            ats = guard_atoms([Lw.test])
            for g_, env_, nb_ in Lw.breaks:
                ats |= guard_atoms(g_)
            n_at = [a for a in ats if isinstance(a, App) and a.name in ('shape', 'len')]
            n_at += [a for a in ats if isinstance(a, Sym) and a not in (C,) and a.name.split('~')[0] not in (Lo.var,) and '@' not in a.name]
            vals = []
            for cv, ev, iv in ((2, 7, 7), (2, 7, 8), (5, 7, 7), (6, 7, 7)):
                env = {C: Fraction(cv), idat: Fraction(iv), Sym(Lo.var): Fraction(1)}
                if cv < 5:
                    env[elem] = Fraction(ev)      # beyond the end there is no element: needing it is an error
                for a in n_at:
                    env[a] = Fraction(5)
                # values hoisted before the run (zone = ids[i]) are loop-invariant symbols of the while loop
                for nm_, v_ in Lw.pre.items():
                    if isinstance(v_, Rat) and v_ == Rat.atom(idat) and nm_ in Lw.phi:
                        env[next(iter(Lw.phi[nm_].atoms()))] = Fraction(iv)
                if not eval_cond_full(Lw.test, env):
                    vals.append(False)
                    continue
                if any(all(eval_cond_full(x, env) for x in g_) for g_, env_, nb_ in Lw.breaks):
                    vals.append(False)
                    continue
                vals.append(evaluate(Lw.carried[cname][1], env) == cv + 1)
            test_ok = vals == [True, False, False, False]
            # no path of an iteration changes the cursor without advancing it by one
            step1 = cname in Lw.carried and all(x == c or x == c + Rat.const(1) for x in _ite_leaf_values(Lw.carried[cname][1]))
            # evaluation order (source order of the atomic tests of one step): the cursor is compared with the length
            # before the element under it is read
            seq = []

            def atoms_in_order(e):
                if isinstance(e, ast.BoolOp):
                    for v_ in e.values:
                        atoms_in_order(v_)
                elif isinstance(e, ast.UnaryOp) and isinstance(e.op, ast.Not):
                    atoms_in_order(e.operand)
                else:
                    seq.append(e)
            atoms_in_order(Lw.node.test)
            for s_ in Lw.node.body:
                if isinstance(s_, ast.If):
                    atoms_in_order(s_.test)
                elif isinstance(s_, (ast.AugAssign, ast.Assign)) and any(isinstance(x, ast.Name) and x.id == cname and isinstance(x.ctx, ast.Store)
                                                                          for x in ast.walk(s_)):
                    break

            def reads_elem(e):
                return any(isinstance(x, ast.Subscript) and isinstance(x.value, ast.Name) and x.value.id == sortedv and
                           any(isinstance(y, ast.Name) and y.id == cname for y in ast.walk(x.slice)) for x in ast.walk(e))
            ei = [n_ for n_, e in enumerate(seq) if reads_elem(e)]
            bi = [n_ for n_, e in enumerate(seq) if not reads_elem(e) and any(isinstance(y, ast.Name) and y.id == cname for y in ast.walk(e))]
            first_bound = bool(ei) and bool(bi) and min(bi) < min(ei)
            ok = full and start0 and carried and step1 and recorded and test_ok and first_bound
            why = 'all ids: %s, cursor starts at 0: %s, carried across ids and recorded after the run: %s, advances by 1: %s, ' \
                  'stored for every id: %s, run continues (inside and equal / different id / at the end / beyond the end): %s, ' \
                  'length test before the element read: %s' % (full, start0, carried, step1, recorded, vals, first_bound)
    except (AnalysisIncomplete, CannotEvaluate) as e:
        ok, why = None, str(e)
    rep.add('ZS', f, entry, '_strides loop skeleton', f.node.lineno, ok,
            'the stride routine must advance one monotone cursor while the sorted vector equals the i-th id (bounds '
            'test first) and record the cursor once per id: ' + why)


def _is_category(ka, UC='unique_cats'):
    """is this atom the category visited by the loop: the item of enumerate(unique_cats), the unique_cats component of a zip,
    an element of unique_cats itself, or unique_cats[j]"""
    from .sym import App, Rat
    if not isinstance(ka, App):
        return False
    if ka.name in ('read', 'cell?'):
        return ka.args[0] == UC
    if ka.name != 'elem':
        return False
    src = ka.args[0]
    sa = _one_atom(src) if isinstance(src, Rat) else src
    comp = int(ka.args[2].const_value()) if len(ka.args) > 2 and isinstance(ka.args[2], Rat) and ka.args[2].is_const() else None
    if isinstance(sa, App) and sa.name == 'iter:enumerate':
        return comp == 2 and UC in repr(sa.args[0])
    if isinstance(sa, App) and sa.name == 'iter:zip':
        return comp is not None and 1 <= comp <= len(sa.args) and UC in repr(sa.args[comp - 1])
    return comp is None and UC in repr(src)


def _one_atom(r):
    if r.d.is_const() and len(r.n.t) == 1:
        (mm, cc), = r.n.t.items()
        if len(mm) == 1 and mm[0][1] == 1 and cc == r.d.const_value():
            return mm[0][0]
    return None


def _ite_leaf_values(r):
    from .sym import App, Rat
    a = None
    if isinstance(r, Rat) and r.d.is_const() and len(r.n.t) == 1:
        (mm, cc), = r.n.t.items()
        if len(mm) == 1 and mm[0][1] == 1 and cc == r.d.const_value():
            a = mm[0][0]
    if isinstance(a, App) and a.name == 'ite':
        return _ite_leaf_values(a.args[1]) + _ite_leaf_values(a.args[2])
    return [r]


# ------------------------------------------------------------------------------------------- ZT default table
def table_entries(m, name):
    vals = m.assigns.get(name, [])
    if len(vals) != 1:
        raise AnalysisIncomplete('module table %s not found as one assignment' % name)
    v = vals[0]
    if isinstance(v, ast.Call) and short(v) == 'dict':
        return [(k.arg, k.value) for k in v.keywords]
    if isinstance(v, ast.Dict):
        return [(const(k), val) for k, val in zip(v.keys, v.values)]
    raise AnalysisIncomplete('module table %s is not a dict literal' % name)


def lambda_body(v):
    return v.body if isinstance(v, ast.Lambda) else None


def check_default_stats(prog, rep, m, entry):
    n = 0
    for key, v in table_entries(m, '_DEFAULT_STATS'):
        b = lambda_body(v)
        p = v.args.args[0].arg if isinstance(v, ast.Lambda) else None
        if key == 'count':
            ok = b is not None and isinstance(b, ast.Call) and short(b) == '_stats_count' and norm(b.args[0]) == p
        else:
            ok = b is not None and norm(b) == '%s.%s()' % (p, key)
        n += 1
        rep.add('ZT', m, entry, "_DEFAULT_STATS[%r] = %s" % (key, norm(v)), v.lineno, ok,
                'statistic %r must be computed by the same-named array method on the zone\'s valid values' % key)
    return n


def check_user_reducers(prog, rep, m, entry, pubname='stats', param='stats_funcs'):
    """ZT-user: a reducer the caller supplies (a dict name -> function) is the one that is applied: the table of built-in
    statistics is consulted only for NAMES given as a list.  A lookup `_DEFAULT_STATS.get(name, ...)` / `_DEFAULT_STATS[name]`
    that runs when the caller's argument is a dict replaces `{'std': my_sample_std}` by the built-in population `std`.
    Decided on the public function (helpers in place): every lookup into the table keyed by something that comes from the
    caller's argument sits on a path where that argument is known to be a list - in the body of `if isinstance(arg, list)`
    or in the `else` of `if isinstance(arg, dict)` - or after the dict case has returned."""
    pub = m.funcs.get(pubname)
    if pub is None or param not in pub.params:
        return 0
    from .inline import inline_view
    fv = inline_view(prog, pub, allow_loops=True)        # the table may be consulted by a helper that loops over the names
    from .astutil import parent_map
    pm = parent_map(fv.node)
    lookups = []
    for n_ in fv.own_nodes():
        tbl = None
        if isinstance(n_, ast.Subscript) and isinstance(n_.value, ast.Name) and n_.value.id == '_DEFAULT_STATS' and isinstance(n_.ctx, ast.Load):
            tbl = n_
        elif isinstance(n_, ast.Call) and isinstance(n_.func, ast.Attribute) and n_.func.attr == 'get' and isinstance(n_.func.value, ast.Name) and \
                n_.func.value.id == '_DEFAULT_STATS':
            tbl = n_
        if tbl is not None:
            lookups.append(tbl)

    def is_inst(test, kinds):
        return isinstance(test, ast.Call) and isinstance(test.func, ast.Name) and test.func.id == 'isinstance' and len(test.args) == 2 and \
            isinstance(test.args[0], ast.Name) and test.args[0].id == param and norm(test.args[1]) in kinds
    bad = []
    for lk in lookups:
        guarded = False
        cur = lk
        while cur in pm:
            par = pm[cur]
            if isinstance(par, ast.If):
                inbody = any(cur is b_ or any(cur is x for x in ast.walk(b_)) for b_ in par.body)
                if inbody and is_inst(par.test, ('list', '(list, tuple)', '(tuple, list)', 'tuple')):
                    guarded = True
                if not inbody and cur is not par.test and is_inst(par.test, ('dict',)):
                    guarded = True
            cur = par
        if not guarded:
            bad.append(lk)
    n = 0
    for lk in bad:
        n += 1
        rep.add('ZT-user', fv, entry, norm(lk)[:100], lk.lineno, False,
                'the table of built-in statistics is consulted although the caller may have passed a dict of his own functions: a '
                'reducer given under a built-in name (`{"std": sample_std}`) is replaced by the built-in one')
    if lookups and not bad:
        n += 1
        rep.add('ZT-user', fv, entry, 'built-in statistics looked up for names given as a list only (%d lookups)' % len(lookups), fv.node.lineno, True)
    return n


# ------------------------------------------------------------------------------------------- Z6 dask algebra
MERGE = {'max': 'nanmax', 'min': 'nanmin', 'sum': 'SUM', 'count': 'SUM', 'sum_squares': 'SUM'}
BLOCK = {'max': '{p}.max()', 'min': '{p}.min()', 'sum': '{p}.sum()'}
WIDE = ('np.float64', 'float', "'f8'", "'float64'", 'numpy.float64')


def nan_transparent_sum(prog, m, body, p):
    """'plain' for np.nansum(p, axis=0); 'guarded' for an all-NaN-guarded nansum (directly or through a helper)"""
    if isinstance(body, ast.Call) and short(body) == 'nansum' and norm(body.args[0]) == p and \
            kw(body, 'axis') is not None and const(kw(body, 'axis')) == 0:
        return 'plain'
    if isinstance(body, ast.Call) and short(body) == 'where' and len(body.args) == 3:
        c, a, b = body.args
        ctext = norm(c).replace(' ', '')
        allnan = ctext in ('np.all(np.isnan(%s),axis=0)' % p, 'np.isnan(%s).all(axis=0)' % p)
        if allnan and norm(a) in ('np.nan', 'numpy.nan') and nan_transparent_sum(prog, m, b, p) == 'plain':
            return 'guarded'
    if isinstance(body, ast.Call) and isinstance(body.func, ast.Name) and body.func.id in m.funcs and len(body.args) == 1 \
            and norm(body.args[0]) == p:
        h = m.funcs[body.func.id]
        env = {}
        ret = None
        masked = {}
        for s in h.node.body:
            if isinstance(s, ast.Assign) and isinstance(s.targets[0], ast.Name):
                env[s.targets[0].id] = inline(s.value, env)
            elif isinstance(s, ast.Assign) and isinstance(s.targets[0], ast.Subscript) and isinstance(s.targets[0].value, ast.Name) and \
                    norm(s.value) in ('np.nan', 'numpy.nan', "float('nan')"):
                # totals[all_nan] = nan: the same selection as np.where(all_nan, nan, totals)
                masked[s.targets[0].value.id] = inline(s.targets[0].slice, env)
            elif isinstance(s, ast.Return):
                if isinstance(s.value, ast.Name) and s.value.id in masked and s.value.id in env:
                    ret = ast.Call(func=ast.Attribute(value=ast.Name(id='np', ctx=ast.Load()), attr='where', ctx=ast.Load()),
                                   args=[masked[s.value.id], ast.Attribute(value=ast.Name(id='np', ctx=ast.Load()), attr='nan', ctx=ast.Load()),
                                         env[s.value.id]], keywords=[])
                else:
                    ret = inline(s.value, env)
        if ret is not None:
            return nan_transparent_sum(prog, m, ret, h.params[0])
    return None


def check_dask_tables(prog, rep, m, entry):
    blocks = dict(table_entries(m, '_DASK_BLOCK_STATS'))
    merges = dict(table_entries(m, '_DASK_STATS'))
    n = 0
    for key in MERGE:
        bv, mv = blocks.get(key), merges.get(key)
        if bv is None or mv is None:
            rep.add('Z6a', m, entry, 'tables entry %r' % key, 1, False, 'entry %r missing from the block/merge tables' % key)
            continue
        bp = bv.args.args[0].arg
        bb = lambda_body(bv)
        # ---- block reducer
        if key in BLOCK:
            okb = norm(bb) == BLOCK[key].format(p=bp)
        elif key == 'count':
            okb = isinstance(bb, ast.Call) and short(bb) == '_stats_count' and norm(bb.args[0]) == bp
        else:
            okb = is_sum_of_squares(bb, bp)[0]
        n += 1
        rep.add('Z6a', m, entry, "_DASK_BLOCK_STATS[%r] = %s" % (key, norm(bv)), bv.lineno, okb,
                'per-block partial for %r must be the block %s' % (key, {'sum_squares': 'sum of squares'}.get(key, key)))
        if key == 'sum_squares':
            okd, whyd = is_sum_of_squares(bb, bp)
            wide = okd and whyd == 'wide'
            n += 1
            rep.add('Z6d', m, entry, "_DASK_BLOCK_STATS['sum_squares'] = %s" % norm(bv), bv.lineno, wide,
                    'the square must not be taken in the raster\'s own dtype: uint8/int16 values wrap before the '
                    'sum is widened (var becomes negative, std NaN); cast to float64 before squaring')
        # ---- merge
        mp = mv.args.args[0].arg
        mb = lambda_body(mv)
        want = MERGE[key]
        if want == 'SUM':
            kind = nan_transparent_sum(prog, m, mb, mp)
            n += 1
            rep.add('Z6a', m, entry, "_DASK_STATS[%r] = %s" % (key, norm(mv)), mv.lineno, kind is not None,
                    'block partials of %r must be merged by a NaN-ignoring sum over the block axis (axis=0)' % key)
            n += 1
            rep.add('Z6c', m, entry, "_DASK_STATS[%r] = %s" % (key, norm(mv)), mv.lineno, kind == 'guarded',
                    'a zone with no valid cell in any block must stay NaN as on the numpy path: np.nansum of an all-NaN '
                    'column is 0 (numpy path: NaN for sum and count of an empty zone)')
        else:
            okm = isinstance(mb, ast.Call) and short(mb) == want and norm(mb.args[0]) == mp and \
                kw(mb, 'axis') is not None and const(kw(mb, 'axis')) == 0
            n += 1
            rep.add('Z6a', m, entry, "_DASK_STATS[%r] = %s" % (key, norm(mv)), mv.lineno, okm,
                    'block partials of %r must be merged by np.%s over the block axis (axis=0)' % (key, want))
            extra = [k_.arg for k_ in mb.keywords if k_.arg not in ('axis',)] if isinstance(mb, ast.Call) else []
            if extra or (isinstance(mb, ast.Call) and len(mb.args) > 1):
                n += 1
                rep.add('Z6c', m, entry, "_DASK_STATS[%r] = %s" % (key, norm(mv)), mv.lineno, False,
                        'a zone with no valid cell in any block must stay NaN as on the numpy path: with `%s` the reduction of an '
                        'all-NaN column is that identity element (-inf / inf / 0), not NaN' % (extra[0] if extra else 'a second argument'))
    return n


def is_sum_of_squares(b, p):
    """(z.astype(f64)**2).sum() | (z**2).sum() | np.sum(z*z) ... -> (True, 'wide'|'raw')"""
    if isinstance(b, ast.Call) and isinstance(b.func, ast.Attribute) and b.func.attr == 'sum' and not b.args:
        inner = b.func.value
    elif isinstance(b, ast.Call) and short(b) in ('sum', 'nansum') and b.args:
        inner = b.args[0]
    else:
        return False, ''
    base = None
    if isinstance(inner, ast.BinOp) and isinstance(inner.op, ast.Pow) and const(inner.right) == 2:
        base = inner.left
    elif isinstance(inner, ast.BinOp) and isinstance(inner.op, ast.Mult) and norm(inner.left) == norm(inner.right):
        base = inner.left
    elif isinstance(inner, ast.Call) and short(inner) == 'square' and inner.args:
        base = inner.args[0]
    if base is None:
        return False, ''
    if norm(base) == p:
        return True, 'raw'
    if isinstance(base, ast.Call) and isinstance(base.func, ast.Attribute) and base.func.attr == 'astype' and \
            norm(base.func.value) == p and base.args and norm(base.args[0]) in WIDE:
        return True, 'wide'
    if isinstance(base, ast.Call) and norm(base.func) in ('np.float64', 'numpy.float64') and norm(base.args[0]) == p:
        return True, 'wide'
    return False, ''


def check_derived_stats(prog, rep, m, fs, entry):
    """Z6b: mean = s/n, var = (ss - sq/n)/n, std = sqrt(var); call sites bind (sum_squares, sum**2, count)"""
    n = 0
    want = {'_dask_mean': ('sums / counts', 2), '_dask_var': ('(sum_squares - squared_sum / n) / n', 3),
            '_dask_std': ('sqrt((sum_squares - squared_sum / n) / n)', 3)}
    for name, (text, ar) in want.items():
        f = m.funcs.get(name)
        if f is None:
            raise AnalysisIncomplete('%s not found' % name)
        rets = [s for s in f.own_nodes() if isinstance(s, ast.Return)]
        ok = False
        got = None
        if len(rets) == 1 and len(f.params) == ar:
            canon = ['sums', 'counts'] if ar == 2 else ['sum_squares', 'squared_sum', 'n']
            env = {p: Rat.sym(c) for p, c in zip(f.params, canon)}
            try:
                sp = Spec(prog, env, m)
                got = sp.it.as_scalar(sp.it.ev(rets[0].value))
                w = Spec(prog, {c: Rat.sym(c) for c in canon}, m).expr(text)
                ok = got == w
            except AnalysisIncomplete:
                ok = False
        n += 1
        rep.add('Z6b', f, entry, '%s: %s' % (name, norm(rets[0]) if rets else ''), f.node.lineno, ok,
                'must equal %s over (parameters in order) %s' % (text, f.params))
    # call sites (a derived-statistic helper calling another one passes its own parameters: covered by the formula rule)
    for f in fs:
        if f.name in want:
            continue
        for c in calls(f.node):
            if c not in f.own_nodes():
                continue
            t = prog.resolve_callable(f, m, c.func)
            if isinstance(t, Func) and t.name in want:
                # arguments with local aliases resolved (sums = stats_dict['sum'] ...): assignments before the call
                from .astutil import inline as _inl, straightline_env as _senv
                prior = sorted([s_ for s_ in f.own_nodes() if isinstance(s_, ast.Assign) and s_.lineno < c.lineno and
                                not (isinstance(s_.targets[0], ast.Subscript))], key=lambda s_: (s_.lineno, s_.col_offset))
                mutated = {norm(s_.targets[0].value) for s_ in f.own_nodes() if isinstance(s_, ast.Assign) and
                           isinstance(s_.targets[0], ast.Subscript)}
                envl = {k_: v_ for k_, v_ in _senv([s_ for s_ in prior if not any(
                    isinstance(t_, ast.Name) and t_.id in mutated for t_ in s_.targets)]).items() if k_ not in mutated}
                # what reaches each parameter: entries of ONE per-statistic table (whatever the local is called), by key
                bound = dict(zip(t.params, c.args))
                bound.update({k_.arg: k_.value for k_ in c.keywords if k_.arg})
                ex = [_inl(bound[p_], envl) if p_ in bound else None for p_ in t.params]

                def entry_of(e, squared=False):
                    # (table name, key) of `table['key']`, or of `table['key'] ** 2` / `table['key'] * table['key']`
                    if squared:
                        if isinstance(e, ast.BinOp) and isinstance(e.op, ast.Pow) and const(e.right) == 2:
                            return entry_of(e.left)
                        if isinstance(e, ast.BinOp) and isinstance(e.op, ast.Mult) and norm(e.left) == norm(e.right):
                            return entry_of(e.left)
                        return None
                    if isinstance(e, ast.Subscript) and isinstance(e.value, ast.Name) and isinstance(const(e.slice), str):
                        return e.value.id, const(e.slice)
                    return None
                if t.name == '_dask_mean':
                    got = [entry_of(ex[0]), entry_of(ex[1])] if len(ex) == 2 else []
                    keys = ['sum', 'count']
                else:
                    got = [entry_of(ex[0]), entry_of(ex[1], squared=True), entry_of(ex[2])] if len(ex) == 3 else []
                    keys = ['sum_squares', 'sum', 'count']
                ok = bool(got) and all(g is not None for g in got) and [g[1] for g in got] == keys and len({g[0] for g in got}) == 1
                n += 1
                rep.add('Z6b', f, entry, norm(c)[:160], c.lineno, ok,
                        'derived statistics must be fed (sum_squares, sum**2, count) resp. (sum, count), in this order')
    return n


# ------------------------------------------------------------------------------------------- Z7/Z8/Z9
def delayed_tasks(m):
    return [f for f in m.funcs.values() if f.jit is not None and f.jit.kind == 'delayed']


def ids_param(prog, g, depth=0):
    """the parameter of the stride routine (or of a routine that hands it on to the stride routine) that receives the id
    vector: in `_strides` the one whose length is the length of the vector of breaks returned (else the one the outermost
    loop runs over); None for other functions"""
    if g.name == '_strides':
        # one break per id: the vector returned is allocated with the length of the id vector ...
        rets = {n_.value.id for n_ in g.own_nodes() if isinstance(n_, ast.Return) and isinstance(n_.value, ast.Name)}
        for s_ in g.node.body:
            if isinstance(s_, ast.Assign) and len(s_.targets) == 1 and isinstance(s_.targets[0], ast.Name) and s_.targets[0].id in rets and \
                    isinstance(s_.value, ast.Call) and short(s_.value) in ('zeros', 'empty', 'ones', 'full') and s_.value.args:
                ps = {x.id for x in ast.walk(s_.value.args[0]) if isinstance(x, ast.Name) and x.id in g.params}
                if len(ps) == 1:
                    return ps.pop()
        # ... and the outermost loop runs over the ids
        for s_ in g.node.body:
            if isinstance(s_, ast.For):
                ps = {x.id for x in ast.walk(s_.iter) if isinstance(x, ast.Name) and x.id in g.params}
                if len(ps) == 1:
                    return ps.pop()
        return g.params[1] if len(g.params) > 1 else None
    if depth >= 2 or g.is_lambda:
        return None
    for c in calls(g.node):
        if c not in g.own_nodes():
            continue
        try:
            t_ = prog.resolve_callable(g, g.module, c.func)
        except Exception:      # noqa
            continue
        if isinstance(t_, Func) and t_ is not g and prog.same_unit(g.module, t_.module):
            r = ids_param(prog, t_, depth + 1)
            if r is not None:
                b_ = dict(zip(t_.params, c.args))
                b_.update({k.arg: k.value for k in c.keywords if k.arg})
                a_ = b_.get(r)
                if isinstance(a_, ast.Name) and a_.id in g.params:
                    return a_.id
    return None


def check_global_ids(prog, rep, m, entry):
    n = 0
    for f in delayed_tasks(m):
        if not any('zones' in p and 'block' in p for p in f.params):
            continue
        bad = [c for c in calls(f.node) if short(c) == 'unique']
        n += 1
        rep.add('Z7', f, entry, '%s: np.unique calls %s' % (f.qualname, [norm(b)[:50] for b in bad]), f.node.lineno, not bad,
                'per-block tasks must use the zone / category ids computed on the WHOLE arrays (passed in as '
                'arguments); ids discovered per block would give rows that do not line up across blocks')
        # the ids the block is sorted / strided against come from outside: every argument of the stride routine's call is
        # a parameter of the task (its own two blocks and the global id vector), nothing is computed from the block
        sc = []
        okp = True
        for c in calls(f.node):
            if c not in f.own_nodes():
                continue
            t_ = prog.resolve_callable(f, m, c.func)
            role = ids_param(prog, t_) if isinstance(t_, Func) else None
            if role is None:
                continue
            b_ = dict(zip(t_.params, c.args))
            b_.update({k.arg: k.value for k in c.keywords if k.arg})
            sc.append(c)
            a_ = b_.get(role)
            if not (isinstance(a_, ast.Name) and a_.id in f.params):
                okp = False
        n += 1
        rep.add('Z7', f, entry, '%s: the id vector of %s is a parameter of the task' % (f.qualname, norm(sc[0])[:80] if sc else 'the stride call'),
                f.node.lineno, okp if sc else None, 'the global id vector must be an argument of the per-block task')
    return n


def check_crosstab_merge(prog, rep, m, entry):
    f = _view(prog, m.funcs.get('_crosstab_df_dask'))
    if f is None:
        raise AnalysisIncomplete('_crosstab_df_dask not found')
    n = 0
    # key-wise sum over all keys of every further block
    ok = False
    B = f.params[0]
    # names that stand for a call-free expression (single assignment, also pairwise `a, b = B[0], B[1:]`) read as that expression
    import copy as _copy0
    stores_ = {}
    for x in f.own_nodes():
        if isinstance(x, ast.Name) and isinstance(x.ctx, ast.Store):
            stores_[x.id] = stores_.get(x.id, 0) + 1
    al_ = {}
    for x in f.own_nodes():
        if isinstance(x, ast.Assign) and len(x.targets) == 1:
            t0, v0 = x.targets[0], x.value
            pairs_ = [(t0, v0)] if isinstance(t0, ast.Name) else (
                list(zip(t0.elts, v0.elts)) if isinstance(t0, ast.Tuple) and isinstance(v0, ast.Tuple) and len(t0.elts) == len(v0.elts) else [])
            if isinstance(t0, ast.Tuple) and len(t0.elts) == 2 and isinstance(t0.elts[0], ast.Name) and isinstance(t0.elts[1], ast.Starred) and \
                    isinstance(t0.elts[1].value, ast.Name) and not any(isinstance(z, ast.Call) for z in ast.walk(v0)):
                # `first, *rest = blocks`: the first block and the further ones
                pairs_ = [(t0.elts[0], ast.Subscript(value=v0, slice=ast.Constant(value=0), ctx=ast.Load())),
                          (t0.elts[1].value, ast.Subscript(value=v0, slice=ast.Slice(lower=ast.Constant(value=1)), ctx=ast.Load()))]
            for t_, v_ in pairs_:
                if isinstance(t_, ast.Name) and stores_.get(t_.id) == 1 and t_.id not in f.params and \
                        not any(isinstance(z, ast.Call) for z in ast.walk(v_)):
                    al_[t_.id] = v_

    def rs_(e, depth=0):
        class _S(ast.NodeTransformer):
            def visit_Name(self, n_):
                if isinstance(n_.ctx, ast.Load) and n_.id in al_ and depth < 4:
                    return rs_(_copy0.deepcopy(al_[n_.id]), depth + 1)
                return n_
        return _S().visit(_copy0.deepcopy(e))
    first = any(isinstance(x, ast.Assign) and norm(rs_(x.value)).replace(' ', '') == '%s[0]' % B for x in f.own_nodes()) or \
        any(norm(rs_(v_)).replace(' ', '') == '%s[0]' % B for v_ in al_.values())
    candidate = wrong_range = False
    for lp in [x for x in f.own_nodes() if isinstance(x, ast.For)]:
        it = norm(rs_(lp.iter)).replace(' ', '')
        if it == 'range(1,len(%s))' % B and isinstance(lp.target, ast.Name):
            blk = '%s[%s]' % (B, lp.target.id)
        elif it == '%s[1:]' % B and isinstance(lp.target, ast.Name):
            blk = lp.target.id
        else:
            import re as _re
            if _re.fullmatch(r'range\((\d+),len\(%s\)(-\d+)?\)' % _re.escape(B), it) or _re.fullmatch(r'%s\[(\d+):(-?\d+)?\]' % _re.escape(B), it) or \
                    _re.fullmatch(r'range\(len\(%s\)-\d+\)' % _re.escape(B), it):
                wrong_range = True      # a loop over the blocks that positively leaves some of them out
            continue
        candidate = True
        # a local that names the block of this turn (`b = blocks[i]`) reads as the expression it stands for
        alias = {}
        body_ = []
        for y in lp.body:
            if isinstance(y, ast.Assign) and len(y.targets) == 1 and isinstance(y.targets[0], ast.Name) and \
                    not any(isinstance(z, ast.Call) for z in ast.walk(y.value)) and \
                    sum(1 for z in ast.walk(lp) if isinstance(z, ast.Name) and isinstance(z.ctx, ast.Store) and z.id == y.targets[0].id) == 1:
                alias[y.targets[0].id] = y.value
                continue
            body_.append(y)
        if alias:
            import copy as _copy

            class _Sub(ast.NodeTransformer):
                def visit_Name(self, n_):
                    if isinstance(n_.ctx, ast.Load) and n_.id in alias:
                        return self.visit(_copy.deepcopy(alias[n_.id]))
                    return n_
            body_ = [_Sub().visit(_copy.deepcopy(y)) for y in body_]
        for inner in [y for y in body_ if isinstance(y, ast.For)]:
            if len(inner.body) != 1 or not isinstance(inner.body[0], ast.AugAssign) or not isinstance(inner.body[0].op, ast.Add):
                continue
            a = inner.body[0]
            iit = norm(inner.iter).replace(' ', '')
            if isinstance(inner.target, ast.Name) and iit in (blk, blk + '.keys()'):
                k = inner.target.id
                okv = norm(a.value).replace(' ', '') == '%s[%s]' % (blk, k)
            elif isinstance(inner.target, ast.Tuple) and len(inner.target.elts) == 2 and iit == blk + '.items()':
                k = norm(inner.target.elts[0])
                okv = norm(a.value) == norm(inner.target.elts[1])
            else:
                continue
            ok = first and okv and norm(a.target).replace(' ', '').endswith('[%s]' % k)
    n += 1
    # no loop over the further blocks recognised at all: not a finding (the merge may be written another way) - undecided
    rep.add('Z8', f, entry, 'block merge loop', f.node.lineno, True if ok else (False if (candidate or wrong_range) else None),
            'per-block dicts must be summed key-wise over ALL keys of ALL further blocks (range(1, len(blocks)))')
    # percentage after the merge
    pct = [x for x in f.own_nodes() if isinstance(x, ast.If) and 'percentage' in norm(x.test)]
    loops = [x for x in f.node.body if isinstance(x, ast.For)]
    ok = len(pct) == 1 and pct[0] in f.node.body and loops and f.node.body.index(pct[0]) > f.node.body.index(loops[0])
    n += 1
    rep.add('Z8', f, entry, 'percentage after merge', f.node.lineno, bool(ok),
            'percentages must be computed once, after all blocks are merged')
    # the per-block task: what the dask path wraps in `delayed` (a decorated function, `delayed(f)`, `delayed(partial(f, ..))`)
    blk0 = m.funcs.get('_single_chunk_crosstab')
    dk = m.funcs.get('_crosstab_dask_numpy')
    if blk0 is None and dk is not None:
        from .program import Partial as _Partial
        cands = []
        for c_ in calls(dk.node):
            if short(c_) == 'delayed' and c_.args:
                t_ = prog.resolve_callable(dk, dk.module, c_.args[0])
                while isinstance(t_, _Partial):
                    t_ = t_.target
                if isinstance(t_, Func):
                    cands.append(t_)
            t_ = prog.resolve_callable(dk, dk.module, c_.func)
            if isinstance(t_, Func) and any('delayed' in norm(d_) for d_ in t_.node.decorator_list):
                cands.append(t_)
        cands = [g_ for g_ in cands if any(isinstance(x, ast.For) for x in g_.own_nodes())]
        blk0 = cands[0] if cands else None
    blk = _view(prog, blk0)
    if blk is not None:
        bad = [x for x in blk.own_nodes() if isinstance(x, ast.BinOp) and isinstance(x.op, ast.Div)]
        n += 1
        rep.add('Z8', blk, entry, 'no normalisation inside the per-block task', blk.node.lineno, not bad,
                'a per-block percentage cannot be merged by addition')
    # percentage formula (both backends): cat / TOTAL_COUNT * 100, zeros -> NaN first
    for fn in ('_crosstab_numpy', '_crosstab_df_dask'):
        g = m.funcs.get(fn)
        if g is None:
            continue
        from .inline import inline_view as _ivl
        g = _ivl(prog, g, allow_loops=True)          # the percentage step may live in a helper that loops over the categories
        found = False
        seen_formula = False
        # the total may be read through a local alias of <table>[TOTAL_COUNT]
        alias = {}
        for x in g.own_nodes():
            v_ = x.value if isinstance(x, ast.Assign) else None
            if isinstance(v_, ast.Call) and isinstance(v_.func, ast.Attribute) and v_.func.attr == 'astype':
                v_ = v_.func.value           # the total column under a (float) cast: the same counts
            if isinstance(x, ast.Assign) and isinstance(x.targets[0], ast.Name) and norm(v_).replace(' ', '').endswith('[TOTAL_COUNT]'):
                alias[x.targets[0].id] = norm(v_).replace(' ', '')
        for x in g.own_nodes():
            if isinstance(x, ast.Assign) and any(isinstance(y, ast.BinOp) and isinstance(y.op, ast.Div) and
                                                  alias.get(norm(y.right).replace(' ', ''), norm(y.right).replace(' ', '')).endswith('[TOTAL_COUNT]')
                                                  for y in ast.walk(x.value)):
                seen_formula = True         # something is divided by the total: if it is not the percentage formula it is a wrong one
            if isinstance(x, ast.Assign) and isinstance(x.value, ast.BinOp) and isinstance(x.value.op, ast.Mult) and \
                    const(x.value.right) == 100 and isinstance(x.value.left, ast.BinOp) and isinstance(x.value.left.op, ast.Div):
                num, den = norm(x.value.left.left).replace(' ', ''), norm(x.value.left.right).replace(' ', '')
                den = alias.get(den, den)
                seen_formula = True
                tgt = norm(x.targets[0]).replace(' ', '')
                # table[k] = table[k] / table[TOTAL_COUNT] * 100 with k the variable of the enclosing loop over the categories
                t0 = x.targets[0]
                if num == tgt and isinstance(t0, ast.Subscript) and isinstance(t0.slice, ast.Name) and isinstance(t0.value, ast.Name) and \
                        den == '%s[TOTAL_COUNT]' % t0.value.id and any(
                            isinstance(lp_, ast.For) and isinstance(lp_.target, ast.Name) and lp_.target.id == t0.slice.id and
                            any(y is x for y in ast.walk(lp_)) for lp_ in g.own_nodes()):
                    found = True
        n += 1
        rep.add('Z8-pct', g, entry, '%s: percentage = count / total * 100' % fn, g.node.lineno, True if found else (False if seen_formula else None),
                'percentage must be the category count over the zone\'s total valid count times 100')
    return n


def check_alignment(prog, rep, m, pubname, entry):
    """Z9: blocks of zones and values are zipped pairwise -> their chunks must be aligned on every dask path"""
    pub = _view(prog, m.funcs[pubname])       # the alignment may have been moved into a small helper
    n = 0
    # does the dask path zip delayed blocks?
    zips = []
    for g in reachable(prog, pub, 5):
        for c in calls(g.node):
            if short(c) == 'to_delayed':
                zips.append(g)
    if not zips:
        return 0
    zp, vp = pub.params[0], pub.params[1]
    # `.chunksize` is the LARGEST block per axis, not the block structure: chunks compared or re-made from it line up only
    # for regular chunkings (a window cut out of a larger dask array has a short first or last block)
    cs = [x for x in pub.own_nodes() if isinstance(x, ast.Attribute) and x.attr == 'chunksize']
    if cs:
        n += 1
        rep.add('Z9', pub, entry, 'chunk alignment from %s' % norm(cs[0]), cs[0].lineno, False,
                'zones and values blocks are paired positionally: their chunks must be made EQUAL (`.chunks`, the tuple of block '
                'extents per axis); `.chunksize` only gives the largest extent, so irregular chunkings stay misaligned')
        return n

    def aligns(stmts):
        for s in stmts:
            for c in ast.walk(s):
                if isinstance(c, ast.Call):
                    t = prog.resolve_callable(pub, m, c.func)
                    if isinstance(t, Func) and t.name == 'validate_arrays' and [norm(a) for a in c.args[:2]] == [zp, vp]:
                        return True
                    if short(c) == 'rechunk' and vp in norm(c.func.value):
                        return True
                    # a Python-level helper of the module that is handed both rasters and rechunks the values one to the other's
                    # chunks on its dask path (`values = _layer_first(zones, values, layer)`)
                    if isinstance(t, Func) and t.jit is None and prog.same_unit(m, t.module) and t is not pub:
                        b_ = dict(zip(t.params, [norm(a) for a in c.args]))
                        b_.update({k.arg: norm(k.value) for k in c.keywords if k.arg})
                        zq = [p_ for p_, a_ in b_.items() if a_ == zp]
                        vq = [p_ for p_, a_ in b_.items() if a_ == vp]
                        if len(zq) == 1 and len(vq) == 1:
                            for c2 in ast.walk(t.node):
                                if isinstance(c2, ast.Call):
                                    t2 = prog.resolve_callable(t, t.module, c2.func)
                                    if isinstance(t2, Func) and t2.name == 'validate_arrays' and [norm(a) for a in c2.args[:2]] == [zq[0], vq[0]] and \
                                            c2 in [x for s2 in t.node.body for x in ast.walk(s2) if not isinstance(s2, ast.If)]:
                                        return True          # validate_arrays(zones, values) at the helper's top level
                                if isinstance(c2, ast.Call) and short(c2) == 'rechunk' and vq[0] in norm(c2.func.value) and \
                                        any(isinstance(x, ast.Name) and x.id in ({zq[0]} | {n_.targets[0].id for n_ in ast.walk(t.node)
                                            if isinstance(n_, ast.Assign) and isinstance(n_.targets[0], ast.Name) and zq[0] + '.chunks' in norm(n_.value)} |
                                            {n_.targets[0].id for n_ in ast.walk(t.node) if isinstance(n_, ast.Assign) and isinstance(n_.targets[0], ast.Name)
                                             and isinstance(n_.value, ast.Dict)})
                                            for a2 in c2.args for x in ast.walk(a2)) and not any(
                                            isinstance(x, ast.Attribute) and x.attr == 'chunksize' for x in ast.walk(t.node)):
                                    return True
        return False

    body = pub.node.body
    # the alignment re-assigns `.data` of the rasters: arrays captured from them BEFORE it are the unaligned ones
    early = []
    for i_, s in enumerate(body):
        if aligns([s]):
            cap = {}
            for s0 in body[:i_]:
                for x in ast.walk(s0):
                    if isinstance(x, ast.Assign) and isinstance(x.value, ast.Attribute) and x.value.attr in ('data', 'values') and \
                            isinstance(x.value.value, ast.Name) and x.value.value.id in (zp, vp):
                        for t in x.targets:
                            if isinstance(t, ast.Name):
                                cap[t.id] = x
                    elif isinstance(x, ast.Assign) and isinstance(x.targets[0], ast.Tuple) and isinstance(x.value, ast.Tuple):
                        for t, v in zip(x.targets[0].elts, x.value.elts):
                            if isinstance(t, ast.Name) and isinstance(v, ast.Attribute) and v.attr in ('data', 'values') and \
                                    isinstance(v.value, ast.Name) and v.value.id in (zp, vp):
                                cap[t.id] = x
            for s1 in body[i_ + 1:]:
                for x in ast.walk(s1):
                    if isinstance(x, ast.Call):
                        for a in list(x.args) + [k.value for k in x.keywords]:
                            if isinstance(a, ast.Name) and a.id in cap:
                                early.append((a.id, cap[a.id].lineno, x.lineno))
            break
    if early:
        n += 1
        rep.add('Z9', pub, entry, 'arrays captured before the alignment: %s' % sorted(set(e_[0] for e_ in early)), early[0][1], False,
                'chunk alignment re-assigns the rasters\' `.data`: an array read from a raster before validate_arrays and used '
                'after it is the un-rechunked one, so zones and values blocks are paired positionally without aligned chunks')
        return n
    if aligns([s for s in body if not isinstance(s, ast.If)]):
        n += 1
        rep.add('Z9', pub, entry, 'validate_arrays(%s, %s) at top level' % (zp, vp), pub.node.lineno, True,
                'chunk alignment dominates the block pairing')
        return n
    # otherwise: an if/elif chain in which every dask-capable branch aligns
    chains = [s for s in body if isinstance(s, ast.If) and aligns([s])]
    ok = False
    why = 'no alignment of `%s` to `%s` found before the per-block pairing' % (vp, zp)
    for ch in chains:
        branches = []
        node = ch
        seen_dask_test = False
        while True:
            branches.append((node.test, node.body))
            if len(node.orelse) == 1 and isinstance(node.orelse[0], ast.If):
                node = node.orelse[0]
                continue
            last_else = node.orelse
            break
        bad = []
        tests = []
        for t, b in branches:
            tests.append(norm(t))
            if not aligns(b):
                bad.append('branch `if %s`' % norm(t)[:60])
        dask_tested = any('da.Array' in t and vp in t for t in tests)
        if not aligns(last_else) and not dask_tested:
            bad.append('the fall-through path (no branch taken)')
        ok = not bad
        why = 'dask inputs can reach the block pairing without aligned chunks through: %s' % bad
        if ok:
            break
    n += 1
    rep.add('Z9', pub, entry, 'alignment of %s chunks to %s on every dask path' % (vp, zp), pub.node.lineno, ok,
            'zones and values blocks are paired positionally (zip of to_delayed().ravel()); ' + why)
    return n


def check_layer_dim(prog, rep, pub, entry):
    """X-layer: 3-D values are tabulated layer by layer along `layer`: the transposition that brings that dimension to the
    front keeps the other two in their order (they must still line up with the zones raster's (y, x)).  The expression handed
    to `.transpose(*dims)` is folded (consteval) for dims = (a, b, c) and every layer index -3..2."""
    from .consteval import CannotFold, Folder
    from .backends import callees as _callees
    n = 0
    scopes = [pub] + [g for g in _callees(prog, pub) if isinstance(g, Func) and g.jit is None and not g.is_lambda and
                      prog.same_unit(pub.module, g.module) and any('layer' in p for p in g.params)]
    sites = []
    for sc in scopes:
        fv_ = _view(prog, sc)
        for c_ in calls(fv_.node):
            if short(c_) == 'transpose' and c_.args and isinstance(c_.args[0], ast.Starred):
                sites.append((sc, fv_, c_))
    for pub, fv, c in sites:
        arg = c.args[0].value
        lp = next((p for p in pub.params if p == 'layer'), None) or next((p for p in pub.params if 'layer' in p), None)
        if lp is None:
            continue
        # the statements that define the argument: single assignments of the names it reads, in program order
        body = [s for s in fv.own_nodes() if isinstance(s, ast.Assign) and s.lineno < c.lineno and len(s.targets) == 1 and
                isinstance(s.targets[0], ast.Name)]
        needed = {x.id for x in ast.walk(arg) if isinstance(x, ast.Name)}
        chain = []
        for s in sorted(body, key=lambda s_: -s_.lineno):
            if s.targets[0].id in needed and s.targets[0].id != lp:
                chain.insert(0, s)
                needed |= {x.id for x in ast.walk(s.value) if isinstance(x, ast.Name)}
        bad = None
        ok = None
        why = ''
        try:
            for k in (0, 1, 2, -1, -2, -3):
                env = {lp: k}
                fo = Folder(prog, pub.module)
                # `values.dims` of the model raster
                stmts = []
                for s in chain:
                    if isinstance(s.value, ast.Attribute) and s.value.attr == 'dims':
                        env[s.targets[0].id] = ('a', 'b', 'c')
                    else:
                        stmts.append(s)
                fo.block(stmts, env)
                got = list(fo.ev(arg, env))
                dims = ['a', 'b', 'c']
                want = [dims[k]] + [d for d in dims if d != dims[k]]
                if got != want:
                    bad = (k, got, want)
                    break
            ok = bad is None
            why = 'layer=%d gives dims %s, expected %s' % bad if bad else ''
        except (CannotFold, TypeError, IndexError) as e:
            ok, why = None, 'not foldable: %s' % e
        n += 1
        rep.add('X-layer', pub, entry, norm(c)[:100], c.lineno, ok,
                'the category dimension goes first and the two raster dimensions keep their order (rows, columns) so that each '
                'layer lines up with the zones raster; ' + why)
    return n


def check_crosstab_keys(prog, rep, m, entry):
    """C04: counts keyed by their own category; 3-D aggregate from the default table; total before selection"""
    n = 0
    f = _view(prog, m.funcs.get('_single_zone_crosstab_2d'))
    if f is None:
        raise AnalysisIncomplete('_single_zone_crosstab_2d not found')
    # total_count appended before category selection and from the filtered values
    # what is appended under the TOTAL_COUNT key: the length of an array that has passed the validity filter at that point
    from .astutil import parent_map as _pm
    pmf = _pm(f.node)
    f._nodata_names = nodata_params(prog, m.funcs.get('_single_zone_crosstab_2d'))
    tot = [c for c in calls(f.node) if short(c) == 'append' and isinstance(c.func, ast.Attribute) and isinstance(c.func.value, ast.Subscript)
           and norm(c.func.value.slice) == 'TOTAL_COUNT' and len(c.args) == 1]
    ok = False
    if len(tot) == 1:
        a = tot[0].args[0]
        if isinstance(a, ast.Name):
            vals_ = [v_ for v_ in f.local_assigns().get(a.id, []) if isinstance(v_, ast.AST)]
            a = vals_[0] if len(vals_) == 1 else a
        base = None
        if isinstance(a, ast.Subscript) and isinstance(a.value, ast.Attribute) and a.value.attr == 'shape' and const(a.slice) == 0:
            base = a.value.value
        elif isinstance(a, ast.Call) and short(a) == 'len' and len(a.args) == 1:
            base = a.args[0]
        elif isinstance(a, ast.Attribute) and a.attr == 'size':
            base = a.value
        if base is not None:
            fl = filter_flags(f, pmf, tot[0], base)
            ok = {'fin', 'ne'} <= fl
    n += 1
    rep.add('X-total', f, entry, norm(tot[0]) if tot else 'append under TOTAL_COUNT', f.node.lineno, ok,
            'the percentage base is the number of valid cells of the zone, counted before any category selection')
    # the break vector is the stride routine applied to the sorted valid values and ALL categories
    f0 = m.funcs.get('_single_zone_crosstab_2d')
    UC = ids_param(prog, f0) or 'unique_cats'               # the vector of ALL categories: what the stride routine is given as ids
    CI = (nodata_params(prog, f0, 'cat_ids') & set(f0.params)) or {'cat_ids'}     # the caller's selection
    # the per-category counts on the interpreted function: for every category j the count stored under that category
    # is break j minus the running previous break (0 before the first category), whatever the loop looks like
    from .kai import interpret
    from .sym import App, Rat, Sym, walk_atoms
    from .kutil import show as kshow
    k = interpret(prog, m.funcs.get('_single_zone_crosstab_2d'), strict=False)
    apps = [ev[1] for ev in k.events if ev[0] == 'append' and ev[1][4]]
    okall = bool(apps)
    for tgt, vals, guards, node, loops in apps:
        L = loops[0]
        key = tgt[1] if tgt else None
        ka = _one_atom(key) if isinstance(key, Rat) else None
        v = vals[0] if vals and isinstance(vals[0], Rat) else None
        okk = _is_category(ka, UC)
        okc = False
        if v is not None:
            phis = [(n_, ph, end) for n_, (ph, end) in getattr(L, 'carried', {}).items() if ph in [Rat.atom(a) for a in v.atoms()]]
            if len(phis) == 1:
                n_, ph, end = phis[0]
                brk = v + ph
                ba = _one_atom(brk)
                # the break of this category: element j of the stride routine applied to (sorted valid values, ALL categories)
                def strides_of_sorted(x):
                    return 'call:_strides(' in repr(x) and UC in repr(x) and 'numpy.sort' in repr(x)
                okb = isinstance(ba, App) and ba.name in ('getitem', 'read', 'cell?') and strides_of_sorted(ba.args[0])
                if not okb and isinstance(ba, App) and ba.name == 'elem' and len(ba.args) > 2:
                    # zip(unique_cats, breaks): the break paired with the category by position
                    za = _one_atom(ba.args[0]) if isinstance(ba.args[0], Rat) else ba.args[0]
                    comp = int(ba.args[2].const_value()) if isinstance(ba.args[2], Rat) and ba.args[2].is_const() else None
                    okb = isinstance(za, App) and za.name == 'iter:zip' and comp is not None and 1 <= comp <= len(za.args) and \
                        strides_of_sorted(za.args[comp - 1]) and isinstance(ka, App) and ka.name == 'elem' and ka.args[0] == ba.args[0] and \
                        ka.args[1] == ba.args[1]
                okc = okb and end == brk and L.pre.get(n_) == Rat.const(0)
            elif not phis:
                # no running break: the previous break read directly, `breaks[j] - (breaks[j - 1] if j > 0 else 0)` - evaluated
                # for categories 0, 1 and 4 on a model break vector (squares, so that no other pair of entries gives the count)
                from fractions import Fraction as _F
                from .kutil import CannotEvaluate as _CE, evaluate as _ev

                def strides_of_sorted(x):
                    return 'call:_strides(' in repr(x) and UC in repr(x) and 'numpy.sort' in repr(x)
                bat = [a_ for a_ in walk_atoms(v) if isinstance(a_, App) and a_.name in ('getitem', 'read', 'cell?') and strides_of_sorted(a_.args[0])]
                jat = {a_ for b_ in bat for x_ in b_.args[1:] if isinstance(x_, Rat) for a_ in x_.atoms()}
                if bat and len(jat) == 1:
                    J_ = next(iter(jat))
                    try:
                        got_ = []
                        for jv in (0, 1, 4):
                            def hook(key_, idx_):
                                if not strides_of_sorted(key_) or len(idx_) != 1 or idx_[0] < 0:
                                    raise _CE('read of %r at %r' % (key_, idx_))
                                return _F((idx_[0] + 2) ** 2 + 1)
                            got_.append(_ev(v, {J_: _F(jv), '__read__': hook}))
                        okc = got_ == [_F((jv + 2) ** 2 + 1 - (((jv + 1) ** 2 + 1) if jv > 0 else 0)) for jv in (0, 1, 4)]
                    except _CE:
                        okc = False
        sel = any('in(' in repr(g_) and any(c_ in repr(g_) for c_ in CI) for g_ in guards)
        okall = okall and okk and okc and sel
        n += 1
        verdict = okk and okc and sel
        if not okc and v is not None and any(isinstance(a_, App) and a_.name.startswith('ext:') and a_.name not in ('ext:numpy.sort',)
                                             for a_ in walk_atoms(v)):
            verdict = None if (okk and sel) else False      # the count goes through a library function the rule does not model (np.diff ...)
        rep.add('X-key', f, entry, 'count stored per category: %s' % (kshow(v, 90) if v is not None else None), node.lineno, verdict,
                'the count of a category is its own break minus the previous break (the running break starts at 0 and advances '
                'to the category\'s break for EVERY category), stored under that category, for the selected categories '
                '(key ok: %s, count ok: %s, selection ok: %s)' % (okk, okc, sel))
    if not apps:
        n += 1
        rep.add('X-key', f, entry, 'count stored per category', f.node.lineno, None, 'no append inside the category loop found')
    g = _view(prog, m.funcs.get('_single_zone_crosstab_3d'))
    if g is not None:
        for lp in [x for x in g.node.body if isinstance(x, ast.For)]:
            g0 = m.funcs.get('_single_zone_crosstab_3d')
            CI3 = (nodata_params(prog, g0, 'cat_ids') & set(g0.params)) or {'cat_ids'}
            # enumerated: a parameter that is not the caller's selection (the vector of all categories)
            ok = isinstance(lp.iter, ast.Call) and norm(lp.iter.func) == 'enumerate' and isinstance(lp.iter.args[0], ast.Name) and \
                lp.iter.args[0].id in g.params and lp.iter.args[0].id not in CI3 and isinstance(lp.target, ast.Tuple)
            catv = norm(lp.target.elts[1]) if ok else None
            zp = _zip_pairing(lp, g, CI3)
            if not ok and zp is not None:
                # `for cat, layer in zip(ALL categories, values)`: the same pairing without an index - the layer variable is
                # the layer of its category by construction, provided the body takes no other layer of the values
                ok, catv = (zp[0] is not None), zp[0]
            elif not ok and not (isinstance(lp.iter, ast.Call) and norm(lp.iter.func) in ('enumerate', 'zip') and
                                 any(isinstance(a_, ast.Name) and a_.id in CI3 for a_ in lp.iter.args)):
                ok = None       # neither of the two pairings, and not positively the selection that is enumerated: not decided
            sel = False
            if ok:
                # every path that stores a result has passed the membership test of this category in cat_ids
                from .astutil import body_paths

                def member(t_, taken):
                    if isinstance(t_, ast.UnaryOp) and isinstance(t_.op, ast.Not):
                        return member(t_.operand, not taken)
                    if isinstance(t_, ast.Compare) and len(t_.ops) == 1 and norm(t_.left) == catv and norm(t_.comparators[0]) in CI3:
                        if isinstance(t_.ops[0], ast.In):
                            return taken
                        if isinstance(t_.ops[0], ast.NotIn):
                            return not taken
                    return None
                try:
                    ps = [p for p in body_paths(lp.body) if any(isinstance(x, ast.Call) and short(x) == 'append' for s_ in p.stmts for x in ast.walk(s_))]
                    sel = bool(ps) and all(any(member(t_, tk) is True for t_, tk in p.conds) for p in ps)
                except ValueError:
                    sel = False
            n += 1
            rep.add('X-key', g, entry, 'for %s in %s' % (norm(lp.target), norm(lp.iter)), lp.lineno, None if ok is None else (ok and sel),
                    'layer j of the 3-D values belongs to unique_cats[j]: the layer index must come from enumerating '
                    'ALL categories (unique_cats), selecting by membership in cat_ids - enumerating the selection '
                    'pairs a category with the wrong layer')
        cat_loops = [lp_ for lp_ in g.node.body if isinstance(lp_, ast.For) and isinstance(lp_.target, ast.Tuple) and len(lp_.target.elts) == 2]
        for c in calls(g.node):
            if short(c) == 'append':
                # stored under the category of the enclosing loop: table[<category variable>].append(stats_func(..))
                lp_ = next((x for x in cat_loops if any(y is c for y in ast.walk(x))), None)
                zp_ = _zip_pairing(lp_, g, CI3) if lp_ is not None else None
                catv_ = zp_[0] if zp_ is not None else (norm(lp_.target.elts[1]) if lp_ is not None else None)
                okk = isinstance(c.args[0], ast.Call) and norm(c.args[0].func) == g.params[-1] and catv_ is not None and \
                    isinstance(c.func.value, ast.Subscript) and norm(c.func.value.slice) == catv_
                if okk and zp_ is not None:
                    # the aggregate's argument is derived from the loop's layer variable
                    env_ = straightline_env([x for x in ast.walk(lp_) if isinstance(x, ast.Assign)])
                    seen_, todo_ = set(), [c.args[0]]
                    while todo_:
                        e_ = todo_.pop()
                        for x in ast.walk(e_):
                            if isinstance(x, ast.Name) and x.id not in seen_:
                                seen_.add(x.id)
                                if x.id in env_:
                                    todo_.append(env_[x.id])
                    okk = zp_[1] in seen_
                n += 1
                rep.add('X-key', g, entry, norm(c), c.lineno, okk,
                        'each 3-D entry is the chosen aggregate of that layer\'s valid cells in the zone')
        for s in g.own_nodes():
            if isinstance(s, ast.Assign) and isinstance(s.targets[0], ast.Name) and isinstance(s.value, ast.Subscript) \
                    and isinstance(s.value.value, ast.Name) and s.value.value.id == g.params[0] and isinstance(s.value.slice, (ast.Name, ast.Constant)):
                # the layer taken from the zone's values: indexed by the position of the enclosing loop over ALL categories
                lp_ = next((x for x in cat_loops if any(y is s for y in ast.walk(x))), None)
                n += 1
                rep.add('X-key', g, entry, norm(s), s.lineno, lp_ is not None and norm(s.value.slice) == norm(lp_.target.elts[0]),
                        'layer j of the zone\'s values belongs to category j')
    cn = _view(prog, m.funcs.get('_crosstab_numpy'))
    if cn is not None:
        AG = (nodata_params(prog, m.funcs.get('_crosstab_numpy'), 'agg') & set(cn.params)) or {'agg'}
        lookups = tuple(t_ % a_ for a_ in AG for t_ in ('_DEFAULT_STATS[%s]', '_DEFAULT_STATS.get(%s)'))

        def is_lookup(a):
            """`_DEFAULT_STATS[agg]`, also as the 3-D arm of `<lookup> if <values are 3-D> else None`"""
            if a is None:
                return False
            if norm(a) in lookups:
                return True
            if isinstance(a, ast.IfExp):
                arms = [a.body, a.orelse]
                return any(norm(x) in lookups for x in arms) and all(norm(x) in lookups or (isinstance(x, ast.Constant) and x.value is None) for x in arms)
            return False

        def feeds(fn, depth):
            """does fn hand the `agg` lookup to the 3-D per-zone routine (directly or through one helper's parameter)?"""
            env = straightline_env(fn.node.body)
            for c in calls(fn.node):
                h = prog.resolve_callable(fn, fn.module, c.func)
                if not isinstance(h, Func) or h.is_lambda:
                    continue
                b = _bind_args(h, c)
                if h.name == '_single_zone_crosstab_3d':
                    a = b.get(h.params[-1]) if b else (c.args[-1] if c.args else None)
                    if isinstance(a, ast.Name) and a.id in env:
                        a = env[a.id]
                    if is_lookup(a):
                        return True
                elif depth > 0 and b:
                    # a helper that forwards one of its parameters to the per-zone routine
                    for p, a in b.items():
                        if isinstance(a, ast.Name) and a.id in env:
                            a = env[a.id]
                        if is_lookup(a) and forwards(h, p):
                            return True
                        # ... or a helper that is handed the caller's `agg` itself and does the lookup
                        if isinstance(a, ast.Name) and a.id in AG and looks_up(h, p):
                            return True
            return False

        def looks_up(h, p):
            stored = any(isinstance(x, ast.Name) and x.id == p and isinstance(x.ctx, ast.Store) for x in ast.walk(h.node))
            env_h = straightline_env(h.node.body)
            for c in calls(h.node):
                g_ = prog.resolve_callable(h, h.module, c.func)
                if isinstance(g_, Func) and g_.name == '_single_zone_crosstab_3d' and not stored:
                    b = _bind_args(g_, c)
                    a = b.get(g_.params[-1]) if b else (c.args[-1] if c.args else None)
                    if isinstance(a, ast.Name) and a.id in env_h:
                        a = env_h[a.id]
                    arms = [a.body, a.orelse] if isinstance(a, ast.IfExp) else [a]
                    texts = ('_DEFAULT_STATS[%s]' % p, '_DEFAULT_STATS.get(%s)' % p)
                    if a is not None and any(norm(x) in texts for x in arms) and \
                            all(norm(x) in texts or (isinstance(x, ast.Constant) and x.value is None) for x in arms):
                        return True
            return False

        def forwards(h, p):
            for c in calls(h.node):
                g_ = prog.resolve_callable(h, h.module, c.func)
                if isinstance(g_, Func) and g_.name == '_single_zone_crosstab_3d':
                    b = _bind_args(g_, c)
                    a = b.get(g_.params[-1]) if b else None
                    stored = any(isinstance(x, ast.Name) and x.id == p and isinstance(x.ctx, ast.Store) for x in ast.walk(h.node))
                    if isinstance(a, ast.Name) and a.id == p and not stored:
                        return True
            return False
        ok = feeds(cn, 1)
        n += 1
        rep.add('X-agg', cn, entry, '3-D aggregate = _DEFAULT_STATS[agg]', cn.node.lineno, ok,
                'the 3-D aggregate must be looked up by the caller\'s `agg` in the default statistics table and handed to the '
                'per-zone 3-D routine')
    return n


def _zip_pairing(lp, g, CI3):
    """`for a, b in zip(X, Y)` over the 3-D routine's values (its first parameter) and a parameter that is not the caller's
    selection: (category variable, layer variable); the category variable is None when the body takes a layer of the
    values by subscript as well (then the pairing is not by construction).  None when the loop is not of this form."""
    if not (isinstance(lp.iter, ast.Call) and norm(lp.iter.func) == 'zip' and len(lp.iter.args) == 2 and not lp.iter.keywords and
            all(isinstance(a_, ast.Name) for a_ in lp.iter.args) and isinstance(lp.target, ast.Tuple) and len(lp.target.elts) == 2 and
            all(isinstance(t_, ast.Name) for t_ in lp.target.elts)):
        return None
    names = [a_.id for a_ in lp.iter.args]
    vals = g.params[0]
    if names.count(vals) != 1:
        return None
    k = names.index(vals)
    other = names[1 - k]
    if other not in g.params or other in CI3:
        return None
    stored = any(isinstance(x, ast.Name) and isinstance(x.ctx, ast.Store) and x.id in (vals, other) for x in ast.walk(g.node))
    if stored:
        return None
    layer, cat = lp.target.elts[k].id, lp.target.elts[1 - k].id
    rebound = any(isinstance(x, ast.Name) and isinstance(x.ctx, ast.Store) and x.id in (layer, cat) for s_ in lp.body for x in ast.walk(s_))
    subs = any(isinstance(x, ast.Subscript) and isinstance(x.value, ast.Name) and x.value.id == vals for s_ in lp.body for x in ast.walk(s_))
    return (None if (subs or rebound) else cat), layer


def check_flatten_order(prog, rep, fs, entry_of):
    """Z-flat: zones and values are flattened / reshaped in one fixed (C) order"""
    n = 0
    for f in fs:
        if f.is_lambda:
            continue
        for c in calls(f.node):
            if c not in f.own_nodes():
                continue
            if short(c) in ('ravel', 'flatten', 'reshape') and isinstance(c.func, ast.Attribute):
                o = kw(c, 'order')
                if o is None and short(c) in ('ravel', 'flatten') and c.args:
                    o = c.args[0]
                ok = o is None or const(o) == 'C'
                n += 1
                rep.add('Z-flat', f, entry_of(f), norm(c)[:100], c.lineno, ok,
                        "zones, values and the result are related cell by cell through their flattened positions: every "
                        "flatten/reshape must use the same fixed C order - order='K'/'A'/'F' depends on each array's "
                        "memory layout, so a transposed or Fortran-ordered input pairs zone ids with other cells' values",
                        trivial=(o is None))
    return n


def check_positional_id_use(prog, rep, fs, entry_of):
    """Z2b: a caller-supplied id list has no guaranteed order: it may be tested for membership only, never indexed
    positionally (ids[0], ids[-1], slices, searchsorted) unless it has ascending provenance."""
    n = 0
    by_name = {f.qualname: f for f in fs}
    param_orders = {}
    for _ in range(2):
        for f in fs:
            if f.is_lambda:
                continue
            oe = OrderEnv(prog, f, param_orders.get(f.qualname))
            oe.run(f.node.body, [])
            for c in calls(f.node):
                t = prog.resolve_callable(f, f.module, c.func)
                if isinstance(t, Func) and t.qualname in by_name:
                    for p, a in list(zip(t.params, c.args)) + [(k.arg, k.value) for k in c.keywords if k.arg]:
                        o = oe.order_of(a)
                        cur = param_orders.setdefault(t.qualname, {})
                        cur[p] = o if p not in cur or cur[p] == o else (USER if USER in (cur[p], o) else None)
    for f in fs:
        if f.is_lambda:
            continue
        oe = OrderEnv(prog, f, param_orders.get(f.qualname))
        # flow-insensitive worst case over the function: a name is safe only if every definition is ASC
        oe.run(f.node.body, [])
        for x in f.own_nodes():
            name = None
            how = None
            if isinstance(x, ast.Subscript) and isinstance(x.value, ast.Name) and x.value.id.endswith('_ids') and \
                    isinstance(x.ctx, ast.Load):
                sl = x.slice
                if isinstance(sl, ast.Slice) or isinstance(const(sl, None), int):
                    name, how = x.value.id, norm(x)
            if isinstance(x, ast.Call) and short(x) in ('searchsorted', 'bisect_left', 'bisect_right', 'bisect'):
                for a in x.args:
                    if isinstance(a, ast.Name) and a.id.endswith('_ids'):
                        name, how = a.id, norm(x)[:60]
            if name is None:
                continue
            o = oe.env.get(name)
            n += 1
            rep.add('Z2b', f, entry_of(f), '%s (order of %s: %s)' % (how, name, o), x.lineno, o == ASC,
                    'a requested id list arrives in the caller\'s order: using it positionally (first/last element, '
                    'slices, binary search) silently assumes it is sorted')
    if n == 0:
        rep.add('Z2b', fs[0], entry_of(fs[0]), 'no positional use of a requested id list', fs[0].node.lineno, True)
    return n
