"""N6 - *a loop over a module-level constant table*, read as the statements it abbreviates.

    _OFFSETS_8 = np.array([(-1, -1), (0, -1), ...])          # module level, bound once, a literal
    ...
    if n == 8: offsets = _OFFSETS_8                            if n == 8:
    else:      offsets = _OFFSETS_4                                yy = min(max(y + -1, 0), rows - 1); ...; win[0] = data[yy, xx]
    ...                                                  ==        yy = min(max(y + 0, 0), rows - 1);  ...; win[1] = data[yy, xx]
    for i in range(offsets.shape[0]):                              ...
        yy = min(max(y + offsets[i, 0], 0), rows - 1)          else:
        ...                                                        ... (the 4 rows of the other table)
        win[i] = data[yy, xx]

`unroll_constant_tables(prog, f)` first reads the private helpers of f in place (inline.py, loops included), then rewrites
every `for i in range(T.shape[0])` / `range(len(T))` whose T is

* a module-level name bound once to a literal table (`np.array(<nested literal>)`, or a tuple / list of number tuples), or
* a local assigned exactly twice, in the two branches of one `if c: T = A else: T = B` with A, B such tables, the names
  `c` reads never being assigned in the function,

into the straight-line statements of the body for i = 0 .. len - 1 with `i` replaced by the number and `T[i, k]` / `T[i][k]`
by the table entry (for the second form: one `if c:` with the two unrollings as its arms).  Exact or not done: the loop
must have no `else`, no `break` / `continue` of its own, must not assign `i` or T, and after the substitution T must not
occur in the body any more.  Returns f itself when nothing was unrolled."""
import ast
import copy

from .program import Func


def _table_literal(prog, scope, module, name):
    """rows of the module-level constant table `name` (list of tuples of numbers), or None"""
    r = prog.resolve_name(scope, module, name)
    if not (isinstance(r, tuple) and r and r[0] == 'modvalue' and isinstance(r[3], ast.AST)):
        return None
    e = r[3]
    if isinstance(e, ast.Call) and isinstance(e.func, ast.Attribute) and e.func.attr in ('array', 'asarray') and e.args:
        e = e.args[0]
    try:
        v = ast.literal_eval(e)
    except Exception:      # noqa - not a literal
        return None
    if not isinstance(v, (list, tuple)) or not v:
        return None
    rows = []
    for row in v:
        if isinstance(row, (int, float)) and not isinstance(row, bool):
            rows.append((row,))
        elif isinstance(row, (list, tuple)) and row and all(isinstance(x, (int, float)) and not isinstance(x, bool) for x in row):
            rows.append(tuple(row))
        else:
            return None
    if len({len(r_) for r_ in rows}) != 1:
        return None
    return rows


def _own_level(body):
    out, stack = [], list(body)
    while stack:
        n_ = stack.pop()
        out.append(n_)
        if isinstance(n_, (ast.For, ast.While, ast.AsyncFor, ast.FunctionDef, ast.AsyncFunctionDef, ast.Lambda, ast.ClassDef)):
            continue
        stack.extend(ast.iter_child_nodes(n_))
    return out


class _Subst(ast.NodeTransformer):
    def __init__(self, ivar, tname, row, idx):
        self.ivar, self.tname, self.row, self.idx = ivar, tname, row, idx
        self.failed = False

    def visit_Subscript(self, n):
        # T[i, k] / T[i][k] / T[i]
        if isinstance(n.value, ast.Name) and n.value.id == self.tname:
            sl = n.slice
            if isinstance(sl, ast.Tuple) and len(sl.elts) == 2 and isinstance(sl.elts[0], ast.Name) and sl.elts[0].id == self.ivar and \
                    isinstance(sl.elts[1], ast.Constant) and isinstance(sl.elts[1].value, int) and -len(self.row) <= sl.elts[1].value < len(self.row):
                return ast.copy_location(ast.Constant(value=self.row[sl.elts[1].value]), n)
            if isinstance(sl, ast.Name) and sl.id == self.ivar:
                if len(self.row) == 1:
                    return ast.copy_location(ast.Constant(value=self.row[0]), n)
                return ast.copy_location(ast.Tuple(elts=[ast.Constant(value=x) for x in self.row], ctx=ast.Load()), n)
            self.failed = True
            return n
        if isinstance(n.value, ast.Subscript) and isinstance(n.value.value, ast.Name) and n.value.value.id == self.tname and \
                isinstance(n.value.slice, ast.Name) and n.value.slice.id == self.ivar and isinstance(n.slice, ast.Constant) and \
                isinstance(n.slice.value, int) and -len(self.row) <= n.slice.value < len(self.row):
            return ast.copy_location(ast.Constant(value=self.row[n.slice.value]), n)
        self.generic_visit(n)
        return n

    def visit_Name(self, n):
        if n.id == self.ivar and isinstance(n.ctx, ast.Load):
            return ast.copy_location(ast.Constant(value=self.idx), n)
        if n.id == self.tname:
            self.failed = True
        return n


def _unrolled(loop, tname, rows):
    out = []
    for idx, row in enumerate(rows):
        for st in loop.body:
            sub = _Subst(loop.target.id, tname, row, idx)
            new = sub.visit(copy.deepcopy(st))
            if sub.failed:
                return None
            out.append(new)
    return out


def unroll_constant_tables(prog, f):
    from .inline import inline_view
    fv = inline_view(prog, f, allow_loops=True)
    node = copy.deepcopy(fv.node)
    m = f.module
    stored = {}
    for n_ in ast.walk(node):
        if isinstance(n_, ast.Name) and isinstance(n_.ctx, (ast.Store, ast.Del)):
            stored[n_.id] = stored.get(n_.id, 0) + 1
    # locals that are one of two tables, by the branch of one `if`
    phis = {}
    for n_ in ast.walk(node):
        if isinstance(n_, ast.If) and len(n_.body) == 1 and len(n_.orelse) == 1:
            a, b = n_.body[0], n_.orelse[0]
            if all(isinstance(x, ast.Assign) and len(x.targets) == 1 and isinstance(x.targets[0], ast.Name) and isinstance(x.value, ast.Name) for x in (a, b)) \
                    and a.targets[0].id == b.targets[0].id and stored.get(a.targets[0].id) == 2:
                ta, tb = _table_literal(prog, fv, m, a.value.id), _table_literal(prog, fv, m, b.value.id)
                reads = {x.id for x in ast.walk(n_.test) if isinstance(x, ast.Name)}
                if ta is not None and tb is not None and not any(stored.get(r_) for r_ in reads if r_ not in f.params) and \
                        not any(stored.get(r_, 0) > 0 for r_ in reads):
                    phis[a.targets[0].id] = (n_.test, ta, tb)
    count = 0

    def table_of_bound(e):
        """name T when e is `T.shape[0]` / `len(T)`"""
        if isinstance(e, ast.Subscript) and isinstance(e.value, ast.Attribute) and e.value.attr == 'shape' and isinstance(e.value.value, ast.Name) and \
                isinstance(e.slice, ast.Constant) and e.slice.value == 0:
            return e.value.value.id
        if isinstance(e, ast.Call) and isinstance(e.func, ast.Name) and e.func.id == 'len' and len(e.args) == 1 and isinstance(e.args[0], ast.Name):
            return e.args[0].id
        return None

    def rewrite(stmts):
        nonlocal count
        k = 0
        while k < len(stmts):
            s_ = stmts[k]
            for fld in ('body', 'orelse', 'finalbody'):
                sub = getattr(s_, fld, None)
                if isinstance(sub, list) and sub and isinstance(sub[0], ast.stmt):
                    rewrite(sub)
            if isinstance(s_, ast.For) and not s_.orelse and isinstance(s_.target, ast.Name) and isinstance(s_.iter, ast.Call) and \
                    isinstance(s_.iter.func, ast.Name) and s_.iter.func.id in ('range', 'prange') and len(s_.iter.args) == 1:
                T = table_of_bound(s_.iter.args[0])
                ok = T is not None and not any(isinstance(x, (ast.Break, ast.Continue)) for x in _own_level(s_.body)) and \
                    not any(isinstance(x, ast.Name) and x.id in (T, s_.target.id) and isinstance(x.ctx, (ast.Store, ast.Del)) for b_ in s_.body for x in ast.walk(b_))
                if ok and T in phis:
                    test, ta, tb = phis[T]
                    ua, ub = _unrolled(s_, T, ta), _unrolled(s_, T, tb)
                    if ua is not None and ub is not None:
                        new = ast.copy_location(ast.If(test=copy.deepcopy(test), body=ua, orelse=ub), s_)
                        ast.fix_missing_locations(new)
                        stmts[k] = new
                        count += 1
                elif ok and T not in stored:
                    rows = _table_literal(prog, fv, m, T)
                    un = _unrolled(s_, T, rows) if rows is not None else None
                    if un is not None:
                        for u in un:
                            ast.copy_location(u, s_)
                            ast.fix_missing_locations(u)
                        stmts[k:k + 1] = un
                        count += 1
                        k += len(un) - 1
            k += 1
    rewrite(node.body)
    if not count:
        return f
    ast.fix_missing_locations(node)
    g = Func(f.module, node, f.parent)
    g.jit = f.jit
    g.children = f.children
    g.inlined_from = f
    return g
