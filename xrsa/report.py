"""Obligations, evidence files, known findings and the exit protocol."""
import hashlib
import json
import os
import time

VERIF = os.path.dirname(os.path.dirname(os.path.abspath(__file__)))
EVIDENCE_DIR = os.environ.get('XRSA_EVIDENCE_DIR') or os.path.join(VERIF, 'evidence')
REPLAY_DIR = os.path.join(EVIDENCE_DIR, 'replay')
KNOWN_FILE = os.path.join(VERIF, 'KNOWN_FINDINGS')

DISCHARGED, REFUTED, UNDECIDED, KNOWN = 'discharged', 'refuted', 'undecided', 'known-finding'


class Obligation:
    __slots__ = ('prop', 'rule', 'module', 'entry', 'site', 'line', 'facts', 'status', 'why', 'trivial', 'func')

    def __init__(self, prop, rule, module, entry, site, line, status, why='', facts=None, trivial=False):
        self.prop = prop
        self.rule = rule
        self.module = module
        self.entry = entry
        self.site = ' '.join(str(site).split())
        self.line = line
        self.status = status
        self.why = why
        self.facts = facts or {}
        self.trivial = trivial

    @property
    def key(self):
        return '%s:%s:%s' % (self.module, self.entry, self.site)

    def ident(self):
        return (self.prop, self.rule, self.key)

    def as_dict(self):
        d = {'rule': self.rule, 'property': self.prop, 'module': self.module, 'entry': self.entry,
             'site': self.site, 'line': self.line, 'status': self.status}
        if self.why:
            d['why'] = self.why
        if self.facts:
            d['facts'] = self.facts
        return d


class KnownFindings:
    def __init__(self, path=KNOWN_FILE):
        self.open = []    # (prop, rule, key, text)
        self.fixed = []
        if os.path.exists(path):
            for ln in open(path, encoding='utf-8'):
                ln = ln.strip()
                if not ln or ln.startswith('#'):
                    continue
                if ln.startswith('open:'):
                    rest = ln[5:].strip()
                    prop = _field(rest, 'property')
                    rule = _field(rest, 'rule')
                    key, text = _key_and_text(rest)
                    self.open.append((prop, rule, key, text))
                elif ln.startswith('fixed:'):
                    self.fixed.append(ln[6:].strip())

    def match(self, ob):
        for prop, rule, key, text in self.open:
            if prop == ob.prop and rule == ob.rule and key == ob.key:
                return text
        return None


def _field(s, name):
    for tok in s.split():
        if tok.startswith(name + '='):
            return tok[len(name) + 1:]
    return None


def _key_and_text(s):
    # key=<...>; the key extends to ' :: ' which separates it from the free text
    i = s.find('key=')
    rest = s[i + 4:]
    if ' :: ' in rest:
        k, t = rest.split(' :: ', 1)
        return k.strip(), t.strip()
    return rest.strip(), ''


class Report:
    def __init__(self, prop, tier='quick'):
        self.prop = prop
        self.tier = tier
        self.obs = []
        self.t0 = time.time()
        self.notes = []
        self.coverage_extra = {}
        self.floors = {}     # rule -> min instances
        self.incomplete = []  # further reasons why the run does not decide the property

    def add(self, rule, func_or_mod, entry, site, line, ok, why='', facts=None, trivial=False):
        module = getattr(func_or_mod, 'rel', None) or getattr(getattr(func_or_mod, 'module', None), 'rel', None) \
            or str(func_or_mod)
        status = DISCHARGED if ok is True else (REFUTED if ok is False else UNDECIDED)
        ob = Obligation(self.prop, rule, module, entry, site, line, status, why, facts, trivial)
        ob.func = getattr(getattr(func_or_mod, 'inlined_from', None) or func_or_mod, 'qualname', None)
        self.obs.append(ob)
        return ob

    def floor(self, rule, n):
        self.floors[rule] = n

    def finish(self, seed=0, cmd=''):
        """Apply known findings and floors, write evidence, print, return exit code."""
        kf = KnownFindings()
        per_rule = {}
        for ob in self.obs:
            per_rule[ob.rule] = per_rule.get(ob.rule, 0) + 1
        incomplete = list(self.incomplete)
        for rule, n in sorted(self.floors.items()):
            if per_rule.get(rule, 0) < n:
                incomplete.append('rule %s matched %d instances, below the confirmed floor %d'
                                  % (rule, per_rule.get(rule, 0), n))
        violations = []
        known = []
        seen = set()
        for ob in self.obs:
            if ob.status == REFUTED:
                txt = kf.match(ob)
                if txt is not None:
                    ob.status = KNOWN
                    known.append((ob, txt))
                else:
                    violations.append(ob)
            elif ob.status == UNDECIDED:
                incomplete.append('%s %s:%s %s undecided: %s' % (ob.rule, ob.module, ob.line, ob.site[:80], ob.why))
        os.makedirs(REPLAY_DIR, exist_ok=True)
        for ob, txt in known:
            k = ob.ident()
            if k in seen:
                continue
            seen.add(k)
            print('KNOWN-FINDING: property=%s rule=%s %s:%s %s -- %s' % (self.prop, ob.rule, ob.module, ob.line,
                                                                         ob.site[:100], txt))
        vseen = set()
        for ob in violations:
            k = ob.ident()
            if k in vseen:
                continue
            vseen.add(k)
            h = hashlib.sha1(repr(k).encode()).hexdigest()[:12]
            path = os.path.join(REPLAY_DIR, '%s-%s.json' % (self.prop, h))
            with open(path, 'w') as f:
                json.dump(ob.as_dict(), f, indent=1, sort_keys=True)
            print('VIOLATION property=%s replay=%s' % (self.prop, path))
            print('  %s:%s in %s rule=%s' % (ob.module, ob.line, ob.entry, ob.rule))
            print('  construct: %s' % ob.site[:300])
            print('  reason: %s' % ob.why)
        for msg in incomplete:
            print('ANALYSIS-INCOMPLETE property=%s %s' % (self.prop, msg))
        n = len(self.obs)
        distinct = len({ob.ident() for ob in self.obs if not ob.trivial})
        discharged = sum(1 for ob in self.obs if ob.status == DISCHARGED)
        samples = []
        by_rule_sample = {}
        for ob in self.obs:
            if ob.rule not in by_rule_sample:
                by_rule_sample[ob.rule] = ob
        for r in sorted(by_rule_sample):
            samples.append(by_rule_sample[r].as_dict())
        for ob in violations[:5]:
            samples.append(ob.as_dict())
        cov = {
            'explanation': 'static analysis of /repo working tree: %d obligations over rules %s; '
                           'each obligation is one (rule, construct) pair decided from the parsed source, '
                           'nothing is executed' % (n, ', '.join('%s=%d' % kv for kv in sorted(per_rule.items()))),
            'obligations': n, 'discharged': discharged, 'evaluations': n, 'distinct_nontrivial': distinct,
            'rule': 'one obligation per (rule, construct); distinct = distinct (rule, module, entry, normalised '
                    'construct text); non-trivial = the rule had to resolve a kernel, dataflow fact, table or '
                    'symbolic form (obligations flagged trivial are excluded)',
            'per_rule': per_rule, 'samples': samples[:40], 'exhaustive': True,
            'known_findings': [ob.as_dict() for ob, _ in known],
            'checker_cmd': cmd,
            'trusted_base': ['CPython 3.12 ast', 'library-model tables in xrsa', 'specification tables in DESIGN.md'],
        }
        cov.update(self.coverage_extra)
        ev = {
            'property_id': self.prop, 'tier': self.tier, 'seed': seed, 'level': 'other',
            'coverage': cov, 'wall_s': round(time.time() - self.t0, 3), 'violations': len(vseen),
            'assumptions': ['numba compiles a kernel to what its Python source says',
                            'GPU (cuda/cupy) paths are not analysed',
                            'NumPy/dask/xarray behave as the library-model table states'] + self.notes,
        }
        os.makedirs(EVIDENCE_DIR, exist_ok=True)
        with open(os.path.join(EVIDENCE_DIR, self.prop + '.json'), 'w') as f:
            json.dump(ev, f, indent=1, sort_keys=True, default=str)
        print('%s %s: %d obligations, %d discharged, %d known findings, %d violations, %d undecided (%.2fs)'
              % (self.prop, self.tier, n, discharged, len(seen), len(vseen), len(incomplete), time.time() - self.t0))
        print('  per rule: ' + ', '.join('%s=%d' % kv for kv in sorted(per_rule.items())))
        if vseen:
            return 1
        if incomplete:
            return 2
        return 0
