"""Partial evaluation of small pure table-building functions on literal arguments.

Functions such as `_neighborhood_structure(connectivity)` or the module-level unit tables only build constants: literal
lists and tuples, comprehensions over them, conditional expressions, `if` on the argument.  Their *value* for each of
the finitely many meaningful arguments is what a rule needs, not their spelling.  `fold_call(prog, f, args)` evaluates
such a function over Python constants; anything outside the small pure subset raises CannotFold (the rule then reports
the construct as undecided).  No library code is run: names resolve only to literals of the analysed module, the
supported builtins are listed below, and loops run over literal collections only."""
import ast

from .program import Func


class CannotFold(Exception):
    pass


class _Return(Exception):
    def __init__(self, value):
        self.value = value


class _Continue(Exception):
    pass


class _Break(Exception):
    pass


PURE_BUILTINS = {'len': len, 'list': list, 'tuple': tuple, 'sorted': sorted, 'zip': lambda *a: list(zip(*a)), 'abs': abs,
                 'enumerate': lambda x, start=0: list(enumerate(x, start)), 'range': lambda *a: list(range(*a)), 'min': min,
                 'max': max, 'sum': sum, 'int': int, 'float': float, 'bool': bool, 'set': set, 'dict': dict, 'reversed': lambda x: list(reversed(x)),
                 'str': str}
DTYPE_NAMES = ('int_', 'intp', 'int8', 'int16', 'int32', 'int64', 'uint8', 'uint16', 'uint32', 'uint64', 'float16', 'float32', 'float64',
               'bool_', 'double', 'single')
ARRAY_CTORS = ('array', 'asarray')     # np.array(list) is the list for our purposes
MAX_STEPS = 20000


class _BList(list):
    """element-wise boolean result (np.isnan of a sequence)"""
    pass


def _counter(seq):
    out = {}
    for x in seq:
        out[x] = out.get(x, 0) + 1
    return out


class Folder:
    def __init__(self, prog, module):
        self.prog, self.module = prog, module
        self.steps = 0

    def tick(self, node):
        self.steps += 1
        if self.steps > MAX_STEPS:
            raise CannotFold('too many steps')

    # ------------------------------------------------------------------ expressions
    def ev(self, e, env):
        self.tick(e)
        m = getattr(self, 'e_' + type(e).__name__, None)
        if m is None:
            raise CannotFold('expression %s' % type(e).__name__)
        return m(e, env)

    def e_Constant(self, e, env):
        return e.value

    def e_Name(self, e, env):
        if e.id in env:
            return env[e.id]
        if e.id in ('True', 'False', 'None'):
            return {'True': True, 'False': False, 'None': None}[e.id]
        vals = self.module.assigns.get(e.id, [])
        if len(vals) == 1:
            return self.ev(vals[0], {})
        imp = self.module.imports.get(e.id)
        if imp and imp[0] == 'attr':
            t = self.prog.resolve_global(imp[1], imp[2])
            if isinstance(t, ast.AST):
                return self.ev(t, {})
            if isinstance(t, tuple) and t and t[0] == 'modvalue':       # a constant of another module of the package
                fo = Folder(self.prog, t[1])
                fo.steps = self.steps
                return fo.ev(t[3], {})
        raise CannotFold('name %s' % e.id)

    def e_Attribute(self, e, env):
        if isinstance(e.value, ast.Name) and e.value.id in ('np', 'numpy', 'math') and e.value.id not in env:
            if e.attr in ('nan', 'NaN', 'NAN'):
                return float('nan')
            if e.attr == 'inf':
                return float('inf')
            if e.value.id != 'math' and e.attr in DTYPE_NAMES:
                return ('dtype', e.attr)
        if e.attr in ('shape', 'size', 'ndim') and not (isinstance(e.value, ast.Name) and e.value.id in ('np', 'numpy', 'math')):
            v = self.ev(e.value, env)
            if isinstance(v, (list, tuple)) and all(isinstance(x, (int, float)) for x in v):
                # a 1-D model vector
                return {'shape': (len(v),), 'size': len(v), 'ndim': 1}[e.attr]
        raise CannotFold('attribute %s' % ast.unparse(e))

    def e_Tuple(self, e, env):
        return tuple(self.ev(x, env) for x in e.elts)

    def e_List(self, e, env):
        return [self.ev(x, env) for x in e.elts]

    def e_Set(self, e, env):
        return set(self.ev(x, env) for x in e.elts)

    def e_Dict(self, e, env):
        if any(k is None for k in e.keys):
            raise CannotFold('dict unpacking')
        return {self.ev(k, env): self.ev(v, env) for k, v in zip(e.keys, e.values)}

    def e_UnaryOp(self, e, env):
        v = self.ev(e.operand, env)
        if isinstance(e.op, ast.USub):
            return -v
        if isinstance(e.op, ast.UAdd):
            return +v
        if isinstance(e.op, ast.Not):
            return not v
        raise CannotFold('unary operator')

    def e_BinOp(self, e, env):
        a, b = self.ev(e.left, env), self.ev(e.right, env)
        ops = {ast.Add: lambda: a + b, ast.Sub: lambda: a - b, ast.Mult: lambda: a * b, ast.FloorDiv: lambda: a // b,
               ast.Mod: lambda: a % b, ast.Div: lambda: a / b, ast.Pow: lambda: a ** b}
        fn = ops.get(type(e.op))
        if fn is None:
            raise CannotFold('binary operator')
        try:
            return fn()
        except Exception as ex:     # noqa
            raise CannotFold('arithmetic: %s' % ex)

    def e_BoolOp(self, e, env):
        if isinstance(e.op, ast.And):
            v = True
            for x in e.values:
                v = self.ev(x, env)
                if not v:
                    return v
            return v
        v = False
        for x in e.values:
            v = self.ev(x, env)
            if v:
                return v
        return v

    def e_Compare(self, e, env):
        left = self.ev(e.left, env)
        for op, rhs in zip(e.ops, e.comparators):
            right = self.ev(rhs, env)
            fn = {ast.Eq: lambda: left == right, ast.NotEq: lambda: left != right, ast.Lt: lambda: left < right,
                  ast.LtE: lambda: left <= right, ast.Gt: lambda: left > right, ast.GtE: lambda: left >= right,
                  ast.In: lambda: left in right, ast.NotIn: lambda: left not in right, ast.Is: lambda: left is right,
                  ast.IsNot: lambda: left is not right}[type(op)]
            try:
                if not fn():
                    return False
            except Exception as ex:     # noqa
                raise CannotFold('comparison: %s' % ex)
            left = right
        return True

    def e_IfExp(self, e, env):
        return self.ev(e.body, env) if self.ev(e.test, env) else self.ev(e.orelse, env)

    def e_Subscript(self, e, env):
        base = self.ev(e.value, env)
        if isinstance(e.slice, ast.Slice):
            g = lambda x: self.ev(x, env) if x is not None else None    # noqa
            idx = slice(g(e.slice.lower), g(e.slice.upper), g(e.slice.step))
        else:
            idx = self.ev(e.slice, env)
        try:
            return base[idx]
        except Exception as ex:     # noqa
            raise CannotFold('subscript: %s' % ex)

    def comp(self, gens, env, emit):
        if not gens:
            emit(env)
            return
        g = gens[0]
        for item in self.ev(g.iter, env):
            self.tick(g)
            e2 = dict(env)
            self.bind(g.target, item, e2)
            if all(self.ev(c, e2) for c in g.ifs):
                self.comp(gens[1:], e2, emit)

    def e_ListComp(self, e, env):
        out = []
        self.comp(e.generators, env, lambda e2: out.append(self.ev(e.elt, e2)))
        return out

    e_GeneratorExp = e_ListComp

    def e_SetComp(self, e, env):
        return set(self.e_ListComp(e, env))

    def e_DictComp(self, e, env):
        out = {}
        self.comp(e.generators, env, lambda e2: out.__setitem__(self.ev(e.key, e2), self.ev(e.value, e2)))
        return out

    def e_Call(self, e, env):
        fn = e.func
        args = [self.ev(a, env) for a in e.args]
        kwargs = {k.arg: self.ev(k.value, env) for k in e.keywords if k.arg}
        if isinstance(fn, ast.Name) and fn.id in PURE_BUILTINS and fn.id not in env:
            try:
                return PURE_BUILTINS[fn.id](*args, **kwargs)
            except Exception as ex:     # noqa
                raise CannotFold('%s: %s' % (fn.id, ex))
        if isinstance(fn, ast.Attribute) and fn.attr in ARRAY_CTORS and isinstance(fn.value, ast.Name) and fn.value.id in ('np', 'numpy') \
                and args:
            return args[0]
        if isinstance(fn, ast.Attribute) and fn.attr in ('empty', 'zeros', 'ones', 'full') and isinstance(fn.value, ast.Name) and \
                fn.value.id in ('np', 'numpy') and fn.value.id not in env and args and set(kwargs) <= {'dtype'}:
            # a fresh 1-D vector of a folded length (the cells of np.empty are unset: None folds with nothing)
            n_ = args[0][0] if isinstance(args[0], tuple) and len(args[0]) == 1 else args[0]
            if isinstance(n_, int) and not isinstance(n_, bool) and 0 <= n_ <= 4096 and len(args) == (2 if fn.attr == 'full' else 1):
                return [{'empty': None, 'zeros': 0, 'ones': 1}.get(fn.attr, args[-1])] * n_
        if isinstance(fn, ast.Attribute) and fn.attr in ('argmin', 'argmax') and isinstance(fn.value, ast.Name) and fn.value.id in ('np', 'numpy') \
                and len(args) == 1 and not kwargs and isinstance(args[0], (list, tuple)) and args[0]:
            # first position of the extreme value (NumPy's tie rule)
            return list(args[0]).index(min(args[0]) if fn.attr == 'argmin' else max(args[0]))
        if isinstance(fn, ast.Attribute) and fn.attr == 'isnan' and isinstance(fn.value, ast.Name) and fn.value.id in ('np', 'numpy', 'math') \
                and fn.value.id not in env and len(args) == 1 and not kwargs:
            x = args[0]
            if isinstance(x, (list, tuple)):
                if not all(isinstance(v, (int, float)) for v in x):
                    raise CannotFold('isnan of a nested value')
                return _BList(v != v for v in x)
            if isinstance(x, (int, float)):
                return x != x
            raise CannotFold('isnan argument')
        if isinstance(fn, ast.Attribute) and fn.attr in ('isfinite', 'isinf') and isinstance(fn.value, ast.Name) and fn.value.id in ('np', 'numpy', 'math') \
                and fn.value.id not in env and len(args) == 1 and not kwargs:
            x = args[0]
            if isinstance(x, (int, float)) and not isinstance(x, bool):
                inf_ = x in (float('inf'), float('-inf'))
                return inf_ if fn.attr == 'isinf' else not (inf_ or x != x)
            raise CannotFold('%s argument' % fn.attr)
        if isinstance(fn, ast.Attribute) and fn.attr in ('any', 'all') and not args and not kwargs and not (
                isinstance(fn.value, ast.Name) and fn.value.id in ('np', 'numpy')):
            recv = self.ev(fn.value, env)
            if isinstance(recv, _BList):
                return any(recv) if fn.attr == 'any' else all(recv)
            raise CannotFold('%s of a value that is not an element-wise test' % fn.attr)
        if isinstance(fn, ast.Attribute) and fn.attr in ('any', 'all') and isinstance(fn.value, ast.Name) and fn.value.id in ('np', 'numpy') \
                and len(args) == 1 and not kwargs and isinstance(args[0], _BList):
            return any(args[0]) if fn.attr == 'any' else all(args[0])
        if isinstance(fn, ast.Attribute) and isinstance(fn.value, ast.Name) and fn.value.id == 'operator' and fn.value.id not in env and \
                fn.attr in ('gt', 'lt', 'ge', 'le', 'eq', 'ne') and len(args) == 2 and not kwargs:
            import operator as _op
            try:
                return getattr(_op, fn.attr)(args[0], args[1])
            except Exception as ex:     # noqa
                raise CannotFold('operator.%s: %s' % (fn.attr, ex))
        if isinstance(fn, ast.Name) and fn.id == 'Counter' and fn.id not in env and len(args) == 1 and not kwargs:
            try:
                return _counter(args[0])
            except TypeError:
                raise CannotFold('Counter of unhashable values')
        if isinstance(fn, ast.Attribute) and fn.attr in ('keys', 'values', 'items', 'get', 'lower', 'upper', 'strip', 'index', 'count', 'replace',
                                                        'rstrip', 'lstrip', 'endswith', 'startswith', 'casefold', 'title', 'removesuffix', 'removeprefix'):
            recv = self.ev(fn.value, env)
            if isinstance(recv, (dict, str, list, tuple)):
                try:
                    r = getattr(recv, fn.attr)(*args, **kwargs)
                    return list(r) if fn.attr in ('keys', 'values', 'items') else r
                except Exception as ex:     # noqa
                    raise CannotFold('%s: %s' % (fn.attr, ex))
        if isinstance(fn, ast.Name):
            t = self.module.funcs.get(fn.id)
            if isinstance(t, Func) and (not t.node.decorator_list or t.jit is not None):
                # a plain helper, or a jitted one (numba compiles what the source says): folded in turn
                return fold_call(self.prog, t, args, kwargs, self)
        raise CannotFold('call of %s' % ast.unparse(fn))

    # ------------------------------------------------------------------ statements
    def bind(self, t, v, env):
        if isinstance(t, ast.Name):
            env[t.id] = v
        elif isinstance(t, (ast.Tuple, ast.List)):
            try:
                vals = list(v)
            except TypeError:
                raise CannotFold('unpacking a non-sequence')
            if len(vals) != len(t.elts):
                raise CannotFold('unpacking length')
            for x, y in zip(t.elts, vals):
                self.bind(x, y, env)
        elif isinstance(t, ast.Subscript):
            base = self.ev(t.value, env)
            try:
                base[self.ev(t.slice, env)] = v
            except Exception as ex:     # noqa
                raise CannotFold('store: %s' % ex)
        else:
            raise CannotFold('assignment target')

    def block(self, stmts, env):
        for s in stmts:
            self.tick(s)
            if isinstance(s, ast.Assign):
                v = self.ev(s.value, env)
                for t in s.targets:
                    self.bind(t, v, env)
            elif isinstance(s, ast.AnnAssign) and s.value is not None:
                self.bind(s.target, self.ev(s.value, env), env)
            elif isinstance(s, ast.AugAssign):
                self.bind(s.target, self.ev(ast.BinOp(left=s.target, op=s.op, right=s.value), env), env)
            elif isinstance(s, ast.If):
                self.block(s.body if self.ev(s.test, env) else s.orelse, env)
            elif isinstance(s, ast.Return):
                raise _Return(self.ev(s.value, env) if s.value is not None else None)
            elif isinstance(s, ast.For):
                broke = False
                for item in self.ev(s.iter, env):
                    self.bind(s.target, item, env)
                    try:
                        self.block(s.body, env)
                    except _Continue:
                        continue
                    except _Break:
                        broke = True
                        break
                if not broke:
                    self.block(s.orelse, env)
            elif isinstance(s, ast.While):
                broke = False
                while self.ev(s.test, env):
                    self.tick(s)
                    try:
                        self.block(s.body, env)
                    except _Continue:
                        continue
                    except _Break:
                        broke = True
                        break
                if not broke:
                    self.block(s.orelse, env)
            elif isinstance(s, ast.Continue):
                raise _Continue()
            elif isinstance(s, ast.Break):
                raise _Break()
            elif isinstance(s, ast.Expr):
                c = s.value
                if isinstance(c, ast.Constant):
                    continue
                if isinstance(c, ast.Call) and isinstance(c.func, ast.Attribute) and c.func.attr in ('append', 'extend', 'add', 'update', 'sort', 'reverse') \
                        and isinstance(c.func.value, ast.Name) and c.func.value.id in env:
                    try:
                        getattr(env[c.func.value.id], c.func.attr)(*[self.ev(a, env) for a in c.args],
                                                                   **{k_.arg: self.ev(k_.value, env) for k_ in c.keywords if k_.arg})
                    except (AttributeError, TypeError) as ex:
                        raise CannotFold('%s: %s' % (c.func.attr, ex))
                    continue
                raise CannotFold('expression statement')
            elif isinstance(s, ast.Raise):
                raise CannotFold('raises')
            elif isinstance(s, ast.Pass):
                continue
            else:
                raise CannotFold('statement %s' % type(s).__name__)


def fold_call(prog, f, args=(), kwargs=None, folder=None):
    """value of f(*args, **kwargs) for literal arguments, f a small pure function of the analysed package"""
    fo = folder or Folder(prog, f.module)
    if folder is not None and f.module is not folder.module:
        fo = Folder(prog, f.module)
        fo.steps = folder.steps
    env = dict(zip(f.params, args))
    env.update(kwargs or {})
    d = f.defaults()
    for p in f.params + f.kwonly:
        if p not in env:
            if p not in d:
                raise CannotFold('argument %s missing' % p)
            env[p] = fo.ev(d[p], {})
    try:
        fo.block(f.node.body, env)
    except _Return as r:
        return r.value
    return None


def fold_expr(prog, module, e, env=None):
    return Folder(prog, module).ev(e, dict(env or {}))
