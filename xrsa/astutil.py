"""Small AST helpers shared by the bespoke rules."""
import ast
import copy

from .program import norm


def calls(node, attr=None, name=None):
    for n in ast.walk(node):
        if isinstance(n, ast.Call):
            if attr is not None and isinstance(n.func, ast.Attribute) and n.func.attr == attr:
                yield n
            elif name is not None and isinstance(n.func, ast.Name) and n.func.id == name:
                yield n
            elif attr is None and name is None:
                yield n


def short(call):
    """last component of the callee: np.nanmin -> 'nanmin', f -> 'f'"""
    f = call.func
    if isinstance(f, ast.Attribute):
        return f.attr
    if isinstance(f, ast.Name):
        return f.id
    return None


def kw(call, name, default=None):
    for k in call.keywords:
        if k.arg == name:
            return k.value
    return default


def const(node, default=None):
    """value of a literal expression; a name that the loader has marked as a module-level literal constant (normal form N2,
    normalform.mark_module_constants: `VIEWPOINT_ANG = 180` ... `f(VIEWPOINT_ANG)`) has that constant's value"""
    try:
        return ast.literal_eval(node)
    except Exception:
        pass
    if isinstance(node, ast.Name) and hasattr(node, '_xrsa_const'):
        return node._xrsa_const
    if isinstance(node, ast.UnaryOp) and isinstance(node.op, ast.USub) and isinstance(node.operand, ast.Name) and \
            hasattr(node.operand, '_xrsa_const') and isinstance(node.operand._xrsa_const, (int, float)):
        return -node.operand._xrsa_const
    if isinstance(node, (ast.Tuple, ast.List)):
        vals = [const(x, _MISSING) for x in node.elts]
        if all(v is not _MISSING for v in vals):
            return tuple(vals) if isinstance(node, ast.Tuple) else vals
    return default


_MISSING = object()


class Inliner(ast.NodeTransformer):
    def __init__(self, env):
        self.env = env

    def visit_Name(self, n):
        if isinstance(n.ctx, ast.Load) and n.id in self.env:
            return copy.deepcopy(self.env[n.id])
        return n


def inline(expr, env):
    return Inliner(env).visit(copy.deepcopy(expr))


def straightline_env(stmts, upto=None, env=None):
    """name -> expr for simple `name = expr` assignments in a statement list (later ones see earlier ones inlined).
    Stops at `upto` (a statement object)."""
    env = dict(env or {})
    for s in stmts:
        if s is upto:
            break
        if isinstance(s, ast.Assign) and all(isinstance(t, ast.Name) for t in s.targets):
            v = inline(s.value, env)          # `a = b = expr` binds every target
            for t in s.targets:
                env[t.id] = v
        elif isinstance(s, ast.Assign) and len(s.targets) == 1 and isinstance(s.targets[0], ast.Tuple) and \
                isinstance(s.value, ast.Tuple) and len(s.value.elts) == len(s.targets[0].elts):
            vals = [inline(v, env) for v in s.value.elts]
            for t, v in zip(s.targets[0].elts, vals):
                if isinstance(t, ast.Name):
                    env[t.id] = v
        elif isinstance(s, ast.Assign) and len(s.targets) == 1 and isinstance(s.targets[0], ast.Tuple):
            for t in s.targets[0].elts:
                if isinstance(t, ast.Name):
                    env.pop(t.id, None)
        elif isinstance(s, ast.AugAssign) and isinstance(s.target, ast.Name):
            env.pop(s.target.id, None)
        elif isinstance(s, ast.Expr) and isinstance(s.value, ast.Call) and isinstance(s.value.func, ast.Attribute) and \
                isinstance(s.value.func.value, ast.Name) and s.value.func.attr in MUTATORS:
            env.pop(s.value.func.value.id, None)          # x.append(..): x is no longer its initial literal
        elif isinstance(s, (ast.For, ast.While, ast.With, ast.Try)):
            # names bound or mutated inside a compound statement are not straight-line any more
            for n in ast.walk(s):
                if isinstance(n, ast.Name) and isinstance(n.ctx, ast.Store):
                    env.pop(n.id, None)
                if isinstance(n, ast.Call) and isinstance(n.func, ast.Attribute) and isinstance(n.func.value, ast.Name) and \
                        n.func.attr in MUTATORS:
                    env.pop(n.func.value.id, None)
    return env


MUTATORS = ('append', 'extend', 'insert', 'pop', 'remove', 'clear', 'sort', 'reverse', 'update', 'add', 'discard', 'setdefault', 'fill')


def stmts_of(node):
    """all statements nested in node (excluding nested function bodies)"""
    out = []
    for f in ('body', 'orelse', 'finalbody'):
        for s in getattr(node, f, []) or []:
            if isinstance(s, ast.stmt):
                out.append(s)
                if not isinstance(s, (ast.FunctionDef, ast.ClassDef)):
                    out.extend(stmts_of(s))
    for h in getattr(node, 'handlers', []) or []:
        out.extend(stmts_of(h))
    return out


def parent_map(root):
    pm = {}
    for n in ast.walk(root):
        for c in ast.iter_child_nodes(n):
            pm[c] = n
    return pm


def enclosing(pm, node, kinds):
    n = pm.get(node)
    while n is not None:
        if isinstance(n, kinds):
            return n
        n = pm.get(n)
    return None


def is_nan_expr(e):
    v_ = getattr(e, '_xrsa_const', None)          # a module-level constant bound to NaN (normal form N2)
    if isinstance(v_, float) and v_ != v_:
        return True
    if isinstance(e, ast.IfExp):
        return is_nan_expr(e.body) and is_nan_expr(e.orelse)        # NaN whichever library is asked for it
    t = norm(e)
    return t in ('np.nan', 'numpy.nan', 'np.NaN', 'math.nan', "float('nan')", 'nan', 'np.NAN', 'cupy.nan', 'cp.nan')


def terminates(stmts):
    """the block always ends in continue/break/return/raise"""
    if not stmts:
        return False
    s = stmts[-1]
    if isinstance(s, (ast.Continue, ast.Break, ast.Return, ast.Raise)):
        return True
    if isinstance(s, ast.If):
        return terminates(s.body) and terminates(s.orelse)
    return False


class BodyPath:
    """one path through a statement list: the branch decisions taken and the simple statements executed, in order"""
    def __init__(self, conds=(), stmts=(), exit='fall'):
        self.conds = list(conds)      # [(test expression, taken: bool)]
        self.stmts = list(stmts)      # simple statements (Assign, AugAssign, Expr, ...), in execution order
        self.exit = exit              # 'fall' | 'continue' | 'break' | 'return' | 'raise'

    def extended(self, conds=(), stmts=(), exit=None):
        return BodyPath(self.conds + list(conds), self.stmts + list(stmts), exit or self.exit)


def body_paths(stmts, limit=256):
    """all paths through a loop body / function body made of simple statements and if/elif/else (nested loops, try and
    with blocks are kept as single opaque statements).  Raises ValueError beyond `limit` paths."""
    paths = [BodyPath()]
    for s in stmts:
        new = []
        for p in paths:
            if p.exit != 'fall':
                new.append(p)
                continue
            if isinstance(s, ast.If):
                for taken, blk in ((True, s.body), (False, s.orelse)):
                    for q in body_paths(blk, limit):
                        new.append(p.extended([(s.test, taken)] + q.conds, q.stmts, q.exit))
            elif isinstance(s, ast.Continue):
                new.append(p.extended(exit='continue'))
            elif isinstance(s, ast.Break):
                new.append(p.extended(exit='break'))
            elif isinstance(s, ast.Return):
                new.append(p.extended(stmts=[s], exit='return'))
            elif isinstance(s, ast.Raise):
                new.append(p.extended(stmts=[s], exit='raise'))
            elif isinstance(s, ast.Pass):
                new.append(p)
            else:
                new.append(p.extended(stmts=[s]))
        paths = new
        if len(paths) > limit:
            raise ValueError('more than %d paths' % limit)
    # conditions are interleaved with statements only through their order of first appearance; rules that need the
    # exact interleaving use `stmts` (execution order) and `conds` (decision order) separately
    return paths


def canon_test_text(e):
    """normalised text of a test with single comparisons written with the constant on the right (`0 < len(v)` reads
    `len(v)>0`), spaces removed"""
    import ast as _ast, copy as _copy
    from .program import norm as _norm
    FL = {_ast.Lt: _ast.Gt, _ast.Gt: _ast.Lt, _ast.LtE: _ast.GtE, _ast.GtE: _ast.LtE, _ast.Eq: _ast.Eq, _ast.NotEq: _ast.NotEq}

    class T(_ast.NodeTransformer):
        def visit_Compare(self, n):
            self.generic_visit(n)
            if len(n.ops) == 1 and type(n.ops[0]) in FL and isinstance(n.left, _ast.Constant) and not isinstance(n.comparators[0], _ast.Constant):
                return _ast.copy_location(_ast.Compare(left=n.comparators[0], ops=[FL[type(n.ops[0])]()], comparators=[n.left]), n)
            return n
    return _norm(_ast.fix_missing_locations(T().visit(_copy.deepcopy(e)))).replace(' ', '')


def nan_initialised(fnode, name):
    """the local array `name` of the function holds NaN everywhere before it is first written cell by cell: allocated by
    `np.full(shape, nan)` / `np.full_like(x, nan)`, or allocated any way and, as the very next statement that mentions it
    (same block), filled as a whole: `name.fill(nan)`, `name[:] = nan`, `name[...] = nan`, `name[:, :] = nan`."""
    def walk_blocks(stmts):
        yield stmts
        for s in stmts:
            for fld in ('body', 'orelse', 'finalbody'):
                sub = getattr(s, fld, None)
                if isinstance(sub, list) and sub and isinstance(sub[0], ast.stmt) and not isinstance(s, (ast.FunctionDef, ast.Lambda)):
                    yield from walk_blocks(sub)
    found = False
    for block in walk_blocks(fnode.body):
        for i, s in enumerate(block):
            if not (isinstance(s, ast.Assign) and len(s.targets) == 1 and isinstance(s.targets[0], ast.Name) and s.targets[0].id == name and
                    isinstance(s.value, ast.Call)):
                continue
            v = s.value
            sh = short(v)
            if sh in ('full', 'full_like'):
                fv = v.args[1] if len(v.args) >= 2 else next((k.value for k in v.keywords if k.arg == 'fill_value'), None)
                if fv is not None and is_nan_expr(fv):
                    found = True
                    continue
                return False
            if sh not in ('empty', 'zeros', 'ones', 'empty_like', 'zeros_like', 'ones_like'):
                continue        # not an allocation (a reshape of itself, another kind of result on another branch)
            nxt = next((t for t in block[i + 1:] if any(isinstance(n, ast.Name) and n.id == name for n in ast.walk(t))), None)
            ok = False
            if isinstance(nxt, ast.Expr) and isinstance(nxt.value, ast.Call) and isinstance(nxt.value.func, ast.Attribute) and \
                    nxt.value.func.attr == 'fill' and isinstance(nxt.value.func.value, ast.Name) and nxt.value.func.value.id == name and \
                    len(nxt.value.args) == 1 and is_nan_expr(nxt.value.args[0]):
                ok = True
            if isinstance(nxt, ast.Assign) and len(nxt.targets) == 1 and isinstance(nxt.targets[0], ast.Subscript) and \
                    isinstance(nxt.targets[0].value, ast.Name) and nxt.targets[0].value.id == name and is_nan_expr(nxt.value):
                sl = nxt.targets[0].slice
                parts = sl.elts if isinstance(sl, ast.Tuple) else [sl]
                ok = all((isinstance(x, ast.Slice) and x.lower is None and x.upper is None and x.step is None) or
                         (isinstance(x, ast.Constant) and x.value is Ellipsis) for x in parts)
            if not ok:
                return False
            found = True
    return found



def literalise(e):
    """a copy of the expression with module-level literal constants (normal form N2) written out as literals"""
    import copy as _cp

    class _L(ast.NodeTransformer):
        def visit_Name(self, n_):
            v_ = getattr(n_, '_xrsa_const', None)
            if isinstance(n_.ctx, ast.Load) and hasattr(n_, '_xrsa_const'):
                if isinstance(v_, (int, float, str)) and not isinstance(v_, bool) and not (isinstance(v_, float) and v_ != v_):
                    return ast.copy_location(ast.Constant(value=v_), n_)
                if isinstance(v_, (tuple, list)) and all(isinstance(x, (int, float, str)) and not isinstance(x, bool) for x in v_):
                    return ast.copy_location(ast.Tuple(elts=[ast.Constant(value=x) for x in v_], ctx=ast.Load()), n_)
            return n_
    return ast.fix_missing_locations(_L().visit(_cp.deepcopy(e)))
