"""Utilities over interpreted kernels: footprints, spec evaluation, approximate constant matching."""
import ast
import math
from fractions import Fraction

from .kai import Arr, Interp, Kernel, TupleV, cond_repr, flatten_and
from .program import AnalysisIncomplete, Func, norm
from .sym import App, Poly, Rat, Sym, subst, walk_atoms

PI = Fraction(math.pi)
NUMERIC = {'pi': PI, 'e': Fraction(math.e)}


def reads_in(x, arrname=None):
    out = []
    for a in walk_atoms(x):
        if isinstance(a, App) and a.name == 'read' and (arrname is None or a.args[0] == arrname):
            out.append(a)
    return out


def guard_atoms(guards):
    s = set()
    for g in guards:
        _cond_atoms(g, s)
    return s


def _cond_atoms(c, s):
    if c[0] == 'cmp':
        walk_atoms(c[3] if len(c) > 3 else c[2], s)      # full form / App-argument form (cond_arg)
    elif c[0] in ('and', 'or'):
        for x in c[1:]:
            _cond_atoms(x, s)
    elif c[0] == 'not':
        _cond_atoms(c[1], s)
    elif c[0] == 'truth':
        walk_atoms(c[1], s) if isinstance(c[1], Rat) else None


def offsets(read_atoms, center):
    """offsets (tuple of Fractions) of reads relative to centre index Rats; None entry if not constant."""
    out = set()
    for a in read_atoms:
        idx = a.args[1:]
        if len(idx) != len(center):
            out.add(None)
            continue
        off = []
        for i, c in zip(idx, center):
            d = i - c
            if d.is_const():
                off.append(d.const_value())
            else:
                off.append(None)
        out.add(tuple(off))
    return out


def numeric(x):
    """substitute pi/e by their float values (as exact Fractions)"""
    def f(a):
        if isinstance(a, Sym) and a.name in NUMERIC:
            return Rat.const(NUMERIC[a.name])
        return None
    return subst(x, f)


def approx_equal(a, b, tol=Fraction(1, 10**5)):
    """a == b exactly, or a/b is a constant within tol of 1 after substituting numeric constants."""
    if a == b:
        return True
    a2, b2 = numeric(a), numeric(b)
    if a2 == b2:
        return True
    if b2.n.is_zero() or a2.n.is_zero():
        return False
    r = a2 / b2
    if r.is_const():
        return abs(r.const_value() - 1) <= tol
    # structural: same atoms but constants inside Apps slightly different -> compare after rounding
    return _round_consts(a2) == _round_consts(b2)


def _round_consts(x, digits=6):
    """round every rational coefficient to `digits` significant digits (used only for ~ comparison)."""
    def rc(c):
        if c == 0:
            return c
        f = float(c)
        return Fraction(('%.' + str(digits - 1) + 'e') % f)

    def rpoly(p):
        q = Poly()
        for m, c in p.t.items():
            m2 = tuple((ratom(a), pw) for a, pw in m)
            q = q + Poly({tuple(sorted(m2, key=lambda ap: repr(ap[0].key()))): rc(c)})
        return q

    def ratom(a):
        if isinstance(a, App):
            return App(a.name, [rarg(z) for z in a.args])
        return a

    def rarg(z):
        if isinstance(z, Rat):
            return rrat(z)
        if isinstance(z, tuple):
            return tuple(rarg(y) for y in z)
        return z

    def rrat(r):
        n, d = r._canon()
        return Rat(rpoly(n), rpoly(d))
    return rrat(x)


class Spec:
    """Evaluate specification text (python expressions/statements) with the same interpreter."""
    def __init__(self, prog, env, module=None):
        self.prog = prog
        mod = module or prog.module('utils')
        node = ast.parse('def __spec__():\n    pass\n').body[0]
        self.f = Func(mod, node, None)
        self.it = Interp(prog, self.f, strict=True)
        self.it.env = {}
        from .kai import UFUNCS
        from .program import Ext
        for nm in UFUNCS:
            self.it.env[nm] = ('callable', Ext('numpy.' + nm))
        self.it.env.update(env)

    def run(self, text):
        tree = ast.parse(_dedent(text))
        self.it.block(tree.body)
        return self

    def expr(self, text):
        v = self.it.ev(ast.parse(text.strip(), mode='eval').body)
        return v

    def __getitem__(self, name):
        return self.it.env[name]


def _dedent(t):
    import textwrap
    return textwrap.dedent(t).strip() + '\n'


def find_loops_over(kernel, arr):
    """map axis -> loop whose bounds mention shape(arr, axis)"""
    out = {}
    for lp in kernel.loops:
        if lp.kind not in ('range', 'prange') or lp.hi is None:
            continue
        for a in walk_atoms(lp.hi):
            if isinstance(a, App) and a.name == 'shape' and a.args[0] == arr:
                out.setdefault(a.args[1], []).append(lp)
    return out


def eval_rat(x, assignment):
    """Evaluate Rat exactly with atoms -> Fraction; returns Fraction or None if an atom is unassigned."""
    def f(a):
        if a in assignment:
            return Rat.const(assignment[a])
        if isinstance(a, Sym) and a.name in NUMERIC:
            return Rat.const(NUMERIC[a.name])
        return None
    r = subst(x, f)
    if r.is_const():
        return r.const_value()
    return None


def eval_cond(c, assignment):
    if c[0] == 'cmp':
        v = eval_rat(c[3], assignment)
        if v is None:
            return None
        return {'==': v == 0, '!=': v != 0, '<': v < 0, '<=': v <= 0}[c[1]]
    if c[0] == 'and':
        vals = [eval_cond(x, assignment) for x in c[1:]]
        if any(v is False for v in vals):
            return False
        return None if any(v is None for v in vals) else True
    if c[0] == 'or':
        vals = [eval_cond(x, assignment) for x in c[1:]]
        if any(v is True for v in vals):
            return True
        return None if any(v is None for v in vals) else False
    if c[0] == 'not':
        v = eval_cond(c[1], assignment)
        return None if v is None else (not v)
    if c[0] == 'const':
        return c[1]
    return None


def show(x, n=160):
    s = repr(x)
    return s if len(s) <= n else s[:n] + '...'


def const_ratio(p, q):
    """Fraction c with p == c*q for Polys p, q, else None."""
    if p.is_zero() or q.is_zero():
        return None
    m = next(iter(q.t))
    if m not in p.t:
        return None
    c = p.t[m] / q.t[m]
    return c if p == q.scale(c) else None


# ------------------------------------------------------------------ exact numeric evaluation (Engine G)
class CannotEvaluate(Exception):
    pass


NONE_VALUE = Fraction(-987654321)     # stands for None in evaluated tables (`x is None`)


def evaluate(x, env):
    """Exact value (Fraction, or the string 'nan') of a Rat/atom under env: atom -> Fraction.  Supports ite, abs,
    min, max, floordiv, int, sign; anything else must be bound in env."""
    if isinstance(x, Rat):
        num = _eval_poly(x.n, env)
        den = _eval_poly(x.d, env)
        if den == 0:
            raise CannotEvaluate('division by zero')
        return num / den
    return _eval_atom(x, env)


def _eval_poly(p, env):
    tot = Fraction(0)
    for m, c in p.t.items():
        term = Fraction(c)
        for a, pw in m:
            term *= _eval_atom(a, env) ** pw
        tot += term
    return tot


def _eval_atom(a, env):
    if a in env:
        return Fraction(env[a])
    if isinstance(a, Sym):
        if a.name in NUMERIC:
            return NUMERIC[a.name]
        raise CannotEvaluate('unbound symbol %r' % a)
    if isinstance(a, App):
        if a.name == 'ite':
            c = eval_cond_full(a.args[0], env)
            return evaluate(a.args[1] if c else a.args[2], env)
        if a.name == 'abs':
            return abs(evaluate(a.args[0], env))
        if a.name in ('min', 'max'):
            vals = [evaluate(z, env) for z in a.args]
            return min(vals) if a.name == 'min' else max(vals)
        if a.name == 'floordiv':
            u, v = evaluate(a.args[0], env), evaluate(a.args[1], env)
            return Fraction(u // v)
        if a.name == 'int':
            return Fraction(int(evaluate(a.args[0], env)))
        if a.name == 'bool':
            return Fraction(1 if eval_cond_full(a.args[0], env) else 0)
        if a.name == 'none':
            return NONE_VALUE
        if a.name == 'is':
            return Fraction(1 if evaluate(a.args[0], env) == evaluate(a.args[1], env) else 0)
        if a.name == 'mod':
            u, v = evaluate(a.args[0], env), evaluate(a.args[1], env)
            if v == 0:
                raise CannotEvaluate('modulo by zero')
            return Fraction(u % v)
        if a.name in ('BitAnd', 'BitOr', 'augBitAnd', 'augBitOr'):
            u, v = evaluate(a.args[0], env), evaluate(a.args[1], env)
            if u.denominator != 1 or v.denominator != 1:
                raise CannotEvaluate('bit operation on a non-integer')
            return Fraction(int(u) & int(v) if a.name.endswith('And') else int(u) | int(v))
        if a.name == 'isnan' and len(a.args) == 1 and isinstance(a.args[0], Rat):
            evaluate(a.args[0], env)        # a value that evaluates to a rational number is not NaN
            return Fraction(0)
        hook = env.get('__read__') if isinstance(env, dict) else None
        if hook is not None and a.name in ('read', 'cell?', 'getitem'):
            # array contents supplied by the rule: hook(array key, index values) -> value (or raises CannotEvaluate)
            idx = a.args[1:-1] if a.name == 'cell?' else a.args[1:]
            return Fraction(hook(a.args[0], tuple(evaluate(i, env) for i in idx)))
        raise CannotEvaluate('uninterpreted %s' % a.name)
    raise CannotEvaluate(repr(a))


def eval_cond_full(c, env):
    if c[0] == 'cmp':
        d = c[2] if isinstance(c[2], Rat) else c[3]
        v = evaluate(d, env)
        return {'==': v == 0, '!=': v != 0, '<': v < 0, '<=': v <= 0}[c[1]]
    if c[0] in ('and', 'or'):
        # operand order is not significant (conditions are stored sorted): a deciding operand wins over one that
        # cannot be evaluated (`x is not None and x != y` with x unbound)
        dec = c[0] == 'or'
        err = None
        for x in c[1:]:
            try:
                if eval_cond_full(x, env) is dec:
                    return dec
            except CannotEvaluate as e:
                err = e
        if err is not None:
            raise err
        return not dec
    if c[0] == 'not':
        return not eval_cond_full(c[1], env)
    if c[0] == 'const':
        return bool(c[1])
    if c[0] == 'truth':
        return evaluate(c[1], env) != 0
    raise CannotEvaluate(repr(c))


def returned_arrays(kernel):
    """distinct arrays (by identity) returned by an interpreted kernel - several return statements may return the same"""
    out = []
    for v, g in kernel.returns:
        if isinstance(v, Arr) and not any(v is o for o in out):
            out.append(v)
    return out


def flag_setting_paths(loop, name):
    """A loop that only ever *sets* a flag: returns (c, paths) where `name` becomes the constant c (True / False / a
    number) on exactly the listed paths of an iteration - each a list of conditions relative to the iteration, from the
    conditional update at the end of the body and from the paths that leave through `break` - and keeps its value on
    every other path.  None when the variable is changed in any other way.  After such a loop the flag is c iff it was c
    before or some iteration took one of the paths ("any")."""
    carried = getattr(loop, 'carried', {})
    if name not in carried:
        return None
    phi, post = carried[name]
    paths = []
    consts = set()

    def as_const(v):
        if isinstance(v, tuple) and v and v[0] == 'const':
            return Fraction(1 if v[1] is True else 0 if v[1] is False else v[1])
        if isinstance(v, Rat) and v.is_const():
            return v.const_value()
        if isinstance(v, Rat):
            a = _single_app(v)
            if a is not None and a.name == 'bool' and isinstance(a.args[0], tuple) and a.args[0][0] == 'const':
                return Fraction(1 if a.args[0][1] else 0)
        return None

    def same(v):
        if isinstance(v, Rat) and v == phi:
            return True
        a = _single_app(v) if isinstance(v, Rat) else None
        return a is not None and a.name == 'bool' and a.args[0] == ('truth', phi)

    def walk(v, conds):
        a = _single_app(v) if isinstance(v, Rat) else None
        if a is not None and a.name == 'ite':
            return walk(a.args[1], conds + [a.args[0]]) and walk(a.args[2], conds + [('not', a.args[0])])
        if same(v):
            return True
        c = as_const(v)
        if c is None:
            return False
        consts.add(c)
        paths.append(list(conds))
        return True
    if not walk(post if isinstance(post, Rat) else Rat.atom(App('bool', [post])) if False else post, []):
        return None
    for g, envb, nb in getattr(loop, 'breaks', []):
        v = envb.get(name)
        if v is None or same(v):
            continue
        c = as_const(v)
        if c is None:
            return None
        consts.add(c)
        paths.append(list(g))
    if len(consts) != 1:
        return None if consts else (None, [])
    return consts.pop(), paths


def _single_app(r):
    if isinstance(r, Rat) and r.d.is_const() and len(r.n.t) == 1:
        (mm, c), = r.n.t.items()
        if len(mm) == 1 and mm[0][1] == 1 and c == r.d.const_value() and isinstance(mm[0][0], App):
            return mm[0][0]
    return None


def arg_cond(t):
    """guard form of a condition stored as an App argument (cond_arg form)"""
    from .kai import cmp_cond
    if t[0] == 'cmp' and len(t) == 3:
        return cmp_cond(t[1], t[2], Rat.const(0))
    if t[0] in ('and', 'or'):
        return (t[0],) + tuple(arg_cond(x) for x in t[1:])
    if t[0] == 'not':
        from .kai import neg_cond
        return neg_cond(arg_cond(t[1]))
    return t


def value_cases(value, guards=()):
    """the leaves of a conditional value with the conditions they are reached under: [(conds, leaf)], conds in guard
    form starting with `guards`.  `if c: out = v` / `out = v if c else w` / a helper returning on either branch all
    read as cases of one cell function."""
    from .kai import neg_cond, flatten_and
    out = []

    def go(v, conds):
        a = _single_app(v) if isinstance(v, Rat) else None
        if a is not None and a.name == 'ite':
            c = arg_cond(a.args[0])
            go(a.args[1], conds + [c])
            go(a.args[2], conds + [neg_cond(c)])
        else:
            out.append((flatten_and(conds), v))
    go(value, list(flatten_and(list(guards))))
    return out


def is_nan_value(v):
    return isinstance(v, Rat) and v == Rat.atom(App('nan', []))
